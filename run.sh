#!/bin/bash
# Entry point of the verification machinery.
#   run.sh setup                      build tools, pre-warm the build cache
#   run.sh check <Cnn> quick|thorough rebuild from $VERIF_REPO (default /repo) and run one check
#   run.sh replay <replays/x.json>    re-run one recorded counter-example
set -u
HERE="$(cd "$(dirname "${BASH_SOURCE[0]}")" && pwd)"
export VERIF_ROOT="${VERIF_ROOT:-$HERE}"
export VERIF_REPO="${VERIF_REPO:-/repo}"
export GOFLAGS=-mod=mod GOPROXY=off GOSUMDB=off GOTOOLCHAIN=local CGO_ENABLED=0
GO=/opt/veriftools/go1.26.8/bin/go
[ -x "$GO" ] || GO=$(command -v go1.26.8)
GOROOT_V=$($GO env GOROOT)
export GOCACHE="${VERIF_GOCACHE:-$HERE/.cache/go-build}"
mkdir -p "$GOCACHE" "$HERE/.cache"

# which checks need the overlay (instrumented) binary
SCHED_CHECKS=" C06 "

# checks with two parts: a schedule-exploring part (overlay binary) whose coverage is merged into the
# API-level part (plain binary), which writes the evidence and decides the exit code
HYBRID_CHECKS=" C04 C07 C08 C11 C19 "

# scratch root: tmpfs if there is one, never something a registered command depends on
mkscratch() {
  local base=/dev/shm
  if ! [ -d "$base" ] || ! [ -w "$base" ]; then base="${TMPDIR:-/tmp}"; fi
  SCR="$base/verif.$$"
  rm -rf "$SCR"; mkdir -p "$SCR/tmp" "$SCR/build" "$SCR/work"
  export VERIF_SCRATCH="$SCR/work"
  export TMPDIR="$SCR/tmp"
  # a second file system (the one this directory is on) for the few cases that need source and destination on
  # different ones; removed with the rest
  export VERIF_DISK_SCRATCH="$HERE/.cache/disk.$$"
  mkdir -p "$VERIF_DISK_SCRATCH"
  trap 'chmod -R u+rwx "$SCR" "$VERIF_DISK_SCRATCH" 2>/dev/null; rm -rf "$SCR" "$VERIF_DISK_SCRATCH"' EXIT
}

# modfile pointing at $VERIF_REPO
mkmod() {
  sed "s#=> /repo#=> $VERIF_REPO#" "$HERE/harness/go.mod" > "$SCR/build/go.mod"
  cp "$HERE/harness/go.sum" "$SCR/build/go.sum" 2>/dev/null || cp "$VERIF_REPO/go.sum" "$SCR/build/go.sum"
}

build_plain() {
  mkmod
  (cd "$HERE/harness" && $GO build -modfile="$SCR/build/go.mod" -o "$SCR/build/plain" ./cmd/plain) || return 3
}

build_instrument() {
  (cd "$HERE/harness" && $GO build -modfile="$SCR/build/go.mod" -o "$SCR/build/instrument" ./cmd/instrument) || return 3
}

build_sched() {
  mkmod
  build_instrument || return 3
  "$SCR/build/instrument" -repo "$VERIF_REPO" -goroot "$GOROOT_V" -harness "$HERE/harness" -out "$SCR/build/ov" > "$SCR/build/instrument.log" || { cat "$SCR/build/instrument.log"; return 3; }
  (cd "$HERE/harness" && $GO test -c -tags verifrt -vet=off -modfile="$SCR/build/go.mod" -overlay "$SCR/build/ov/overlay.json" -o "$SCR/build/sched.test" ./sched) || return 3
}

# auxiliary free-running binary under the race detector (needs cgo); only C08 uses it
build_race() {
  mkmod
  (cd "$HERE/harness" && CGO_ENABLED=1 $GO build -race -modfile="$SCR/build/go.mod" -o "$SCR/build/racepass" ./cmd/racepass) || return 3
}

case "${1:-}" in
setup)
  mkscratch
  echo "setup: go=$($GO version) repo=$VERIF_REPO"
  build_plain || { echo "setup: plain build failed"; exit 3; }
  if [ -d "$HERE/harness/sched" ]; then
    build_sched || { echo "setup: sched build failed"; exit 3; }
  fi
  build_race || echo "setup: race-detector build not available (C08 will report aux_race_runs=0)"
  echo "setup: ok"
  ;;
check)
  id="${2:?property id}"; tier="${3:-${VERIF_TIER:-quick}}"
  mkscratch
  if [[ "$SCHED_CHECKS" == *" $id "* ]]; then
    build_sched || { echo "INFRA: build of instrumented binary failed for $id" >&2; exit 3; }
    if [ "$id" = "C08" ] && build_race 2>/dev/null; then export VERIF_RACEPASS="$SCR/build/racepass"; fi
    GOMAXPROCS_SAVE="${GOMAXPROCS:-}"
    "$SCR/build/sched.test" -test.run '^TestDriver$' -test.timeout 0 -verif.check "$id" -verif.tier "$tier"
    exit $?
  else
    build_plain || { echo "INFRA: build failed for $id" >&2; exit 3; }
    if [[ "$HYBRID_CHECKS" == *" $id "* ]]; then
      build_sched || { echo "INFRA: build of instrumented binary failed for $id" >&2; exit 3; }
      if [ "$id" = "C08" ] && build_race 2>/dev/null; then export VERIF_RACEPASS="$SCR/build/racepass"; fi
      export VERIF_PARTIAL="$SCR/build/partial.json"
      "$SCR/build/sched.test" -test.run '^TestDriver$' -test.timeout 0 -verif.check "$id" -verif.tier "$tier" -verif.partial "$VERIF_PARTIAL" || echo "INFRA: schedule part of $id exited $?" >&2
    fi
    "$SCR/build/plain" "$id" "$tier"
    exit $?
  fi
  ;;
replay)
  f="${2:?replay file}"
  mkscratch
  id=$(python3 -c "import json,sys;print(json.load(open(sys.argv[1]))['property'])" "$f")
  if [[ "$SCHED_CHECKS" == *" $id "* ]] || { [[ "$HYBRID_CHECKS" == *" $id "* ]] && grep -q '"scn"' "$f"; }; then
    build_sched || exit 3
    "$SCR/build/sched.test" -test.run '^TestDriver$' -test.timeout 0 -verif.replay "$f"
  else
    build_plain || exit 3
    "$SCR/build/plain" replay "$f"
  fi
  exit $?
  ;;
*)
  echo "usage: run.sh setup | check <Cnn> quick|thorough | replay <file>" >&2; exit 3;;
esac
