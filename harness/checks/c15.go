package checks

import (
	"context"
	"encoding/json"
	"errors"
	"fmt"
	"os"
	"path"
	"path/filepath"
	"strings"

	fscopy "github.com/tonistiigi/fsutil/copy"
	"verif/evid"
	"verif/fsmodel"
	"verif/par"
	"verif/scratch"
)

func init() { register("C15", runC15, replayC15) }

type c15Case struct {
	Src    fsmodel.Tree `json:"src"`
	Dst    fsmodel.Tree `json:"dst"`
	SrcArg string       `json:"srcarg"`
	DstArg string       `json:"dstarg"`
	DirC   bool         `json:"dirc,omitempty"`
	Repl   bool         `json:"repl,omitempty"`
	Wild   bool         `json:"wild,omitempty"`
	// Exclude: exclude patterns (literal source paths); only "destination entries at paths the copy does not
	// select stay" is judged for these cases
	Exclude []string `json:"exclude,omitempty"`
	// Follow: FollowLinks with a source argument that is a symlink inside the source root
	Follow bool `json:"follow,omitempty"`
	// DstLink: the destination root is handed over as a symlink to the directory (/var/run, current -> releases/42)
	DstLink bool `json:"dstlink,omitempty"`
	// Disk: source and destination lie on the disk file system (inode numbers are handed out again at once)
	Disk bool `json:"disk,omitempty"`
}

func shapeOf(t fsmodel.Tree) string {
	var s []string
	for _, n := range t {
		switch n.Kind {
		case fsmodel.Dir:
			s = append(s, n.Path+"/")
		case fsmodel.Symlink:
			s = append(s, n.Path+"->"+n.Link)
		default:
			s = append(s, fmt.Sprintf("%s=%s", n.Path, n.Data))
		}
	}
	return "{" + strings.Join(s, " ") + "}"
}

func (c c15Case) String() string {
	s := fmt.Sprintf("src=%s dst=%s Copy(%q -> %q) dircontents=%v always-replace=%v wildcards=%v dst-root-is-a-symlink=%v on-disk-filesystem=%v", shapeOf(c.Src), shapeOf(c.Dst), c.SrcArg, c.DstArg, c.DirC, c.Repl, c.Wild, c.DstLink, c.Disk)
	if len(c.Exclude) > 0 || c.Follow {
		s += fmt.Sprintf(" exclude=%q follow-links=%v", c.Exclude, c.Follow)
	}
	return s
}

// ---- executable overlay model, written from the property text ----

type copyConflict struct {
	obstacle string // destination path that is in the way
	why      string
}

type overlayModel struct {
	dst  fsmodel.Tree
	repl bool
}

func (m *overlayModel) find(p string) *fsmodel.Node {
	if p == "" {
		return &fsmodel.Node{Kind: fsmodel.Dir} // the destination root always exists
	}
	return m.dst.Find(p)
}

func (m *overlayModel) remove(p string) { m.dst = removeSub(m.dst, p) }

func (m *overlayModel) put(n fsmodel.Node, p string) {
	n.Path = p
	m.dst = append(m.dst, n)
	m.dst.Sort()
}

// mkdirAll creates missing directories; a non-directory in the way is a conflict.
func (m *overlayModel) mkdirAll(p string) *copyConflict {
	p = strings.Trim(p, "/")
	if p == "" {
		return nil
	}
	parts := strings.Split(p, "/")
	for i := range parts {
		q := strings.Join(parts[:i+1], "/")
		n := m.find(q)
		if n == nil {
			m.put(fsmodel.Node{Kind: fsmodel.Dir, Perm: 0755}, q)
		} else if n.Kind != fsmodel.Dir {
			return &copyConflict{q, "a non-directory is in the way of a directory that has to exist"}
		}
	}
	return nil
}

// lay overlays source entry s (with its subtree from src) at destination path t.
func (m *overlayModel) lay(src fsmodel.Tree, s string, t string) *copyConflict {
	sn := src.Find(s)
	tn := m.find(t)
	if m.repl && tn != nil && !(sn.Kind == fsmodel.Dir && tn.Kind == fsmodel.Dir) {
		m.remove(t) // always-replace: the source wins
		tn = nil
	}
	if sn.Kind != fsmodel.Dir {
		if tn != nil {
			if tn.Kind == fsmodel.Dir {
				return &copyConflict{t, "a non-directory meets a directory"}
			}
			m.remove(t) // a non-directory replaces a non-directory of any type
		}
		m.put(*sn, t)
		return nil
	}
	if tn == nil {
		m.put(*sn, t)
	} else if tn.Kind != fsmodel.Dir {
		return &copyConflict{t, "a directory meets a non-directory"}
	}
	for _, c := range src {
		if parentOf(c.Path) == s {
			if cf := m.lay(src, c.Path, strings.Trim(t+"/"+path.Base(c.Path), "/")); cf != nil {
				return cf
			}
		}
	}
	return nil
}

// wildMatches lists the source paths a wildcard argument names, in listing order.
func wildMatches(src fsmodel.Tree, arg string) []string {
	parts := strings.Split(strings.Trim(arg, "/"), "/")
	k := 0
	for k < len(parts) && !hasWild(parts[k]) {
		k++
	}
	base := strings.Join(parts[:k], "/")
	pat := strings.Join(parts[k:], "/")
	if pat == "" {
		return []string{base}
	}
	if base != "" {
		if n := src.Find(base); n == nil || n.Kind != fsmodel.Dir {
			return nil
		}
	}
	var out []string
	s := src.Clone()
	s.Sort()
	skip := ""
	for _, n := range s {
		if base != "" && !strings.HasPrefix(n.Path, base+"/") {
			continue
		}
		if skip != "" && strings.HasPrefix(n.Path, skip) {
			continue
		}
		rel := strings.TrimPrefix(strings.TrimPrefix(n.Path, base), "/")
		if ok, _ := path.Match(pat, rel); ok {
			out = append(out, n.Path)
			if n.Kind == fsmodel.Dir {
				skip = n.Path + "/"
			}
		}
	}
	return out
}

// copyModel returns the expected destination, or a conflict.
// On a conflict the first result is the destination at the moment of the conflict.
func copyModel(c c15Case, dst fsmodel.Tree) (fsmodel.Tree, *copyConflict, string) {
	m := &overlayModel{dst: dst.Clone(), repl: c.Repl}
	dstArg := c.DstArg
	ensure := dstArg
	if d, f := path.Split(dstArg); f != "" && f != "." {
		ensure = d
	}
	if cf := m.mkdirAll(ensure); cf != nil {
		return m.dst, cf, ""
	}
	dstPath := strings.Trim(path.Clean("/"+dstArg), "/")
	srcs := []string{strings.Trim(path.Clean("/"+c.SrcArg), "/")}
	if c.Wild {
		srcs = wildMatches(c.Src, c.SrcArg)
		if len(srcs) == 0 {
			return nil, nil, "no matches"
		}
	}
	for _, s := range srcs {
		var sn *fsmodel.Node
		if s == "" {
			sn = &fsmodel.Node{Kind: fsmodel.Dir}
		} else if sn = c.Src.Find(s); sn == nil {
			return nil, nil, "source does not exist"
		}
		t := dstPath
		var tn *fsmodel.Node
		if t == "" {
			tn = &fsmodel.Node{Kind: fsmodel.Dir}
		} else {
			tn = m.find(t)
		}
		isDir := sn.Kind == fsmodel.Dir
		switch {
		case s == "":
			// the source root has no name of its own: its contents go to the destination path
		case isDir && !c.DirC && tn != nil && tn.Kind == fsmodel.Dir:
			t = strings.Trim(t+"/"+path.Base(s), "/") // a directory lands inside an existing directory under its own name
		case !isDir && tn != nil && tn.Kind == fsmodel.Dir:
			t = strings.Trim(t+"/"+path.Base(s), "/") // a file copied to an existing directory lands inside it
		}
		if cf := m.mkdirAll(parentOf(t)); cf != nil {
			return m.dst, cf, ""
		}
		if s == "" {
			// the source root itself: its contents are merged into t
			if t != "" {
				tn := m.find(t)
				if m.repl && tn != nil && tn.Kind != fsmodel.Dir {
					m.remove(t)
					tn = nil
				}
				if tn == nil {
					m.put(fsmodel.Node{Kind: fsmodel.Dir, Perm: 0755}, t)
				} else if tn.Kind != fsmodel.Dir {
					return m.dst, &copyConflict{t, "a directory meets a non-directory"}, ""
				}
			}
			for _, ch := range c.Src {
				if parentOf(ch.Path) == "" {
					if cf := m.lay(c.Src, ch.Path, strings.Trim(t+"/"+ch.Path, "/")); cf != nil {
						return m.dst, cf, ""
					}
				}
			}
			continue
		}
		if cf := m.lay(c.Src, s, t); cf != nil {
			return m.dst, cf, ""
		}
	}
	return m.dst, nil, ""
}

// argTouchesSymlink: does a path argument traverse or end at a symlink of the tree?
func argTouchesSymlink(t fsmodel.Tree, arg string) bool {
	parts := strings.Split(strings.Trim(path.Clean("/"+arg), "/"), "/")
	for i := range parts {
		if hasWild(parts[i]) {
			break
		}
		if n := t.Find(strings.Join(parts[:i+1], "/")); n != nil && n.Kind == fsmodel.Symlink {
			return true
		}
	}
	return false
}

func runCopy(c c15Case, srcDir, dstDir string) error {
	ci := fscopy.CopyInfo{CopyDirContents: c.DirC, AlwaysReplaceExistingDestPaths: c.Repl, AllowWildcards: c.Wild, ExcludePatterns: c.Exclude, FollowLinks: c.Follow}
	if c.DstLink {
		lnk := dstDir + ".lnk"
		os.Remove(lnk)
		if err := os.Symlink(filepath.Base(dstDir), lnk); err != nil {
			return err
		}
		dstDir = lnk
	}
	return boundedCopy(func() error {
		return fscopy.Copy(context.Background(), srcDir, c.SrcArg, dstDir, c.DstArg, fscopy.WithCopyInfo(ci))
	})
}

func judgeC15Raw(c c15Case) (string, string) {
	root := scratch.Dir("ov")
	if c.Disk {
		if d := scratch.DiskDir("ov"); d != "" {
			root = d
		}
	}
	defer scratch.Remove(root)
	// the roots carry pattern metacharacters in their own names: only what lies below a root is ever matched
	srcDir, dstDir := filepath.Join(root, "s[1]rc"), filepath.Join(root, "d[s]t*")
	os.Mkdir(srcDir, 0755)
	os.Mkdir(dstDir, 0755)
	if err := fsmodel.Materialize(c.Src, srcDir); err != nil {
		return "infra", err.Error()
	}
	if err := fsmodel.Materialize(c.Dst, dstDir); err != nil {
		return "infra", err.Error()
	}
	before, _ := fsmodel.Snapshot(dstDir)
	if len(c.Exclude) > 0 {
		// whatever else happens (the call may fail on a conflict elsewhere): a destination entry at a path whose
		// source entry the patterns leave out is not the copy's to touch
		runCopy(c, srcDir, dstDir)
		after, serr := fsmodel.Snapshot(dstDir)
		if serr != nil {
			return "infra", serr.Error()
		}
		for _, e := range c.Exclude {
			if c.Src.Find(e) == nil {
				continue
			}
			dirsAbove := true
			for q := parentOf(e); q != ""; q = parentOf(q) {
				if n := before.Find(q); n == nil || n.Kind != fsmodel.Dir {
					dirsAbove = false
				}
			}
			if !dirsAbove {
				continue
			}
			for _, b := range before.Under(e) {
				a := after.Find(b.Path)
				if a == nil || a.Kind != b.Kind || string(a.Data) != string(b.Data) || a.Link != b.Link || a.Ino != b.Ino {
					return "excluded-path-touched", fmt.Sprintf("%q is left out by the exclude patterns, but the destination entry %s was %v and is now %v", e, b.Path, b, a)
				}
			}
		}
		return "", ""
	}
	modelCase := c
	if c.Follow {
		// the argument is a link inside the source root: what it points to is copied under the argument's name
		arg := strings.Trim(path.Clean("/"+c.SrcArg), "/")
		if n := c.Src.Find(arg); n != nil && n.Kind == fsmodel.Symlink {
			tgt := strings.Trim(path.Clean("/"+path.Join(path.Dir(arg), n.Link)), "/")
			derived := removeSub(c.Src.Clone(), arg)
			for _, m := range c.Src.Under(tgt) {
				m.Path = arg + strings.TrimPrefix(m.Path, tgt)
				derived = append(derived, m)
			}
			derived.Sort()
			modelCase.Src = derived
		}
	}
	want, cf, inval := copyModel(modelCase, before)
	err := runCopy(c, srcDir, dstDir)
	if err == errCopyHangs {
		return "copy-hangs", err.Error()
	}
	after, serr := fsmodel.Snapshot(dstDir)
	if errors.Is(serr, fsmodel.ErrRootNotDir) {
		return "destination-root-replaced", fmt.Sprintf("after the copy (%v) the destination root itself is no directory any more", err)
	}
	if serr != nil {
		return "infra", serr.Error()
	}
	switch {
	case inval != "":
		if err == nil {
			return "invalid-source-accepted", inval + " but Copy returned nil"
		}
		return "", ""
	case cf != nil:
		if err == nil {
			return "conflict-not-reported", fmt.Sprintf("%s at %q (%s) but Copy returned nil; destination now %s", "the model finds a conflict", cf.obstacle, cf.why, shapeOf(after))
		}
		// the obstacle stays in place
		b, a := want.Find(cf.obstacle), after.Find(cf.obstacle)
		if b != nil && (a == nil || a.Kind != b.Kind || string(a.Data) != string(b.Data) || a.Link != b.Link) {
			return "obstacle-not-left-in-place", fmt.Sprintf("conflict at %q (%s): the obstacle was %v and is now %v", cf.obstacle, cf.why, b, a)
		}
		return "", ""
	}
	if err != nil {
		key := "unexpected-error"
		if c.Repl {
			key = "unexpected-error:always-replace"
		}
		if c.Wild && len(wildMatches(c.Src, c.SrcArg)) > 1 && strings.Contains(err.Error(), "failed to create hard link") {
			// several wildcard matches land on one destination path and a later match is a hard link of an
			// earlier one: the recorded link source has meanwhile been removed or replaced
			key = "hardlink-source-overwritten-by-later-wildcard-match"
		}
		return key, fmt.Sprintf("the overlay is well defined (%s) but Copy failed: %v", shapeOf(want), err)
	}
	if shapeOf(after) != shapeOf(want) {
		return "overlay-differs", fmt.Sprintf("destination is %s, overlay model gives %s", shapeOf(after), shapeOf(want))
	}
	// repeating the copy: again the model, and nothing changes when the targets are the same
	if argTouchesSymlink(after, c.DstArg) {
		return "", "" // the destination argument now runs through a link the first copy put there: C14's subject
	}
	want2, cf2, _ := copyModel(modelCase, after)
	err2 := runCopy(c, srcDir, dstDir)
	after2, _ := fsmodel.Snapshot(dstDir)
	if cf2 != nil {
		if err2 == nil {
			return "repeat:conflict-not-reported", fmt.Sprintf("second run: conflict at %q expected", cf2.obstacle)
		}
		return "", ""
	}
	if err2 != nil {
		return "repeat:unexpected-error", fmt.Sprintf("second run of a successful copy failed: %v", err2)
	}
	if shapeOf(after2) != shapeOf(want2) {
		return "repeat:overlay-differs", fmt.Sprintf("second run: destination is %s, model gives %s", shapeOf(after2), shapeOf(want2))
	}
	if shapeOf(want2) == shapeOf(after) {
		// same targets: metadata must not change either (inode, ctime and the containing directories' mtimes excepted)
		for _, n := range after {
			m := after2.Find(n.Path)
			if m == nil {
				return "repeat:changed", n.Path + " disappeared"
			}
			if n.Perm != m.Perm || n.UID != m.UID || n.GID != m.GID || (n.Kind != fsmodel.Dir && n.Mtime != m.Mtime) {
				return "repeat:changed", fmt.Sprintf("%s: %s became %s", n.Path, n.String(), m.String())
			}
		}
	}
	return "", ""
}

func c15Trees(uni []string, salt int) []fsmodel.Tree {
	kinds := []fsmodel.EntryKind{
		{"absent", func(string) *fsmodel.Node { return nil }},
		{"dir", func(p string) *fsmodel.Node {
			return &fsmodel.Node{Path: p, Kind: fsmodel.Dir, Perm: 0755, Mtime: fsmodel.T0 + int64(salt)}
		}},
		{"file", func(p string) *fsmodel.Node {
			return &fsmodel.Node{Path: p, Kind: fsmodel.File, Perm: 0644, Mtime: fsmodel.T0 + int64(salt) + 1, Data: []byte(fmt.Sprintf("%c:%s", 'S'+rune(salt), p))}
		}},
		{"sym", func(p string) *fsmodel.Node {
			link := fmt.Sprintf("t%d", salt)
			if salt == 1 {
				// destination symlinks point at other names of the universe, so that in many trees they
				// resolve to an existing directory or file inside the destination
				link = map[string]string{"x": "w", "x/y": "../w", "x/z": "y", "w": "x"}[p]
			}
			return &fsmodel.Node{Path: p, Kind: fsmodel.Symlink, Perm: 0777, Mtime: fsmodel.T0 + int64(salt) + 2, Link: link}
		}},
	}
	return fsmodel.Shapes(uni, kinds)
}

func runC15(r *evid.Run) {
	r.Technique = "bounded-exhaustive enumeration of (source tree, destination tree, src argument, dst argument, option set) over a shared name universe; every case one real Copy (run twice); oracle = executable overlay model written from the property text"
	r.Rule = "one evaluation = one (trees, arguments, options) case, copied twice; non-trivial = cases whose destination is not empty; states = distinct cases"
	r.Assume = []string{"path arguments that traverse or end at a symlink of the tree they address, and wildcard sources with a symlink among their matches, are C14's subject and excluded here", "metadata of pre-existing merged directories is not compared"}
	uni := []string{"x", "x/y", "w"}
	srcArgs := []string{"/", "x", "x/y", "*"}
	dstArgs := []string{"/", "x", "x/", "n", "n/m"}
	if r.Tier == "thorough" {
		uni = []string{"x", "x/y", "x/z", "w"}
		srcArgs = []string{"/", "/.", "x", "x/y", "w", "x/*", "*"}
		dstArgs = []string{"/", "x", "x/", "n", "n/", "n/m", "w"}
	}
	srcs, dsts := c15Trees(uni, 0), c15Trees(uni, 1)
	// variants in which all regular files of a tree share one inode (the copy must neither write
	// through a destination inode that has other names nor trip over its own links when repeated)
	linked := func(ts []fsmodel.Tree) []fsmodel.Tree {
		var out []fsmodel.Tree
		for _, t := range ts {
			nf := 0
			for _, n := range t {
				if n.Kind == fsmodel.File {
					nf++
				}
			}
			if nf < 2 {
				continue
			}
			l := t.Clone()
			for i := range l {
				if l[i].Kind == fsmodel.File {
					l[i].HL = 1
					l[i].Data = []byte("linked" + fmt.Sprint(len(ts[0])))
					l[i].Mtime = fsmodel.T0 + 77
				}
			}
			out = append(out, l)
		}
		return out
	}
	srcs, dsts = append(srcs, linked(srcs)...), append(dsts, linked(dsts)...)
	var cases []c15Case
	for _, s := range srcs {
		for _, d := range dsts {
			for _, sa := range srcArgs {
				for _, da := range dstArgs {
					for o := 0; o < 4; o++ {
						c := c15Case{Src: s, Dst: d, SrcArg: sa, DstArg: da, DirC: o&1 != 0, Repl: o&2 != 0, Wild: hasWild(sa)}
						if argTouchesSymlink(s, sa) || argTouchesSymlink(d, da) {
							continue
						}
						if c.Wild {
							sym := false
							for _, m := range wildMatches(s, sa) {
								if n := s.Find(m); n != nil && n.Kind == fsmodel.Symlink {
									sym = true
								}
							}
							if sym {
								continue
							}
						}
						cases = append(cases, c)
					}
				}
			}
		}
	}
	// exclude patterns that leave out one existing source entry, against every destination
	for _, sct := range srcs {
		for _, n := range sct {
			for _, d := range dsts {
				if d.Find(n.Path) == nil {
					continue
				}
				for o := 0; o < 4; o++ {
					cases = append(cases, c15Case{Src: sct, Dst: d, SrcArg: "/", DstArg: "/", DirC: o&1 != 0, Repl: o&2 != 0, Exclude: []string{n.Path}})
				}
			}
		}
	}
	// follow-links with a source argument that is a link to a directory / to a file with another base name
	{
		T := fsmodel.T0
		fl := fsmodel.Tree{{Path: "x", Kind: fsmodel.Dir, Perm: 0755, Mtime: T}, {Path: "x/y", Kind: fsmodel.File, Perm: 0644, Mtime: T + 1, Data: []byte("S:x/y")},
			{Path: "w", Kind: fsmodel.Symlink, Perm: 0777, Mtime: T + 2, Link: "x"}, {Path: "v", Kind: fsmodel.Symlink, Perm: 0777, Mtime: T + 3, Link: "x/y"}}
		fl.Sort()
		for _, d := range dsts {
			for _, sa := range []string{"w", "v"} {
				for _, da := range dstArgs {
					for o := 0; o < 4; o++ {
						if argTouchesSymlink(d, da) {
							continue
						}
						cases = append(cases, c15Case{Src: fl, Dst: d, SrcArg: sa, DstArg: da, DirC: o&1 != 0, Repl: o&2 != 0, Follow: true})
					}
				}
			}
		}
	}
	// a top-level source that is neither a regular file nor a directory (a link copied as a link, a fifo): it lands
	// inside an existing directory like any other non-directory
	{
		T := fsmodel.T0
		for _, sn := range []fsmodel.Node{{Path: "x", Kind: fsmodel.Fifo, Perm: 0644, Mtime: T}, {Path: "x", Kind: fsmodel.Symlink, Perm: 0777, Mtime: T, Link: "t0"}} {
			st := fsmodel.Tree{sn, {Path: "w", Kind: fsmodel.File, Perm: 0644, Mtime: T + 1, Data: []byte("S:w")}}
			st.Sort()
			for _, d := range dsts {
				for _, sa := range []string{"x", "*"} {
					for _, da := range dstArgs {
						for o := 0; o < 4; o++ {
							if argTouchesSymlink(d, da) {
								continue
							}
							cases = append(cases, c15Case{Src: st, Dst: d, SrcArg: sa, DstArg: da, DirC: o&1 != 0, Repl: o&2 != 0, Wild: hasWild(sa)})
						}
					}
				}
			}
		}
	}
	// several wildcard matches land on one destination path, and a name of a hard-linked file comes after the match that
	// replaced its first name: the later name carries the linked file's bytes, not those of whatever replaced the
	// first name - on tmpfs and on the disk file system (which re-uses the inode number of the replaced file)
	{
		T := fsmodel.T0
		dd := func(p string) fsmodel.Node { return fsmodel.Node{Path: p, Kind: fsmodel.Dir, Perm: 0755, Mtime: T} }
		mm := fsmodel.Tree{dd("x"), {Path: "x/f", Kind: fsmodel.File, Perm: 0644, Mtime: T + 1, Data: []byte("S:linked"), HL: 1}, dd("y"), {Path: "y/f", Kind: fsmodel.File, Perm: 0644, Mtime: T + 1, Data: []byte("S:other!")},
			dd("z"), {Path: "z/h", Kind: fsmodel.File, Perm: 0644, Mtime: T + 1, Data: []byte("S:linked"), HL: 1}, {Path: "z/k", Kind: fsmodel.File, Perm: 0600, Mtime: T + 2, Data: []byte("S:k")}}
		mm.Sort()
		for _, disk := range []bool{false, true} {
			for _, da := range []string{"/", "new", "new/"} {
				for o := 0; o < 4; o++ {
					cases = append(cases, c15Case{Src: mm, Dst: nil, SrcArg: "?", DstArg: da, DirC: o&1 != 0, Repl: o&2 != 0, Wild: true, Disk: disk})
				}
			}
		}
	}
	// an EMPTY regular file in the destination where the source has something that cannot be written into a file: a
	// symlink, a fifo, a directory, the second name of a linked file
	{
		T := fsmodel.T0
		e := func(p string) fsmodel.Node { return fsmodel.Node{Path: p, Kind: fsmodel.File, Perm: 0644, Mtime: T} }
		st := fsmodel.Tree{{Path: "k1", Kind: fsmodel.File, Perm: 0644, Mtime: T + 1, HL: 1}, {Path: "k2", Kind: fsmodel.File, Perm: 0644, Mtime: T + 1, HL: 1},
			{Path: "l", Kind: fsmodel.Symlink, Perm: 0777, Mtime: T + 2, Link: "k1"}, {Path: "p", Kind: fsmodel.Fifo, Perm: 0600, Mtime: T + 3},
			{Path: "r", Kind: fsmodel.File, Perm: 0644, Mtime: T + 4, Data: []byte("S:r")}, {Path: "d", Kind: fsmodel.Dir, Perm: 0755, Mtime: T}, {Path: "d/x", Kind: fsmodel.File, Perm: 0644, Mtime: T + 5}}
		st.Sort()
		dt := fsmodel.Tree{e("k1"), e("k2"), e("l"), e("p"), e("r"), {Path: "d", Kind: fsmodel.Dir, Perm: 0755, Mtime: T}, e("d/x")}
		for _, sa := range []string{"/", "k2", "l", "p", "r", "d"} {
			for o := 0; o < 4; o++ {
				cases = append(cases, c15Case{Src: st, Dst: dt, SrcArg: sa, DstArg: "/", DirC: o&1 != 0, Repl: o&2 != 0})
			}
		}
	}
	// the destination root reached through a symlink: a file copied to the root, to a name in it, into a directory in it
	{
		T := fsmodel.T0
		st := fsmodel.Tree{{Path: "f", Kind: fsmodel.File, Perm: 0644, Mtime: T + 1, Data: []byte("S:f")}, {Path: "d", Kind: fsmodel.Dir, Perm: 0755, Mtime: T}, {Path: "d/g", Kind: fsmodel.File, Perm: 0644, Mtime: T + 2, Data: []byte("S:d/g")}}
		for _, d := range []fsmodel.Tree{nil, {{Path: "keep", Kind: fsmodel.File, Perm: 0600, Mtime: T, Data: []byte("D:keep")}, {Path: "x", Kind: fsmodel.Dir, Perm: 0755, Mtime: T}}} {
			for _, sa := range []string{"f", "d/g"} {
				for _, da := range []string{"/", "x", "x/", "new"} {
					if (da == "x" || da == "x/") && d == nil {
						continue
					}
					for o := 0; o < 4; o++ {
						cases = append(cases, c15Case{Src: st, Dst: d, SrcArg: sa, DstArg: da, DirC: o&1 != 0, Repl: o&2 != 0, DstLink: true})
					}
				}
			}
		}
	}
	// wildcard sources of three and four components whose first wildcard component is selective: the union of the matches
	{
		T := fsmodel.T0
		f := func(p string, i int) fsmodel.Node {
			return fsmodel.Node{Path: p, Kind: fsmodel.File, Perm: 0644, Mtime: T + int64(i), Data: []byte("S:" + p)}
		}
		dd := func(p string) fsmodel.Node { return fsmodel.Node{Path: p, Kind: fsmodel.Dir, Perm: 0755, Mtime: T} }
		mono := fsmodel.Tree{dd("svc-a"), dd("svc-a/config"), f("svc-a/config/a.yaml", 1), f("svc-a/config/n.txt", 2), dd("svc-a/lib"), f("svc-a/lib/util.lock", 3),
			dd("svc-b"), dd("svc-b/config"), f("svc-b/config/b.yaml", 4), dd("svc-b/config/deep"), f("svc-b/config/deep/c.yaml", 5), dd("other"), dd("other/config"), f("other/config/o.yaml", 6),
			dd("services"), dd("services/svc-c"), dd("services/svc-c/config"), f("services/svc-c/config/c.yaml", 7), f("top.yaml", 8),
			// names that begin with a dot are names like any other
			f(".env", 9), dd(".git"), f(".git/HEAD", 10), f("svc-a/config/.secret.yaml", 11), dd("svc-b/.cache"), f("svc-b/.cache/x.lock", 12)}
		mono.Sort()
		for _, sa := range []string{"*", ".*", "svc-a/config/*", "svc-*/config/*.yaml", "svc-*/*/*.lock", "svc-?/config/*", "*/config/*.yaml", "services/svc-*/config/*.yaml", "svc-*/config/deep/*.yaml", "s*/*/*/*.yaml", "svc-*/config"} {
			for _, d := range []fsmodel.Tree{nil, {dd("out")}} {
				for _, da := range []string{"/", "out", "out/", "new/"} {
					for o := 0; o < 4; o++ {
						cases = append(cases, c15Case{Src: mono, Dst: d, SrcArg: sa, DstArg: da, DirC: o&1 != 0, Repl: o&2 != 0, Wild: true})
					}
				}
			}
		}
	}
	r.Set("cases", len(cases))
	r.Set("trees", len(srcs))
	par.Do(len(cases), par.Workers(), func(i int) {
		c := cases[i]
		key, msg := judgeC15(c)
		r.Evaluations.Add(1)
		r.Transitions.Add(2)
		r.StateH(evid.H(c.String()))
		if len(c.Dst) > 0 {
			r.Nontrivial(c.String())
		}
		if i%30000 == 31 {
			r.Sample(map[string]any{"case": c.String(), "result": key})
		}
		if key != "" {
			r.Violate(key, c.String()+": "+msg, c)
		}
	})
}

func replayC15(raw json.RawMessage) string {
	var c c15Case
	if err := json.Unmarshal(raw, &c); err != nil {
		return "bad case: " + err.Error()
	}
	k, m := judgeC15(c)
	if k == "" {
		return ""
	}
	return k + ": " + m
}

// judgeC15 is judgeC15Raw with a panic of the code under test turned into a verdict (never a crash of the check).
func judgeC15(c c15Case) (k, m string) {
	defer func() {
		if r := recover(); r != nil {
			k, m = "panic", fmt.Sprintf("the code under test panicked: %v", r)
		}
	}()
	return judgeC15Raw(c)
}
