package checks

import (
	"fmt"
	"os"
)

// Children are entry points re-executed in a separate process (chroot, setuid).
var Children = map[string]func(args []string) int{}

func Child(name string, args []string) int {
	f := Children[name]
	if f == nil {
		fmt.Fprintln(os.Stderr, "unknown child", name)
		return 3
	}
	return f(args)
}
