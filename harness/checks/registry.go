// Package checks holds one file per property; each registers its check and, where
// possible, a replay function for its counter-example files.
package checks

import (
	"encoding/json"
	"errors"
	"fmt"
	"sync/atomic"
	"time"

	"verif/evid"
)

type Check struct {
	Run    func(r *evid.Run)
	Replay func(c json.RawMessage) string
}

var Registry = map[string]*Check{}

func register(id string, run func(r *evid.Run), replay func(c json.RawMessage) string) {
	Registry[id] = &Check{Run: run, Replay: replay}
}

// errCopyHangs: a Copy that did not return (for instance because it opened a fifo as if it were a file).
var copyHangs atomic.Int64

var errCopyHangs = errors.New("verif: Copy did not return within 60s")

// boundedCopy runs one Copy call; a call that does not come back is reported instead of hanging the check (its
// goroutine is left behind, blocked).
func boundedCopy(f func() error) error {
	done := make(chan error, 1)
	go func() {
		// a panic inside the code under test is a verdict (the call fails), never a crash of the check
		defer func() {
			if r := recover(); r != nil {
				done <- fmt.Errorf("verif: Copy panicked: %v", r)
			}
		}()
		done <- f()
	}()
	limit := 60 * time.Second
	if copyHangs.Load() > 0 {
		limit = 3 * time.Second // the verdict is already a violation; do not spend a minute on every further case
	}
	select {
	case err := <-done:
		return err
	case <-time.After(limit):
		copyHangs.Add(1)
		return errCopyHangs
	}
}
