// Package checks holds one file per property; each registers its check and, where
// possible, a replay function for its counter-example files.
package checks

import (
	"encoding/json"

	"verif/evid"
)

type Check struct {
	Run    func(r *evid.Run)
	Replay func(c json.RawMessage) string
}

var Registry = map[string]*Check{}

func register(id string, run func(r *evid.Run), replay func(c json.RawMessage) string) {
	Registry[id] = &Check{Run: run, Replay: replay}
}
