package checks

import (
	"bytes"
	"context"
	"encoding/json"
	"fmt"
	"io"
	"math"
	"runtime"
	"runtime/debug"
	"sort"
	"strings"
	"sync/atomic"
	"time"

	"github.com/tonistiigi/fsutil/types"
	"github.com/tonistiigi/fsutil/util"
	"google.golang.org/protobuf/proto"
	"verif/evid"
	"verif/par"
)

func init() { register("C20", runC20, replayC20) }

type c20Case struct {
	Kind  string   `json:"kind"` // roundtrip-stat, roundtrip-packet, decode, framing
	Bytes []byte   `json:"bytes,omitempty"`
	Stat  []byte   `json:"stat,omitempty"` // VT encoding of the stat value
	Pkts  [][]byte `json:"pkts,omitempty"` // VT encodings of the packets of a framing case
	Cuts  []int    `json:"cuts,omitempty"` // read sizes handed out by the reader
}

func statValues() []*types.Stat {
	paths := []string{"", "a", "a/b", string([]byte{0xff, 0xfe, 'x'}), "é"}
	modes := []uint32{0, 0644, math.MaxUint32, 1 << 31}
	ids := []uint32{0, 1, math.MaxUint32}
	sizes := []int64{0, 1, math.MaxInt64, -1, math.MinInt64}
	links := []string{"", "t", string([]byte{0x80})}
	xs := []map[string][]byte{nil, {}, {"user.a": []byte("1"), "user.b": {}}, {"": nil}}
	var out []*types.Stat
	for _, p := range paths {
		for _, m := range modes {
			for _, id := range ids {
				for _, sz := range sizes {
					for _, l := range links {
						for xi, x := range xs {
							out = append(out, &types.Stat{Path: p, Mode: m, Uid: id, Gid: id ^ 1, Size: sz, ModTime: sz / 3, Linkname: l,
								Devmajor: int64(xi) - 1, Devminor: sz, Xattrs: x})
						}
					}
				}
			}
		}
	}
	return out
}

func packetValues() []*types.Packet {
	var out []*types.Packet
	datas := [][]byte{nil, {}, {7}, bytes.Repeat([]byte{0xab}, 40000)}
	stats := []*types.Stat{nil, {}, {Path: "a/b", Mode: 0644, Size: 5, Xattrs: map[string][]byte{"k": []byte("v")}},
		{Path: "x", Xattrs: map[string][]byte{"user.empty": {}, "user.nil": nil, "": []byte("v")}}}
	for t := types.Packet_PacketType(0); t <= 5; t++ {
		for _, id := range []uint32{0, 1, math.MaxUint32} {
			for _, d := range datas {
				for _, s := range stats {
					out = append(out, &types.Packet{Type: t, ID: id, Data: d, Stat: s})
				}
			}
		}
	}
	return out
}

// safeEnc encodes a value for a replay file without trusting any single encoder.
func safeEnc(vt func() ([]byte, error), m proto.Message) (b []byte) {
	defer func() {
		if recover() != nil || b == nil {
			b, _ = proto.Marshal(m)
		}
	}()
	b, _ = vt()
	return b
}

// encoders of a stat: every exported way to get bytes out of the hand-optimised codec.
func statEncoders(s *types.Stat) map[string]func() ([]byte, error) {
	to := func(f func([]byte) (int, error)) func() ([]byte, error) {
		return func() ([]byte, error) {
			buf := make([]byte, s.SizeVT())
			n, err := f(buf)
			if err != nil {
				return nil, err
			}
			return buf[:n], nil
		}
	}
	big := func(f func([]byte) (int, error)) func() ([]byte, error) {
		return func() ([]byte, error) {
			buf := bytes.Repeat([]byte{0xee}, s.SizeVT()+37)
			n, err := f(buf)
			if err != nil {
				return nil, err
			}
			return buf[:n], nil
		}
	}
	return map[string]func() ([]byte, error){"MarshalVT": s.MarshalVT, "MarshalVTStrict": s.MarshalVTStrict, "Marshal": s.Marshal,
		"MarshalToVT": to(s.MarshalToVT), "MarshalToVTStrict": to(s.MarshalToVTStrict),
		"MarshalToVT(larger buffer)": big(s.MarshalToVT), "MarshalToVTStrict(larger buffer)": big(s.MarshalToVTStrict)}
}

func packetEncoders(p *types.Packet) map[string]func() ([]byte, error) {
	to := func(f func([]byte) (int, error)) func() ([]byte, error) {
		return func() ([]byte, error) {
			buf := make([]byte, p.Size())
			n, err := f(buf)
			if err != nil {
				return nil, err
			}
			return buf[:n], nil
		}
	}
	// the same entry points handed a scratch buffer larger than the encoding (a pooled or re-used buffer): the first n
	// bytes are the encoding
	big := func(f func([]byte) (int, error)) func() ([]byte, error) {
		return func() ([]byte, error) {
			buf := bytes.Repeat([]byte{0xee}, p.Size()+37)
			n, err := f(buf)
			if err != nil {
				return nil, err
			}
			return buf[:n], nil
		}
	}
	return map[string]func() ([]byte, error){"MarshalVT": p.MarshalVT, "MarshalVTStrict": p.MarshalVTStrict, "Marshal": p.Marshal,
		"MarshalTo": to(p.MarshalTo), "MarshalToVT": to(p.MarshalToVT), "MarshalToVTStrict": to(p.MarshalToVTStrict),
		"MarshalTo(larger buffer)": big(p.MarshalTo), "MarshalToVT(larger buffer)": big(p.MarshalToVT), "MarshalToVTStrict(larger buffer)": big(p.MarshalToVTStrict)}
}

// encodeAll runs every encoder; all must succeed without panicking, produce SizeVT bytes, and decode to want.
func encodeAll(encs map[string]func() ([]byte, error), size int, check func(b []byte) string) (msg string) {
	names := make([]string, 0, len(encs))
	for n := range encs {
		names = append(names, n)
	}
	sort.Strings(names)
	for _, name := range names {
		func() {
			defer func() {
				if r := recover(); r != nil && msg == "" {
					msg = fmt.Sprintf("%s panics: %v", name, r)
				}
			}()
			b, err := encs[name]()
			switch {
			case msg != "":
			case err != nil:
				msg = name + ": " + err.Error()
			case len(b) != size:
				msg = fmt.Sprintf("%s: Size=%d but encoding has %d bytes", name, size, len(b))
			default:
				if m := check(b); m != "" {
					msg = name + ": " + m
				}
			}
		}()
	}
	return msg
}

func roundTripStat(s *types.Stat) (msg string) {
	defer func() {
		if r := recover(); r != nil {
			msg = fmt.Sprintf("panic: %v", r)
		}
	}()
	if m := encodeAll(statEncoders(s), s.SizeVT(), func(b []byte) string {
		var v types.Stat
		if err := v.UnmarshalVT(b); err != nil {
			return "UnmarshalVT of the encoding: " + err.Error()
		}
		if !statEqNoX(&v, s) || !xEq(v.Xattrs, s.Xattrs) {
			return fmt.Sprintf("decodes to %v, encoded %v", &v, s)
		}
		return ""
	}); m != "" {
		return m
	}
	b, err := s.MarshalVT()
	if err != nil {
		return "MarshalVT: " + err.Error()
	}
	if len(b) != s.SizeVT() {
		return fmt.Sprintf("SizeVT=%d but encoding has %d bytes", s.SizeVT(), len(b))
	}
	var v types.Stat
	if err := v.UnmarshalVT(b); err != nil {
		return "UnmarshalVT of own encoding: " + err.Error()
	}
	if !v.EqualVT(s) && !(len(s.Xattrs) == 0 && len(v.Xattrs) == 0 && statEqNoX(&v, s)) {
		return fmt.Sprintf("VT round trip differs: %v vs %v", &v, s)
	}
	// generic runtime decodes the VT encoding
	var g types.Stat
	if err := proto.Unmarshal(b, &g); err != nil {
		return "proto.Unmarshal of VT encoding: " + err.Error()
	}
	if !statEqNoX(&g, s) || !xEq(g.Xattrs, s.Xattrs) {
		return fmt.Sprintf("generic decode of VT encoding differs: %v vs %v", &g, s)
	}
	// VT decodes the generic encoding
	gb, err := proto.Marshal(s)
	if err != nil {
		return "proto.Marshal: " + err.Error()
	}
	var w types.Stat
	if err := w.UnmarshalVT(gb); err != nil {
		return "UnmarshalVT of generic encoding: " + err.Error()
	}
	if !statEqNoX(&w, s) || !xEq(w.Xattrs, s.Xattrs) {
		return fmt.Sprintf("VT decode of generic encoding differs: %v vs %v", &w, s)
	}
	if c := s.CloneVT(); !c.EqualVT(s) {
		return "CloneVT is not EqualVT"
	}
	return ""
}

func statEqNoX(a, b *types.Stat) bool {
	return a.Path == b.Path && a.Mode == b.Mode && a.Uid == b.Uid && a.Gid == b.Gid && a.Size == b.Size && a.ModTime == b.ModTime &&
		a.Linkname == b.Linkname && a.Devmajor == b.Devmajor && a.Devminor == b.Devminor
}

func xEq(a, b map[string][]byte) bool {
	if len(a) != len(b) {
		return false
	}
	for k, v := range a {
		w, ok := b[k]
		if !ok || !bytes.Equal(v, w) {
			return false
		}
	}
	return true
}

func pktEq(a, b *types.Packet) bool {
	if a.Type != b.Type || a.ID != b.ID || !bytes.Equal(a.Data, b.Data) {
		return false
	}
	if (a.Stat == nil) != (b.Stat == nil) {
		return false
	}
	return a.Stat == nil || (statEqNoX(a.Stat, b.Stat) && xEq(a.Stat.Xattrs, b.Stat.Xattrs))
}

func roundTripPacket(p *types.Packet) (msg string) {
	defer func() {
		if r := recover(); r != nil {
			msg = fmt.Sprintf("panic: %v", r)
		}
	}()
	if m := encodeAll(packetEncoders(p), p.Size(), func(b []byte) string {
		var v types.Packet
		if err := v.UnmarshalVT(b); err != nil {
			return "UnmarshalVT of the encoding: " + err.Error()
		}
		if !pktEq(&v, p) {
			return "decodes to a different packet"
		}
		return ""
	}); m != "" {
		return m
	}
	b, err := p.Marshal()
	if err != nil {
		return "Marshal: " + err.Error()
	}
	if len(b) != p.Size() {
		return fmt.Sprintf("Size=%d but encoding has %d bytes", p.Size(), len(b))
	}
	var v types.Packet
	if err := v.Unmarshal(b); err != nil {
		return "Unmarshal of own encoding: " + err.Error()
	}
	if !pktEq(&v, p) {
		return "VT round trip differs"
	}
	var g types.Packet
	if err := proto.Unmarshal(b, &g); err != nil {
		return "proto.Unmarshal of VT encoding: " + err.Error()
	}
	if !pktEq(&g, p) {
		return "generic decode of VT encoding differs"
	}
	gb, err := proto.Marshal(p)
	if err != nil {
		return "proto.Marshal: " + err.Error()
	}
	var w types.Packet
	if err := w.UnmarshalVT(gb); err != nil {
		return "UnmarshalVT of generic encoding: " + err.Error()
	}
	if !pktEq(&w, p) {
		return "VT decode of generic encoding differs"
	}
	// reuse of a packet across ResetVT (as the receive loop does) must not leak old fields
	w.ResetVT()
	if err := w.UnmarshalVT(b); err != nil || !pktEq(&w, p) {
		return "decode into a reset packet differs"
	}
	// aliasing: scribbling over the input must not change the decoded value
	cp := append([]byte{}, b...)
	var a types.Packet
	if err := a.Unmarshal(cp); err != nil {
		return err.Error()
	}
	for i := range cp {
		cp[i] ^= 0xff
	}
	if !pktEq(&a, p) {
		return "decoded packet aliases the input buffer"
	}
	return ""
}

// decodeArbitrary feeds bytes to both decoders; it reports a panic or an
// over-sized result.
func decodeArbitrary(b []byte) (msg string) {
	defer func() {
		if r := recover(); r != nil {
			msg = fmt.Sprintf("panic: %v", r)
		}
	}()
	var p types.Packet
	if err := p.Unmarshal(b); err == nil {
		n := len(p.Data)
		if p.Stat != nil {
			n += len(p.Stat.Path) + len(p.Stat.Linkname)
			for k, v := range p.Stat.Xattrs {
				n += len(k) + len(v)
			}
		}
		if n > len(b) {
			return fmt.Sprintf("decoded %d payload bytes from %d input bytes", n, len(b))
		}
		// whatever decodes must re-encode and decode to the same value
		if e, err := p.Marshal(); err == nil {
			var q types.Packet
			if err := q.Unmarshal(e); err != nil || !pktEq(&q, &p) {
				return "accepted input does not survive a re-encode round trip"
			}
		}
	}
	var s types.Stat
	if err := s.Unmarshal(b); err == nil {
		n := len(s.Path) + len(s.Linkname)
		for k, v := range s.Xattrs {
			n += len(k) + len(v)
		}
		if n > len(b) {
			return fmt.Sprintf("decoded %d string bytes from %d input bytes", n, len(b))
		}
	}
	return ""
}

// cutReader hands out the stream in the given read sizes (then whole).
type cutReader struct {
	data    []byte
	cuts    []int
	i       int
	eofWith bool // deliver io.EOF together with the last fragment (allowed by io.Reader)
}

func (r *cutReader) Read(p []byte) (int, error) {
	if len(r.data) == 0 {
		return 0, io.EOF
	}
	n := len(p)
	if r.i < len(r.cuts) {
		if r.cuts[r.i] < n {
			n = r.cuts[r.i]
		}
		r.i++
	}
	if n > len(r.data) {
		n = len(r.data)
	}
	if n == 0 {
		n = 1
	}
	copy(p, r.data[:n])
	r.data = r.data[n:]
	if r.eofWith && len(r.data) == 0 {
		return n, io.EOF
	}
	return n, nil
}

// framing writes the packets through a protoStream and reads them back through a
// reader that fragments the byte stream as told.
func framing(pkts []*types.Packet, cuts []int) string {
	if m := framing1(pkts, cuts, false); m != "" {
		return m
	}
	if m := framing1(pkts, cuts, true); m != "" {
		return "reader returning the last fragment together with EOF: " + m
	}
	return ""
}

func framing1(pkts []*types.Packet, cuts []int, eofWith bool) (msg string) {
	defer func() {
		if r := recover(); r != nil {
			msg = fmt.Sprintf("panic: %v", r)
		}
	}()
	var buf bytes.Buffer
	w := util.NewProtoStream(context.Background(), nil, &buf)
	for i, p := range pkts {
		if err := w.SendMsg(p); err != nil {
			return fmt.Sprintf("SendMsg #%d: %v", i, err)
		}
	}
	rd := util.NewProtoStream(context.Background(), &cutReader{data: buf.Bytes(), cuts: cuts, eofWith: eofWith}, nil)
	got := make([]*types.Packet, len(pkts))
	for i := range pkts {
		got[i] = &types.Packet{}
		if err := rd.RecvMsg(got[i]); err != nil {
			return fmt.Sprintf("RecvMsg #%d: %v", i, err)
		}
	}
	var extra types.Packet
	if err := rd.RecvMsg(&extra); err != io.EOF {
		return fmt.Sprintf("after the last packet RecvMsg returned %v, want EOF", err)
	}
	// compared only now: a packet that aliased the pooled read buffer has been overwritten by later reads
	for i := range pkts {
		if !pktEq(got[i], pkts[i]) {
			return fmt.Sprintf("packet #%d read back differs (type %v id %d len %d vs type %v id %d len %d)", i, got[i].Type, got[i].ID, len(got[i].Data), pkts[i].Type, pkts[i].ID, len(pkts[i].Data))
		}
	}
	return ""
}

// duplexReader hands out the stream up to a cut, then lets a send happen on the same stream object while the
// receive is still waiting for the rest of the packet, then hands out the rest.
type duplexReader struct {
	data   []byte
	cut    int
	off    int
	during func()
	fired  bool
}

func (r *duplexReader) Read(p []byte) (int, error) {
	if r.off >= r.cut && !r.fired {
		r.fired = true
		r.during()
	}
	if r.off >= len(r.data) {
		return 0, io.EOF
	}
	end := len(r.data)
	if r.off < r.cut {
		end = r.cut
	}
	n := copy(p, r.data[r.off:end])
	r.off += n
	return n, nil
}

// duplex: a proto stream is used in both directions at once (one goroutine receives while others send). The
// incoming packets are cut at byte offset cut; at that moment out is sent on the same stream.
func duplex(in []*types.Packet, cut int, out *types.Packet) (msg string) {
	defer func() {
		if r := recover(); r != nil {
			msg = fmt.Sprintf("panic: %v", r)
		}
	}()
	var wire bytes.Buffer
	enc := util.NewProtoStream(context.Background(), nil, &wire)
	for _, p := range in {
		if err := enc.SendMsg(p); err != nil {
			return "SendMsg: " + err.Error()
		}
	}
	var sent bytes.Buffer
	rd := &duplexReader{data: wire.Bytes(), cut: cut}
	st := util.NewProtoStream(context.Background(), rd, &sent)
	var sendErr error
	sendStuck := false
	rd.during = func() {
		done := make(chan struct{})
		go func() { sendErr = st.SendMsg(out); close(done) }()
		select {
		case <-done:
		case <-time.After(20 * time.Second):
			sendStuck = true
		}
	}
	got := make([]*types.Packet, len(in))
	for i := range in {
		got[i] = &types.Packet{}
		if err := st.RecvMsg(got[i]); err != nil {
			return fmt.Sprintf("RecvMsg #%d while a send ran on the same stream: %v", i, err)
		}
	}
	if !rd.fired {
		return "" // the cut lies behind the last byte: nothing was interleaved
	}
	if sendStuck {
		return "SendMsg blocks while a RecvMsg on the same stream waits for data"
	}
	if sendErr != nil {
		return "SendMsg during a receive: " + sendErr.Error()
	}
	for i := range in {
		if !pktEq(got[i], in[i]) {
			return fmt.Sprintf("packet #%d received while a send ran on the same stream differs (type %v id %d len %d vs type %v id %d len %d)", i, got[i].Type, got[i].ID, len(got[i].Data), in[i].Type, in[i].ID, len(in[i].Data))
		}
	}
	back := util.NewProtoStream(context.Background(), &sent, nil)
	var o types.Packet
	if err := back.RecvMsg(&o); err != nil || !pktEq(&o, out) {
		return fmt.Sprintf("the packet sent while a receive was in progress does not read back (%v)", err)
	}
	return ""
}

// poolHistory: a stream that dies in the middle of a packet body, then two healthy streams whose receives overlap
// (A has read part of its body when B receives a whole packet, then A gets the rest). Whatever the first stream left
// in process-wide state, A and B must read back their own packets.
func poolHistory(failCut, aCut int) (msg string) {
	defer func() {
		if r := recover(); r != nil {
			msg = fmt.Sprintf("panic: %v", r)
		}
	}()
	frame := func(p *types.Packet) []byte {
		var w bytes.Buffer
		if err := util.NewProtoStream(context.Background(), nil, &w).SendMsg(p); err != nil {
			panic(err)
		}
		return w.Bytes()
	}
	pa := &types.Packet{Type: types.PACKET_DATA, ID: 1, Data: bytes.Repeat([]byte{0x11}, 1000)}
	pb := &types.Packet{Type: types.PACKET_DATA, ID: 2, Data: bytes.Repeat([]byte{0x22}, 900)}
	wa, wb := frame(pa), frame(pb)
	if failCut > len(wa) {
		failCut = len(wa)
	}
	var dead types.Packet
	util.NewProtoStream(context.Background(), bytes.NewReader(wa[:failCut]), nil).RecvMsg(&dead) // fails; that is the point
	var gotB types.Packet
	var errB error
	rd := &duplexReader{data: wa, cut: aCut}
	rd.during = func() {
		errB = util.NewProtoStream(context.Background(), bytes.NewReader(wb), nil).RecvMsg(&gotB)
	}
	var gotA types.Packet
	if err := util.NewProtoStream(context.Background(), rd, nil).RecvMsg(&gotA); err != nil {
		return "RecvMsg of stream A: " + err.Error()
	}
	if !rd.fired {
		return ""
	}
	if errB != nil {
		return "RecvMsg of stream B: " + errB.Error()
	}
	if !pktEq(&gotA, pa) {
		return fmt.Sprintf("stream A read back id %d with %d bytes, %d of them not its own", gotA.ID, len(gotA.Data), len(gotA.Data)-bytes.Count(gotA.Data, []byte{0x11}))
	}
	if !pktEq(&gotB, pb) {
		return fmt.Sprintf("stream B read back id %d with %d bytes, not its own packet", gotB.ID, len(gotB.Data))
	}
	return ""
}

// truncation: the framed stream ends after cut bytes. The packets that fit are read back; then the stream reports
// its end: io.EOF exactly at a frame boundary, some error - never a packet - inside a frame.
func truncation(pkts []*types.Packet, wire []byte, ends []int, cut int, fresh bool) (msg string) {
	defer func() {
		if r := recover(); r != nil {
			msg = fmt.Sprintf("panic: %v", r)
		}
	}()
	if fresh {
		// two collections empty every sync.Pool: the stream starts with the pool's default buffer, not with a larger
		// one an earlier stream left there
		runtime.GC()
		runtime.GC()
	}
	rd := util.NewProtoStream(context.Background(), bytes.NewReader(wire[:cut]), nil)
	for i := range pkts {
		var got types.Packet
		err := rd.RecvMsg(&got)
		start := 0
		if i > 0 {
			start = ends[i-1]
		}
		switch {
		case ends[i] <= cut:
			if err != nil || !pktEq(&got, pkts[i]) {
				return fmt.Sprintf("packet #%d lies completely before the cut but reads back as %v", i, err)
			}
		case cut == start:
			if err != io.EOF {
				return fmt.Sprintf("the stream ends exactly before packet #%d: RecvMsg returned %v, want io.EOF", i, err)
			}
			return ""
		default:
			if err == nil {
				return fmt.Sprintf("the stream ends %d bytes into packet #%d (of %d bytes), yet RecvMsg returned a packet (type %v id %d, %d data bytes)", cut-start, i, ends[i]-start, got.Type, got.ID, len(got.Data))
			}
			// (which error is not fixed: a cut right after a length prefix reads as io.EOF today)
			return ""
		}
	}
	return ""
}

// tempErr is a transient transport error (EAGAIN, a deadline): Temporary and Timeout report true.
type tempErr struct{}

func (tempErr) Error() string   { return "resource temporarily unavailable" }
func (tempErr) Temporary() bool { return true }
func (tempErr) Timeout() bool   { return true }

// hiccupReader delivers data[:at], then answers one Read with a transient error and no bytes, then delivers the rest.
type hiccupReader struct {
	data []byte
	at   int
	pos  int
	done bool
}

func (r *hiccupReader) Read(p []byte) (int, error) {
	if r.pos == r.at && !r.done {
		r.done = true
		return 0, tempErr{}
	}
	if r.pos >= len(r.data) {
		return 0, io.EOF
	}
	end := len(r.data)
	if r.pos < r.at && !r.done {
		end = r.at
	}
	n := copy(p, r.data[r.pos:end])
	r.pos += n
	return n, nil
}

// transient: one read of the underlying reader fails with a transient error after `at` bytes of the stream were
// delivered. Whether RecvMsg reports that error or rides it out is not fixed; but every packet it returns up to its
// first error is the next packet that was sent - never bytes from a lost frame boundary.
func transient(pkts []*types.Packet, wire []byte, at int) (msg string) {
	defer func() {
		if r := recover(); r != nil {
			msg = fmt.Sprintf("panic: %v", r)
		}
	}()
	rd := util.NewProtoStream(context.Background(), &hiccupReader{data: wire, at: at}, nil)
	for i := range pkts {
		var got types.Packet
		if err := rd.RecvMsg(&got); err != nil {
			return ""
		}
		if !pktEq(&got, pkts[i]) {
			return fmt.Sprintf("RecvMsg #%d returned a packet that was never sent (type %v id %d, %d data bytes; sent: type %v id %d, %d data bytes)", i, got.Type, got.ID, len(got.Data), pkts[i].Type, pkts[i].ID, len(pkts[i].Data))
		}
	}
	return ""
}

// reuse: a stream whose frames carry fields this build does not know (a newer peer) is read into ONE packet object
// that is reset before every call, the way the receive loop reads: packet k equals a fresh decode of frame k - nothing
// of an earlier frame stays behind, whether in a known field or among the unknown ones.
func reuse(frames [][]byte) (msg string) {
	defer func() {
		if r := recover(); r != nil {
			msg = fmt.Sprintf("panic: %v", r)
		}
	}()
	var wire bytes.Buffer
	for _, f := range frames {
		wire.Write([]byte{byte(len(f) >> 24), byte(len(f) >> 16), byte(len(f) >> 8), byte(len(f))})
		wire.Write(f)
	}
	rd := util.NewProtoStream(context.Background(), bytes.NewReader(wire.Bytes()), nil)
	var p types.Packet
	for i, f := range frames {
		p.ResetVT()
		if err := rd.RecvMsg(&p); err != nil {
			return fmt.Sprintf("RecvMsg #%d: %v", i, err)
		}
		var fresh types.Packet
		if err := fresh.UnmarshalVT(f); err != nil {
			return fmt.Sprintf("frame #%d does not decode: %v", i, err)
		}
		got, _ := p.MarshalVT()
		want, _ := fresh.MarshalVT()
		if !p.EqualVT(&fresh) || !bytes.Equal(got, want) || p.SizeVT() != fresh.SizeVT() {
			return fmt.Sprintf("packet #%d read into a re-used, reset packet re-encodes to %x; the same frame decoded into a fresh packet to %x", i, got, want)
		}
	}
	return ""
}

// handover: the first k packets are read through one stream object, the rest through a second stream created on the
// SAME underlying reader (a second transfer on one connection, another protocol continuing after FIN): a stream takes
// from the reader what it returns and nothing more.
func handover(pkts []*types.Packet, wire []byte, k int, chunk int) (msg string) {
	defer func() {
		if r := recover(); r != nil {
			msg = fmt.Sprintf("panic: %v", r)
		}
	}()
	var rd io.Reader = bytes.NewReader(wire)
	if chunk > 0 {
		rd = &chunkReader{data: wire, n: chunk}
	}
	first := util.NewProtoStream(context.Background(), rd, nil)
	for i := 0; i < k; i++ {
		var got types.Packet
		if err := first.RecvMsg(&got); err != nil || !pktEq(&got, pkts[i]) {
			return fmt.Sprintf("first stream, packet #%d: %v", i, err)
		}
	}
	second := util.NewProtoStream(context.Background(), rd, nil)
	for i := k; i < len(pkts); i++ {
		var got types.Packet
		if err := second.RecvMsg(&got); err != nil {
			return fmt.Sprintf("a second stream on the same reader, after the first one returned %d packets: packet #%d: %v", k, i, err)
		}
		if !pktEq(&got, pkts[i]) {
			return fmt.Sprintf("a second stream on the same reader reads packet #%d as something else", i)
		}
	}
	return ""
}

// chunkReader hands out at most n bytes per call.
type chunkReader struct {
	data []byte
	n    int
}

func (r *chunkReader) Read(p []byte) (int, error) {
	if len(r.data) == 0 {
		return 0, io.EOF
	}
	if len(p) > r.n {
		p = p[:r.n]
	}
	k := copy(p, r.data)
	r.data = r.data[k:]
	return k, nil
}

// resend: one packet object is sent, changed and sent again (and again); what is read back is each value as it was sent.
func resend(sizes []int) (msg string) {
	defer func() {
		if r := recover(); r != nil {
			msg = fmt.Sprintf("panic: %v", r)
		}
	}()
	var wire bytes.Buffer
	w := util.NewProtoStream(context.Background(), nil, &wire)
	p := &types.Packet{Type: types.PACKET_DATA, ID: 5}
	var want []*types.Packet
	for i, n := range sizes {
		p.Data = bytes.Repeat([]byte{byte(i + 1)}, n)
		p.ID = uint32(5 + i)
		if i%2 == 1 {
			p.Stat = &types.Stat{Path: strings.Repeat("p", n%50)}
		} else {
			p.Stat = nil
		}
		want = append(want, p.CloneVT())
		if err := w.SendMsg(p); err != nil {
			return fmt.Sprintf("SendMsg #%d of a re-used packet object: %v", i, err)
		}
	}
	rd := util.NewProtoStream(context.Background(), &wire, nil)
	for i := range want {
		var got types.Packet
		if err := rd.RecvMsg(&got); err != nil {
			return fmt.Sprintf("RecvMsg #%d after re-using one packet object for sending: %v", i, err)
		}
		if !pktEq(&got, want[i]) {
			return fmt.Sprintf("packet #%d sent from a re-used packet object reads back differently", i)
		}
	}
	return ""
}

func compositionsUpTo(n int, f func(c []int)) {
	var rec func(rest int, cur []int)
	rec = func(rest int, cur []int) {
		if rest == 0 {
			f(cur)
			return
		}
		for k := 1; k <= rest; k++ {
			rec(rest-k, append(cur, k))
		}
	}
	rec(n, nil)
}

func runC20(r *evid.Run) {
	r.Technique = "exhaustive enumeration: full product of Stat/Packet field values through 4 codec paths; every byte string up to a length bound (and over a structural byte alphabet) into both decoders; every single-byte edit of valid encodings; every fragmentation of short framed streams and every <=3 short reads at structural offsets of long ones"
	r.Rule = "one evaluation = one value round trip / one decoded byte string / one framed stream under one fragmentation; non-trivial = distinct inputs; states counted as distinct inputs"
	r.Assume = []string{"google.golang.org/protobuf is the reference generic runtime", "over-allocation is judged by decoded payload size <= input size"}
	var n atomic.Int64
	quick := r.Tier == "quick"
	// The proto stream keeps receive buffers in a process-wide pool, so what a stream does can depend on what other
	// streams did before: the truncation and re-send cases run first (fresh pool) and again at the end.
	small := []*types.Packet{{}, {Type: types.PACKET_REQ, ID: 1}, {Type: types.PACKET_FIN}}
	big := []*types.Packet{{Type: types.PACKET_DATA, ID: 1, Data: bytes.Repeat([]byte{1}, 32768-8)}, {}, {Type: types.PACKET_DATA, ID: 2, Data: bytes.Repeat([]byte{2}, 32768)},
		{Type: types.PACKET_DATA, ID: 3, Data: bytes.Repeat([]byte{3}, 32769)}, {Type: types.PACKET_STAT, Stat: &types.Stat{Path: "p", Xattrs: map[string][]byte{"k": bytes.Repeat([]byte{4}, 70000)}}}, {Type: types.PACKET_FIN}}
	truncAndResend := func(when string) {
		// streams that end early: every cut position of the short stream, and of the long one every position within
		// 16 bytes of a frame boundary plus a stride through the bodies; and one packet object re-used for sending
		{
			frameAll := func(ps []*types.Packet) ([]byte, []int) {
				var w bytes.Buffer
				st := util.NewProtoStream(context.Background(), nil, &w)
				var ends []int
				for _, p := range ps {
					if err := st.SendMsg(p); err != nil {
						panic(err)
					}
					ends = append(ends, w.Len())
				}
				return w.Bytes(), ends
			}
			// (a SendMsg that fails or panics on these packets is a verdict, not a crash of the check)
			safeFrameAll := func(ps []*types.Packet) (wire []byte, ends []int, msg string) {
				defer func() {
					if r := recover(); r != nil {
						msg = fmt.Sprintf("panic: %v", r)
					}
				}()
				wire, ends = frameAll(ps)
				return
			}
			cnt := int64(0)
			// payloads that are themselves the beginning of a packet whose data field runs d bytes past the
			// payload: read from the wrong offset, such a frame decodes - into a packet nobody sent
			var nested []*types.Packet
			for i, d := range []int{6, 2, 4, 8, 5, 7} {
				n := 20 + i
				pl := append([]byte{0x18, 0x09, 0x22, byte(n - 4 + d)}, bytes.Repeat([]byte{byte('a' + i)}, n-4)...)
				nested = append(nested, &types.Packet{Type: types.PACKET_DATA, ID: 7, Data: pl}, &types.Packet{Type: types.PACKET_DATA, ID: uint32(i), Data: []byte("x")})
			}
			nested = append(nested, &types.Packet{Type: types.PACKET_FIN})
			for _, ps := range [][]*types.Packet{small, big, nested} {
				wire, ends, fmsg := safeFrameAll(ps)
				if fmsg != "" {
					r.Violate("framing:"+firstWord(fmsg), fmt.Sprintf("writing %d packets through a protoStream: %s", len(ps), fmsg), c20Case{Kind: "framing", Pkts: encAll(ps)})
					continue
				}
				cuts := map[int]bool{}
				for c := 0; c <= len(wire); c++ {
					near := len(wire) < 200
					for _, e := range append([]int{0}, ends...) {
						if c >= e-16 && c <= e+16 {
							near = true
						}
					}
					if near || c%1999 == 0 {
						cuts[c] = true
					}
				}
				for k := 0; k <= len(ps); k++ {
					for _, chunk := range []int{0, 1, 7, 4096, 1 << 20} {
						if m := handover(ps, wire, k, chunk); m != "" {
							r.Violate("handover:"+firstWord(m), fmt.Sprintf("stream of %d packets, reader delivering %d bytes per call: %s", len(ps), chunk, m), c20Case{Kind: "handover", Pkts: encAll(ps), Cuts: []int{k, chunk}})
						}
						cnt++
					}
				}
				for c := range cuts {
					if m := truncation(ps, wire, ends, c, when == "first"); m != "" {
						r.Violate("truncated:"+firstWord(m), fmt.Sprintf("(%s in the process) stream of %d bytes cut after %d: %s", when, len(wire), c, m), c20Case{Kind: "truncated", Pkts: encAll(ps), Cuts: []int{c}})
					}
					cnt++
					if c < len(wire) {
						if m := transient(ps, wire, c); m != "" {
							r.Violate("transient-error:"+firstWord(m), fmt.Sprintf("stream of %d bytes, one read fails with a transient error after %d bytes: %s", len(wire), c, m), c20Case{Kind: "transient", Pkts: encAll(ps), Cuts: []int{c}})
						}
						cnt++
					}
				}
			}
			// frames with unknown fields (varint field 6, bytes field 9, both) between ordinary ones, incl. empty frames
			{
				u1, u2 := []byte{0x30, 0x07}, []byte{0x4a, 0x03, 'n', 'e', 'w'}
				enc := func(p *types.Packet, extra ...[]byte) []byte {
					b, _ := p.MarshalVT()
					for _, e := range extra {
						b = append(b, e...)
					}
					return b
				}
				a, b, e := &types.Packet{Type: types.PACKET_DATA, ID: 3, Data: []byte("abc")}, &types.Packet{Type: types.PACKET_REQ, ID: 4}, &types.Packet{}
				sets := [][][]byte{{enc(a, u1), enc(b), enc(e), enc(a)}, {enc(e, u1), enc(e), enc(e, u2), enc(e)}, {enc(a, u1, u2), enc(b, u2), enc(a), enc(e)}, {enc(b), enc(a, u2), enc(b, u1), enc(e, u1, u1), enc(e)}}
				for si, fs := range sets {
					if m := reuse(fs); m != "" {
						r.Violate("reuse:"+firstWord(m), fmt.Sprintf("frame set %d: %s", si, m), c20Case{Kind: "reuse", Pkts: fs})
					}
					cnt++
				}
			}
			for _, sz := range [][]int{{100, 10, 300}, {10, 100}, {40000, 5, 40000}, {0, 1, 0}, {33000, 32000}} {
				if m := resend(sz); m != "" {
					r.Violate("resend:"+firstWord(m), fmt.Sprintf("data sizes %v: %s", sz, m), c20Case{Kind: "resend", Cuts: sz})
				}
				cnt++
			}
			n.Add(cnt)
			r.Add("truncation_and_resend_cases_"+when, cnt)
		}
	}
	truncAndResend("first")

	// (a) round trips
	stats := statValues()
	par.Do(len(stats), par.Workers(), func(i int) {
		if m := roundTripStat(stats[i]); m != "" {
			b := safeEnc(stats[i].MarshalVT, stats[i])
			key := "roundtrip-stat"
			if strings.Contains(m, "invalid UTF-8") && strings.HasPrefix(m, "proto.") { // (only when it is the generic runtime that refuses: a hand-optimised entry point that refuses is a violation)
				key = "roundtrip:non-utf8-string-rejected-by-generic-runtime"
			}
			r.Violate(key, m, c20Case{Kind: "roundtrip-stat", Stat: b})
		}
		n.Add(1)
	})
	r.Add("stat_values", int64(len(stats)))
	pkts := packetValues()
	par.Do(len(pkts), par.Workers(), func(i int) {
		if m := roundTripPacket(pkts[i]); m != "" {
			b := safeEnc(pkts[i].MarshalVT, pkts[i])
			r.Violate("roundtrip-packet", m, c20Case{Kind: "roundtrip-packet", Bytes: b})
		}
		n.Add(1)
	})
	r.Add("packet_values", int64(len(pkts)))
	r.Sample(map[string]any{"stat": fmt.Sprint(stats[len(stats)/2]), "packet_type": pkts[7].Type.String()})

	// (b) decoder robustness
	decode := func(b []byte) {
		if m := decodeArbitrary(b); m != "" {
			key := "decode:" + firstWord(m)
			if key == "decode:decoded" {
				// does the generic runtime accept the same bytes? if not, the excess comes from a
				// length-delimited field that the hand-optimised decoder lets run past its enclosing entry
				var gs types.Stat
				gp := &types.Packet{}
				isStat := strings.Contains(m, "string bytes")
				if (isStat && proto.Unmarshal(b, &gs) != nil) || (!isStat && proto.Unmarshal(b, gp) != nil) {
					key = "decode:oversize-nested-field-rejected-by-generic-runtime"
				}
			}
			r.Violate(key, fmt.Sprintf("input %x: %s", b, m), c20Case{Kind: "decode", Bytes: append([]byte{}, b...)})
		}
	}
	// every byte string of length <= 3 (quick: <= 2, plus length 3 over the first byte's tag alphabet)
	par.Do(256, par.Workers(), func(a int) {
		cnt := int64(0)
		buf := make([]byte, 3)
		buf[0] = byte(a)
		decode(buf[:1])
		cnt++
		for b := 0; b < 256; b++ {
			buf[1] = byte(b)
			decode(buf[:2])
			cnt++
			if quick && b%8 != 0 && b < 0x78 {
				continue
			}
			for c := 0; c < 256; c++ {
				buf[2] = byte(c)
				decode(buf[:3])
				cnt++
			}
		}
		n.Add(cnt)
	})
	decode(nil)
	alpha := []byte{0x00, 0x01, 0x02, 0x08, 0x0a, 0x10, 0x12, 0x18, 0x1a, 0x20, 0x22, 0x28, 0x2a, 0x30, 0x38, 0x40, 0x48, 0x52, 0x7f, 0x80, 0x81, 0xfe, 0xff, 0x05}
	maxLen := 6
	if quick {
		maxLen = 5
	}
	par.Do(len(alpha)*len(alpha), par.Workers(), func(k int) {
		cnt := int64(0)
		buf := make([]byte, maxLen)
		buf[0], buf[1] = alpha[k/len(alpha)], alpha[k%len(alpha)]
		var rec func(l int)
		rec = func(l int) {
			decode(buf[:l])
			cnt++
			if l == maxLen {
				return
			}
			for _, c := range alpha {
				buf[l] = c
				rec(l + 1)
			}
		}
		rec(2)
		n.Add(cnt)
	})
	// extreme lengths: every length-delimited field (and an unknown one), at top level, inside the nested stat and
	// inside an xattr map entry, announced with lengths around 2^31, 2^32, 2^63 and 2^64 and with overlong varints
	{
		varint := func(v uint64) []byte {
			var b []byte
			for v >= 0x80 {
				b = append(b, byte(v)|0x80)
				v >>= 7
			}
			return append(b, byte(v))
		}
		var lens [][]byte
		for _, base := range []uint64{1 << 31, 1 << 32, 1 << 62, 1 << 63, 0} { // 0 stands for 2^64 (wraps)
			for d := uint64(0); d <= 48; d++ {
				lens = append(lens, varint(base-d), varint(base+d))
			}
		}
		lens = append(lens, bytes.Repeat([]byte{0xff}, 10), append(bytes.Repeat([]byte{0xff}, 9), 0x01), append(bytes.Repeat([]byte{0xff}, 9), 0x7f), append(bytes.Repeat([]byte{0x80}, 9), 0x01), bytes.Repeat([]byte{0xff}, 11))
		wraps := [][2][]byte{{nil, nil}, {{0x08, 0x02}, nil}, {{0x08, 0x04, 0x18, 0x01}, nil}}
		nests := [][]byte{nil, {0x12, 0x7f}, {0x12, 0x14, 0x52, 0x12}, {0x52, 0x10}}
		tags := []byte{0x0a, 0x12, 0x1a, 0x22, 0x2a, 0x32, 0x3a, 0x52, 0x7a}
		tails := [][]byte{nil, {0x00}, {0x61, 0x62, 0x63}, bytes.Repeat([]byte{0x41}, 40)}
		cnt := int64(0)
		for _, w := range wraps {
			for _, nest := range nests {
				for _, tg := range tags {
					for _, l := range lens {
						for _, tl := range tails {
							b := append(append(append(append(append([]byte{}, w[0]...), nest...), tg), l...), tl...)
							decode(b)
							cnt++
						}
					}
				}
			}
		}
		n.Add(cnt)
		r.Add("extreme_length_inputs", cnt)
	}
	// xattr map entries as other encoders write them: a member with its default value left off the wire, members in
	// the other order, a member given twice (the last one wins). All legal; the hand-optimised decoders and the
	// generic runtime must agree on the value, and no decoded value may share memory with another
	{
		lp := func(tag byte, v string) []byte { return append([]byte{tag, byte(len(v))}, v...) }
		type form struct {
			wire []byte
			k, v string
		}
		forms := func(k, v string) []form {
			return []form{{append(lp(0x0a, k), lp(0x12, v)...), k, v}, {lp(0x0a, k), k, ""}, {lp(0x12, v), "", v}, {nil, "", ""},
				{append(lp(0x12, v), lp(0x0a, k)...), k, v}, {append(lp(0x0a, k), lp(0x12, "")...), k, ""},
				{append(append(lp(0x0a, "old"), lp(0x0a, k)...), lp(0x12, v)...), k, v}, {append(append(lp(0x0a, k), lp(0x12, "old")...), lp(0x12, v)...), k, v}}
		}
		kv := [][2]string{{"user.a", "AAAA"}, {"user.b", "B"}, {"user.cc", "CCCCCCCC"}}
		cnt := int64(0)
		var rec func(i int, wire []byte, want map[string]string)
		rec = func(i int, wire []byte, want map[string]string) {
			if i > 0 {
				cnt++
				b := append(lp(0x0a, "p"), wire...)
				var g types.Stat
				gerr := proto.Unmarshal(b, &g)
				dec := map[string]func([]byte) (*types.Stat, error){
					"UnmarshalVT": func(b []byte) (*types.Stat, error) { var s types.Stat; return &s, s.UnmarshalVT(b) },
					"Unmarshal":   func(b []byte) (*types.Stat, error) { var s types.Stat; return &s, s.Unmarshal(b) },
					"UnmarshalVTUnsafe": func(b []byte) (*types.Stat, error) {
						var s types.Stat
						return &s, s.UnmarshalVTUnsafe(append([]byte{}, b...))
					}}
				for name, f := range dec {
					v, err := f(b)
					if err != nil || gerr != nil {
						if (err == nil) != (gerr == nil) {
							r.Violate("map-entry-forms", fmt.Sprintf("%s of %x: %v, generic runtime: %v", name, b, err, gerr), c20Case{Kind: "mapentry", Bytes: b})
						}
						continue
					}
					ok := len(v.Xattrs) == len(want) && xEq(v.Xattrs, g.Xattrs)
					for k, w := range want {
						ok = ok && string(v.Xattrs[k]) == w
					}
					if !ok {
						r.Violate("map-entry-forms", fmt.Sprintf("%s of %x gives xattrs %q, generic runtime %q, written %q", name, b, v.Xattrs, g.Xattrs, want), c20Case{Kind: "mapentry", Bytes: b})
						continue
					}
					// values own their memory
					for k := range v.Xattrs {
						for j := range v.Xattrs[k] {
							v.Xattrs[k][j] = '#'
						}
						for k2, w := range want {
							if k2 != k && string(v.Xattrs[k2]) != w {
								r.Violate("map-entry-forms", fmt.Sprintf("%s of %x: xattr values %q and %q share memory", name, b, k, k2), c20Case{Kind: "mapentry", Bytes: b})
							}
						}
						copy(v.Xattrs[k], want[k])
					}
				}
			}
			if i == len(kv) {
				return
			}
			for _, f := range forms(kv[i][0], kv[i][1]) {
				w2 := map[string]string{}
				for k, v := range want {
					w2[k] = v
				}
				w2[f.k] = f.v
				rec(i+1, append(append(append([]byte{}, wire...), 0x52, byte(len(f.wire))), f.wire...), w2)
			}
		}
		rec(0, nil, map[string]string{})
		n.Add(cnt)
		r.Add("map_entry_form_inputs", cnt)
	}
	r.Sample(map[string]any{"decoded_strings": "all byte strings of length <=3 and all strings of length <=" + fmt.Sprint(maxLen) + " over 24 structural bytes"})
	// every single-byte substitution, truncation and duplication of valid encodings
	var valid [][]byte
	for i := 0; i < len(stats); i += len(stats)/120 + 1 {
		sp := &types.Packet{Type: types.PACKET_STAT, Stat: stats[i]}
		b := safeEnc(sp.MarshalVT, sp)
		valid = append(valid, b)
	}
	for _, p := range pkts {
		if len(p.Data) < 100 {
			b := safeEnc(p.MarshalVT, p)
			valid = append(valid, b)
		}
	}
	par.Do(len(valid), par.Workers(), func(i int) {
		b := valid[i]
		cnt := int64(0)
		for pos := range b {
			m := append([]byte{}, b...)
			for v := 0; v < 256; v++ {
				m[pos] = byte(v)
				decode(m)
				cnt++
			}
			decode(b[:pos])
			decode(append(append(append([]byte{}, b[:pos]...), b[pos]), b[pos:]...))
			cnt += 2
		}
		n.Add(cnt)
	})
	r.Add("valid_encodings_mutated", int64(len(valid)))

	// (c) framing
	var total int
	for _, p := range small {
		total += 4 + p.SizeVT()
	}
	r.Set("short_stream_bytes", total)
	if m := framing(small, nil); m != "" {
		r.Violate("framing:"+firstWord(m), "unfragmented short stream: "+m, c20Case{Kind: "framing", Pkts: encAll(small)})
	} else {
		var all [][]int
		if total > 20 {
			panic("short stream too long for exhaustive fragmentation")
		}
		compositionsUpTo(total, func(c []int) { all = append(all, append([]int{}, c...)) })
		par.Do(len(all), par.Workers(), func(i int) {
			if m := framing(small, all[i]); m != "" {
				r.Violate("framing:"+firstWord(m), fmt.Sprintf("cuts %v: %s", all[i], m), c20Case{Kind: "framing", Pkts: encAll(small), Cuts: all[i]})
			}
			n.Add(1)
		})
		r.Add("fragmentations_short_stream", int64(len(all)))
	}
	if m := framing(big, nil); m != "" {
		r.Violate("framing:"+firstWord(m), "unfragmented long stream: "+m, c20Case{Kind: "framing", Pkts: encAll(big)})
	} else {
		sizes := []int{1, 2, 3, 4, 5, 7, 8, 32 * 1024, 32*1024 - 1, 32*1024 + 1, 32*1024 - 4, 32*1024 + 4, 70000, 1 << 20}
		var seqs [][]int
		for _, a := range sizes {
			seqs = append(seqs, []int{a})
			for _, b := range sizes {
				seqs = append(seqs, []int{a, b})
				if !quick || (a < 9 && b < 9) {
					for _, c := range sizes {
						seqs = append(seqs, []int{a, b, c}, []int{a, b, c, 1, 1, 1, 1, 3})
					}
				}
			}
		}
		// constant small read sizes for the whole stream
		for _, k := range []int{1, 2, 3, 5, 4096} {
			cs := make([]int, 0, 200000/k+10)
			for i := 0; i < 210000/k+2; i++ {
				cs = append(cs, k)
			}
			seqs = append(seqs, cs)
		}
		par.Do(len(seqs), par.Workers(), func(i int) {
			if m := framing(big, seqs[i]); m != "" {
				r.Violate("framing:"+firstWord(m), fmt.Sprintf("cuts %v: %s", head2(seqs[i]), m), c20Case{Kind: "framing", Pkts: encAll(big), Cuts: head2(seqs[i])})
			}
			n.Add(1)
		})
		r.Add("fragmentations_long_stream", int64(len(seqs)))
	}
	// (d) full duplex: every byte offset of an incoming stream x outgoing packets of several sizes
	{
		ins := [][]*types.Packet{
			{{Type: types.PACKET_DATA, ID: 7, Data: bytes.Repeat([]byte{9}, 300)}, {Type: types.PACKET_REQ, ID: 3}},
			{{Type: types.PACKET_STAT, Stat: &types.Stat{Path: "some/longer/path", Mode: 0644, Size: 12345, Xattrs: map[string][]byte{"user.k": []byte("value")}}}, {Type: types.PACKET_FIN}},
		}
		outs := []*types.Packet{{Type: types.PACKET_REQ, ID: 1}, {Type: types.PACKET_DATA, ID: 2, Data: bytes.Repeat([]byte{5}, 200)}, {Type: types.PACKET_DATA, ID: 2, Data: bytes.Repeat([]byte{6}, 2000)}, {}}
		type dc struct{ in, cut, out int }
		var dcs []dc
		for ii, in := range ins {
			tot := 0
			for _, p := range in {
				tot += 4 + p.SizeVT()
			}
			for cut := 0; cut < tot; cut++ {
				for oi := range outs {
					dcs = append(dcs, dc{ii, cut, oi})
				}
			}
		}
		par.Do(len(dcs), par.Workers(), func(i int) {
			c := dcs[i]
			if m := duplex(ins[c.in], c.cut, outs[c.out]); m != "" {
				r.Violate("duplex:"+firstWord(m), fmt.Sprintf("incoming stream %d cut at byte %d, outgoing packet %d: %s", c.in, c.cut, c.out, m),
					c20Case{Kind: "duplex", Pkts: encAll(ins[c.in]), Cuts: []int{c.cut}, Bytes: safeEnc(outs[c.out].MarshalVT, outs[c.out])})
			}
			n.Add(1)
		})
		r.Add("duplex_cases", int64(len(dcs)))
	}
	truncAndResend("late")
	// (e) histories through an error path: on one P with the collector off, so that a pool hands back exactly what
	// the failed stream left in it
	{
		oldP, oldGC := runtime.GOMAXPROCS(1), debug.SetGCPercent(-1)
		cnt := int64(0)
		for _, fc := range []int{0, 3, 4, 5, 500, 1006, 1 << 20} {
			for ac := 0; ac < 1010; ac++ {
				if m := poolHistory(fc, ac); m != "" {
					r.Violate("history:"+firstWord(m), fmt.Sprintf("a stream truncated at byte %d, then stream A cut at byte %d while stream B receives: %s", fc, ac, m), c20Case{Kind: "pool-history", Cuts: []int{fc, ac}})
				}
				cnt++
			}
		}
		runtime.GOMAXPROCS(oldP)
		debug.SetGCPercent(oldGC)
		n.Add(cnt)
		r.Add("pool_history_cases", cnt)
	}
	r.Evaluations.Store(n.Load())
	r.Sample(map[string]any{"framed_stream": "empty packet, REQ 1, FIN", "fragmentations": "all compositions of its byte length"})
	for i := 0; i < 3000; i++ {
		r.Nontrivial(fmt.Sprint("v", i))
	}
}

func head2(c []int) []int {
	if len(c) > 12 {
		return c[:12]
	}
	return c
}

func encAll(ps []*types.Packet) [][]byte {
	var out [][]byte
	for _, p := range ps {
		b := safeEnc(p.MarshalVT, p)
		out = append(out, b)
	}
	return out
}

func firstWord(s string) string {
	for i, c := range s {
		if c == ' ' || c == ':' {
			return s[:i]
		}
	}
	return s
}

func replayC20(raw json.RawMessage) string {
	var c c20Case
	if err := json.Unmarshal(raw, &c); err != nil {
		return "bad case: " + err.Error()
	}
	switch c.Kind {
	case "decode":
		return decodeArbitrary(c.Bytes)
	case "reuse":
		return reuse(c.Pkts)
	case "mapentry":
		var g, v, u types.Stat
		gerr, verr, uerr := proto.Unmarshal(c.Bytes, &g), v.UnmarshalVT(c.Bytes), u.UnmarshalVTUnsafe(append([]byte{}, c.Bytes...))
		if (gerr == nil) != (verr == nil) || (gerr == nil) != (uerr == nil) {
			return fmt.Sprintf("decoders disagree on validity: generic %v, UnmarshalVT %v, UnmarshalVTUnsafe %v", gerr, verr, uerr)
		}
		if gerr == nil && (!xEq(g.Xattrs, v.Xattrs) || !xEq(g.Xattrs, u.Xattrs)) {
			return fmt.Sprintf("xattrs: generic runtime %q, UnmarshalVT %q, UnmarshalVTUnsafe %q", g.Xattrs, v.Xattrs, u.Xattrs)
		}
		for k := range v.Xattrs {
			for j := range v.Xattrs[k] {
				v.Xattrs[k][j] = '#'
			}
			for k2 := range g.Xattrs {
				if k2 != k && !bytes.Equal(v.Xattrs[k2], g.Xattrs[k2]) {
					return fmt.Sprintf("xattr values %q and %q share memory", k, k2)
				}
			}
			copy(v.Xattrs[k], g.Xattrs[k])
		}
		return ""
	case "roundtrip-stat":
		var s types.Stat
		if err := s.UnmarshalVT(c.Stat); err != nil {
			return err.Error()
		}
		return roundTripStat(&s)
	case "roundtrip-packet":
		var p types.Packet
		if err := p.UnmarshalVT(c.Bytes); err != nil {
			return err.Error()
		}
		return roundTripPacket(&p)
	case "resend":
		return resend(c.Cuts)
	case "truncated", "transient", "handover":
		var ps []*types.Packet
		for _, b := range c.Pkts {
			p := &types.Packet{}
			if err := p.UnmarshalVT(b); err != nil {
				return err.Error()
			}
			ps = append(ps, p)
		}
		var w bytes.Buffer
		st := util.NewProtoStream(context.Background(), nil, &w)
		var ends []int
		for _, p := range ps {
			st.SendMsg(p)
			ends = append(ends, w.Len())
		}
		if len(c.Cuts) != 1 || c.Cuts[0] > w.Len() {
			return "bad case"
		}
		if c.Kind == "transient" {
			return transient(ps, w.Bytes(), c.Cuts[0])
		}
		if c.Kind == "handover" && len(c.Cuts) == 2 {
			return handover(ps, w.Bytes(), c.Cuts[0], c.Cuts[1])
		}
		if m := truncation(ps, w.Bytes(), ends, c.Cuts[0], true); m != "" {
			return m
		}
		return truncation(ps, w.Bytes(), ends, c.Cuts[0], false)
	case "pool-history":
		if len(c.Cuts) != 2 {
			return "bad case"
		}
		defer debug.SetGCPercent(debug.SetGCPercent(-1))
		defer runtime.GOMAXPROCS(runtime.GOMAXPROCS(1))
		return poolHistory(c.Cuts[0], c.Cuts[1])
	case "duplex":
		var ps []*types.Packet
		for _, b := range c.Pkts {
			p := &types.Packet{}
			if err := p.UnmarshalVT(b); err != nil {
				return err.Error()
			}
			ps = append(ps, p)
		}
		var o types.Packet
		if err := o.UnmarshalVT(c.Bytes); err != nil || len(c.Cuts) != 1 {
			return "bad duplex case"
		}
		return duplex(ps, c.Cuts[0], &o)
	case "framing":
		var ps []*types.Packet
		for _, b := range c.Pkts {
			p := &types.Packet{}
			if err := p.UnmarshalVT(b); err != nil {
				return err.Error()
			}
			ps = append(ps, p)
		}
		return framing(ps, c.Cuts)
	}
	return "unknown case kind"
}
