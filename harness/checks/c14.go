package checks

import (
	"context"
	"encoding/json"
	"fmt"
	"os"
	"os/exec"
	"path/filepath"
	"strconv"
	"strings"
	"time"

	fscopy "github.com/tonistiigi/fsutil/copy"
	"verif/evid"
	"verif/fsmodel"
	"verif/par"
	"verif/scratch"
)

func init() {
	register("C14", runC14, replayC14)
	Children["c14"] = childC14
}

type c14Case struct {
	Src     fsmodel.Tree `json:"src"`
	Dst     fsmodel.Tree `json:"dst"`
	SrcArg  string       `json:"srcarg"`
	DstArg  string       `json:"dstarg"`
	Follow  bool         `json:"follow,omitempty"`
	Wild    bool         `json:"wild,omitempty"`
	Repl    bool         `json:"repl,omitempty"`
	DirC    bool         `json:"dirc,omitempty"`
	Mode    bool         `json:"mode,omitempty"` // numeric Mode option 0777
	Include []string     `json:"include,omitempty"`
	// Stamp: the Chown option (1234:1234) and the Utime option are given
	Stamp bool `json:"stamp,omitempty"`
	// Plant: while the copy runs, a link to /outside/f appears at this path below the destination root as soon as
	// its parent directory exists and the path is still free (done from the Chown callback, the one place where
	// a caller's code runs between two steps of a copy)
	Plant string `json:"plant,omitempty"`
	// PlantDir: the link that appears points to the outside directory (planted at a directory path the copy is about
	// to create) instead of the outside file
	PlantDir bool `json:"plantdir,omitempty"`
	// DstHL: these destination paths are second names of the outside file /outside/f (a cp -al / rsync --link-dest
	// snapshot): replacing such a name is the copy's business, the outside file's bytes, mode, owner and times are not
	DstHL []string `json:"dsthl,omitempty"`
	// Disk: the sandbox lies on a disk file system (inode numbers are handed out again at once)
	Disk bool `json:"disk,omitempty"`
}

func (c c14Case) String() string {
	s := fmt.Sprintf("srcroot=%s dstroot=%s Copy(%q -> %q) follow=%v wildcards=%v always-replace=%v dircontents=%v mode=%v include=%q",
		shapeOf(c.Src), shapeOf(c.Dst), c.SrcArg, c.DstArg, c.Follow, c.Wild, c.Repl, c.DirC, c.Mode, c.Include)
	if c.Stamp {
		s += " chown+utime"
	}
	if c.Plant != "" {
		s += fmt.Sprintf(" link-to-outside-appears-at=%q(to-directory=%v)", c.Plant, c.PlantDir)
	}
	if c.Disk {
		s += " sandbox-on-disk-filesystem"
	}
	if len(c.DstHL) > 0 {
		s += fmt.Sprintf(" destination-names-of-the-outside-file=%q", c.DstHL)
	}
	return s
}

var c14Targets = []string{"/outside/f", "/outside/d", "../outside/d", "../../..", "/nowhere", "."}

func c14Base(root string) fsmodel.Tree {
	T := fsmodel.T0
	tok := func(p string) []byte { return []byte(strings.ToUpper(root) + ":" + p) }
	t := fsmodel.Tree{{Path: "a", Kind: fsmodel.Dir, Perm: 0755, Mtime: T}, {Path: "a/f", Kind: fsmodel.File, Perm: 0644, Mtime: T + 1, Data: tok("a/f")},
		{Path: "b", Kind: fsmodel.File, Perm: 0644, Mtime: T + 2, Data: tok("b")}}
	if root == "src" {
		t = append(t, fsmodel.Node{Path: "c", Kind: fsmodel.Dir, Perm: 0755, Mtime: T}, fsmodel.Node{Path: "c/g", Kind: fsmodel.File, Perm: 0644, Mtime: T + 3, Data: tok("c/g")})
	} else {
		t = append(t, fsmodel.Node{Path: "x", Kind: fsmodel.Dir, Perm: 0755, Mtime: T})
	}
	t.Sort()
	return t
}

// plant puts a symlink at path p (replacing whatever is there, with its subtree).
func plant(t fsmodel.Tree, p, target string) fsmodel.Tree {
	t = removeSub(t.Clone(), p)
	t = append(t, fsmodel.Node{Path: p, Kind: fsmodel.Symlink, Perm: 0777, Mtime: fsmodel.T0 + 9, Link: target, Xattrs: map[string]string{"trusted.planted": "1"}})
	t.Sort()
	if !t.Valid() {
		return nil
	}
	return t
}

func c14Sandbox(root string) error {
	for _, d := range []string{"outside", "srcroot", "dstroot"} {
		scratch.Remove(filepath.Join(root, d))
	}
	T := fsmodel.T0
	out := fsmodel.Tree{{Path: "outside", Kind: fsmodel.Dir, Perm: 0755, Mtime: T}, {Path: "outside/f", Kind: fsmodel.File, Perm: 0600, Mtime: T, Data: []byte("OUTSIDE:f")},
		{Path: "outside/d", Kind: fsmodel.Dir, Perm: 0700, Mtime: T}, {Path: "outside/d/g", Kind: fsmodel.File, Perm: 0600, Mtime: T, Data: []byte("OUTSIDE:d/g")},
		{Path: "outside/d/f", Kind: fsmodel.File, Perm: 0600, Mtime: T, Data: []byte("OUTSIDE:d/f")},
		{Path: "outside/d/a", Kind: fsmodel.Dir, Perm: 0700, Mtime: T}, {Path: "outside/d/a/f", Kind: fsmodel.File, Perm: 0600, Mtime: T, Data: []byte("OUTSIDE:d/a/f")},
		{Path: "srcroot", Kind: fsmodel.Dir, Perm: 0755, Mtime: T}, {Path: "dstroot", Kind: fsmodel.Dir, Perm: 0755, Mtime: T}}
	return fsmodel.Materialize(out, root)
}

func resetDir(dir string, t fsmodel.Tree) error {
	ents, _ := os.ReadDir(dir)
	for _, e := range ents {
		scratch.Remove(filepath.Join(dir, e.Name()))
	}
	if err := fsmodel.Materialize(t, dir); err != nil {
		return err
	}
	return fsmodel.Utime(dir, fsmodel.T0)
}

func renderTree(root, sub string, loose ...string) (string, error) {
	var sb strings.Builder
	snap, err := fsmodel.Snapshot(filepath.Join(root, sub))
	if err != nil {
		return "", err
	}
	n, err := fsmodel.LstatNode(filepath.Join(root, sub), sub)
	if err != nil {
		return "", err
	}
	fmt.Fprintf(&sb, "%s ino=%d\n", n.String(), n.Ino)
	for _, n := range snap {
		isLoose := false
		for _, l := range loose {
			isLoose = isLoose || n.Path == l
		}
		if isLoose {
			// an inode that has a name inside the destination: link count and change time move when that name is replaced
			n.HL = 0
			fmt.Fprintf(&sb, "%s/%s ino=%d\n", sub, n.String(), n.Ino)
			continue
		}
		fmt.Fprintf(&sb, "%s/%s ino=%d ctime=%d nlink=%d\n", sub, n.String(), n.Ino, n.Ctime, n.Nlink)
	}
	return sb.String(), nil
}

func judgeC14Raw(root string, c c14Case) (string, string) {
	if err := resetDir(filepath.Join(root, "srcroot"), c.Src); err != nil {
		return "infra", "src: " + err.Error()
	}
	if err := resetDir(filepath.Join(root, "dstroot"), c.Dst); err != nil {
		return "infra", "dst: " + err.Error()
	}
	var loose []string
	for _, hp := range c.DstHL {
		t := filepath.Join(root, "dstroot", hp)
		os.Remove(t)
		if err := os.Link(filepath.Join(root, "outside/f"), t); err != nil {
			return "infra", "dst hard link: " + err.Error()
		}
		loose = []string{"f"}
	}
	state := func() (string, error) {
		a, err := renderTree(root, "outside", loose...)
		if err != nil {
			return "", err
		}
		b, err := renderTree(root, "srcroot")
		if err != nil {
			return "", err
		}
		top, _ := os.ReadDir(root)
		var names []string
		for _, e := range top {
			names = append(names, e.Name())
		}
		return a + b + strings.Join(names, " ") + "\n", nil
	}
	before, err := state()
	if err != nil {
		return "infra", err.Error()
	}
	ci := fscopy.CopyInfo{FollowLinks: c.Follow, AllowWildcards: c.Wild, AlwaysReplaceExistingDestPaths: c.Repl, CopyDirContents: c.DirC, IncludePatterns: c.Include}
	if c.Mode {
		m := 0777
		ci.Mode = &m
	}
	if c.Stamp {
		tm := time.Unix(1_111_111_111, 5)
		ci.Utime = &tm
		ci.Chown = func(*fscopy.User) (*fscopy.User, error) { return &fscopy.User{UID: 1234, GID: 1234}, nil }
	}
	if c.Plant != "" {
		target, inner := filepath.Join(root, "dstroot", c.Plant), ci.Chown
		ci.Chown = func(u *fscopy.User) (*fscopy.User, error) {
			if _, err := os.Lstat(filepath.Dir(target)); err == nil {
				if _, err := os.Lstat(target); os.IsNotExist(err) {
					if c.PlantDir {
						os.Symlink("/outside/d", target)
					} else {
						os.Symlink("/outside/f", target)
					}
				}
			}
			if inner != nil {
				return inner(u)
			}
			return u, nil
		}
	}
	var cerr error
	func() {
		defer func() {
			if r := recover(); r != nil {
				cerr = fmt.Errorf("panic: %v", r)
			}
		}()
		cerr = fscopy.Copy(context.Background(), filepath.Join(root, "srcroot"), c.SrcArg, filepath.Join(root, "dstroot"), c.DstArg, fscopy.WithCopyInfo(ci))
	}()
	if cerr != nil && strings.HasPrefix(cerr.Error(), "panic:") {
		return "panic", cerr.Error()
	}
	after, err := state()
	if err != nil {
		c14Sandbox(root)
		return "outside-damaged", err.Error()
	}
	if before != after {
		c14Sandbox(root)
		key := "outside-changed"
		if c.Wild {
			key = "outside-changed:wildcard"
		}
		return key, fmt.Sprintf("something outside the destination root changed (Copy returned %v): %s", cerr, lineDiff(before, after))
	}
	dst, err := fsmodel.Snapshot(filepath.Join(root, "dstroot"))
	if err != nil {
		return "infra", err.Error()
	}
	for _, n := range dst {
		still := false
		for _, hp := range c.DstHL {
			still = still || (n.Path == hp && n.Nlink > 1) // a name of the outside file that the copy left alone
		}
		if still {
			continue
		}
		if n.Kind == fsmodel.File && strings.HasPrefix(string(n.Data), "OUTSIDE:") {
			key := "outside-bytes-copied"
			return key, fmt.Sprintf("dstroot/%s holds %q: bytes from outside the source root (Copy returned %v)", n.Path, n.Data, cerr)
		}
	}
	return "", ""
}

func c14Cases(tier string) []c14Case {
	srcBase, dstBase := c14Base("src"), c14Base("dst")
	var srcV, dstV []fsmodel.Tree
	for _, tg := range c14Targets {
		for _, p := range []string{"a", "a/f", "b", "c", "l", "a/l"} {
			if t := plant(srcBase, p, tg); t != nil {
				srcV = append(srcV, t)
			}
		}
		for _, p := range []string{"a", "a/f", "b", "x", "l", "a/l", "c"} {
			if t := plant(dstBase, p, tg); t != nil {
				dstV = append(dstV, t)
			}
		}
	}
	// links to the outside file under the names a writer might use for its temporaries next to b and a/f
	for _, tn := range []string{".b.tmp", "b.tmp", "b~", ".tmp.b", ".b.swp", "a/.f.tmp", "a/f.tmp", "a/f~"} {
		if t := plant(dstBase, tn, "/outside/f"); t != nil {
			dstV = append(dstV, t)
		}
	}
	// two directories whose contents merge when both match a wildcard: the first brings a link to an outside file
	// (and one to an outside directory), the second a regular file and a directory at the same relative paths
	T := fsmodel.T0
	mdir := func(ps ...string) (out fsmodel.Tree) {
		for _, p := range ps {
			out = append(out, fsmodel.Node{Path: p, Kind: fsmodel.Dir, Perm: 0755, Mtime: T})
		}
		return
	}
	// (one tree per hazard and their union: a copy that stops at one of these entries never reaches what is sorted
	// after it, or the matches after it)
	xy := fsmodel.Tree{{Path: "m1/sub/x", Kind: fsmodel.Symlink, Perm: 0777, Mtime: T, Link: "/outside/f"}, {Path: "m1/sub/y", Kind: fsmodel.Symlink, Perm: 0777, Mtime: T, Link: "/outside/d"},
		{Path: "m2/sub/x", Kind: fsmodel.File, Perm: 0644, Mtime: T + 5, Data: []byte("SRC:m2/sub/x")}, {Path: "m2/sub/y", Kind: fsmodel.Dir, Perm: 0755, Mtime: T},
		{Path: "m2/sub/y/g", Kind: fsmodel.File, Perm: 0644, Mtime: T + 6, Data: []byte("SRC:m2/sub/y/g")}}
	// an inode with two names whose destination paths coincide, with a link to an outside file copied onto that path
	// in between
	zz := fsmodel.Tree{{Path: "m1/sub/z", Kind: fsmodel.File, Perm: 0640, Mtime: T + 7, Data: []byte("SRC:z"), HL: 1},
		{Path: "m2/sub/z", Kind: fsmodel.Symlink, Perm: 0777, Mtime: T, Link: "/outside/f"},
		{Path: "m3/sub/z", Kind: fsmodel.File, Perm: 0640, Mtime: T + 7, Data: []byte("SRC:z"), HL: 1}}
	// the same with different final names: the second name of the inode is linked to a destination path that a link to
	// an outside file has taken over in between; once with the mode the outside file has, once with another one, once
	// with the time the link carries
	hh := fsmodel.Tree{{Path: "m1/sub/h1", Kind: fsmodel.File, Perm: 0600, Mtime: T + 8, Data: []byte("SRC:h"), HL: 2},
		{Path: "m2/sub/h1", Kind: fsmodel.Symlink, Perm: 0777, Mtime: T, Link: "/outside/f"},
		{Path: "m3/sub/h2", Kind: fsmodel.File, Perm: 0600, Mtime: T + 8, Data: []byte("SRC:h"), HL: 2}}
	hm := fsmodel.Tree{{Path: "m1/sub/k1", Kind: fsmodel.File, Perm: 0755, Mtime: T, Data: []byte("SRC:k"), HL: 3},
		{Path: "m2/sub/k1", Kind: fsmodel.Symlink, Perm: 0777, Mtime: T, Link: "/outside/f"},
		{Path: "m3/sub/k2", Kind: fsmodel.File, Perm: 0755, Mtime: T, Data: []byte("SRC:k"), HL: 3}}
	dirs := mdir("m1", "m1/sub", "m2", "m2/sub", "m3", "m3/sub")
	for _, part := range []fsmodel.Tree{xy, zz, hh, hm, append(append(append(xy.Clone(), zz...), hh...), hm...)} {
		mt := append(append(srcBase.Clone(), dirs...), part...)
		mt.Sort()
		if !mt.Valid() {
			panic("c14: merge tree invalid")
		}
		srcV = append(srcV, mt)
	}
	srcArgs := []string{"/", "a", "a/f", "b", "*", "a/*", "l", "l/f", "c", "?", "a/..", "c/../a/..", "a/../../b", "l/a/f", "l/a", "l/a/*", "m?", "m?/sub", "*/sub", "..", "../.", "a/../..", "../b", "l/", "a/l/", "c/../l/", "a/"}
	dstArgs := []string{"/", "a", "a/f", "x", "new", "l", "l/sub", "x/", "l/", "l/new/sub", "l/new/sub/"}
	var pairs [][2]fsmodel.Tree
	for _, s := range srcV {
		pairs = append(pairs, [2]fsmodel.Tree{s, dstBase})
	}
	for _, d := range dstV {
		pairs = append(pairs, [2]fsmodel.Tree{srcBase, d})
	}
	pairs = append(pairs, [2]fsmodel.Tree{srcBase, dstBase})
	if tier == "thorough" {
		for i, s := range srcV {
			for j, d := range dstV {
				if (i+j)%3 == 0 {
					pairs = append(pairs, [2]fsmodel.Tree{s, d})
				}
			}
		}
	}
	var out []c14Case
	for _, pr := range pairs {
		for _, sa := range srcArgs {
			for _, da := range dstArgs {
				for o := 0; o < 16; o++ {
					c := c14Case{Src: pr[0], Dst: pr[1], SrcArg: sa, DstArg: da, Follow: o&1 != 0, Repl: o&2 != 0, DirC: o&4 != 0, Mode: o&8 != 0, Wild: hasWild(sa)}
					if tier != "thorough" && c.Mode && (c.DirC || c.Repl) {
						continue
					}
					out = append(out, c)
				}
				// the options that stamp an owner and a time on what was copied
				for o := 0; o < 4; o++ {
					out = append(out, c14Case{Src: pr[0], Dst: pr[1], SrcArg: sa, DstArg: da, Follow: o&1 != 0, DirC: o&2 != 0, Stamp: true, Wild: hasWild(sa)})
				}
			}
		}
		// include patterns that select a nested entry without matching the directories above it: the
		// parents are created on demand and may collide with what the destination holds
		for _, inc := range [][]string{{"a/f"}, {"*/f"}, {"c/g"}, {"a/*"}} {
			for _, da := range []string{"/", "x", "l"} {
				for o := 0; o < 8; o++ {
					out = append(out, c14Case{Src: pr[0], Dst: pr[1], SrcArg: "/", DstArg: da, Follow: o&1 != 0, Repl: o&2 != 0, DirC: o&4 != 0, Include: inc})
				}
			}
		}
	}
	// the destination changes under the copy: a link to an outside file appears at a path the copy is about to write
	for _, inc := range [][]string{nil, {"a/f"}, {"c/g"}, {"*/f"}, {"*/g"}, {"b"}} {
		for _, da := range []string{"/", "x", "new", "new/sub"} {
			for _, pl := range []string{"a/f", "b", "c/g"} {
				for o := 0; o < 8; o++ {
					out = append(out, c14Case{Src: srcBase, Dst: dstBase, SrcArg: "/", DstArg: da, DirC: true, Include: inc, Follow: o&1 != 0, Repl: o&2 != 0, Stamp: o&4 != 0,
						Plant: filepath.Join(da, pl)})
				}
			}
		}
	}
	// destination entries that are second names of an outside file: every way of copying onto them
	for _, hl := range [][]string{{"b"}, {"a/f"}, {"b", "a/f"}} {
		for _, sa := range []string{"/", "b", "a/f", "a", "*", "a/*"} {
			for _, da := range []string{"/", "a", "a/f", "b"} {
				for o := 0; o < 16; o++ {
					out = append(out, c14Case{Src: srcBase, Dst: dstBase, SrcArg: sa, DstArg: da, Follow: o&1 != 0, Repl: o&2 != 0, DirC: o&4 != 0, Stamp: o&8 != 0, Wild: hasWild(sa), DstHL: hl})
				}
			}
		}
	}
	// ... at the path of the SECOND entry of a directory the copy has just created (the first one is already there)
	{
		two := append(srcBase.Clone(), fsmodel.Node{Path: "a/h", Kind: fsmodel.File, Perm: 0644, Mtime: fsmodel.T0 + 4, Data: []byte("SRC:a/h")}, fsmodel.Node{Path: "c/k", Kind: fsmodel.File, Perm: 0644, Mtime: fsmodel.T0 + 4, Data: []byte("SRC:c/k")})
		two.Sort()
		for _, da := range []string{"/", "x", "new", "new/sub"} {
			for _, pl := range []string{"a/h", "c/k", "c/g"} {
				for o := 0; o < 8; o++ {
					out = append(out, c14Case{Src: two, Dst: dstBase, SrcArg: "/", DstArg: da, DirC: true, Follow: o&1 != 0, Repl: o&2 != 0, Stamp: o&4 != 0, Plant: filepath.Join(da, pl)},
						c14Case{Src: two, Dst: dstBase, SrcArg: "c", DstArg: da, Follow: o&1 != 0, Repl: o&2 != 0, Stamp: o&4 != 0, Plant: filepath.Join(da, "c", filepath.Base(pl))})
				}
			}
		}
	}
	// ... and at a directory path the copy is about to create: a level of the destination argument, a copied directory
	for _, inc := range [][]string{nil, {"a/f"}, {"c/g"}} {
		for _, da := range []string{"new/sub", "new/sub/deeper", "x/new/sub", "new"} {
			for _, pl := range []string{"new/sub", "new/sub/deeper", "x/new", "x/new/sub", filepath.Join(da, "a"), filepath.Join(da, "c")} {
				for o := 0; o < 4; o++ {
					out = append(out, c14Case{Src: srcBase, Dst: dstBase, SrcArg: "/", DstArg: da, DirC: true, Include: inc, Repl: o&1 != 0, Stamp: o&2 != 0, Plant: pl, PlantDir: true})
					if inc == nil {
						// a single file or directory copied to a name several missing levels down
						for _, sa := range []string{"b", "a/f", "a"} {
							out = append(out, c14Case{Src: srcBase, Dst: dstBase, SrcArg: sa, DstArg: da + "/t", Repl: o&1 != 0, Stamp: o&2 != 0, Plant: pl, PlantDir: true})
						}
					}
				}
			}
		}
	}
	return out
}

type c14Out struct {
	Evals int64          `json:"evals"`
	Viol  []c14Viol      `json:"viol,omitempty"`
	Count map[string]int `json:"count,omitempty"`
}

type c14Viol struct {
	Key, Msg string
	Case     c14Case
}

func childC14(args []string) int {
	shard, _ := strconv.Atoi(args[0])
	n, _ := strconv.Atoi(args[1])
	tier, root := args[2], args[3]
	if err := c14Sandbox(root); err != nil {
		fmt.Fprintln(os.Stderr, "sandbox:", err)
		return 3
	}
	if err := chrootInto(root); err != nil {
		fmt.Fprintln(os.Stderr, "chroot:", err)
		return 3
	}
	enc := json.NewEncoder(os.Stdout)
	if len(args) > 4 {
		var c c14Case
		if err := json.Unmarshal([]byte(args[4]), &c); err != nil {
			return 3
		}
		k, m := judgeC14("/", c)
		enc.Encode(c14Out{Evals: 1, Viol: []c14Viol{{k, m, c}}})
		return 0
	}
	count := map[string]int{}
	evals := int64(0)
	for i, c := range c14Cases(tier) {
		if args[0] == "disk" {
			// the sandbox of this worker is on a disk file system, which hands out inode numbers again as soon as they
			// are free (tmpfs does not): the cases in which several matches land on one destination path
			if c.Src.Find("m1") == nil || !c.Wild {
				continue
			}
			c.Disk = true
		} else if i%n != shard {
			continue
		}
		k, m := judgeC14("/", c)
		evals++
		if k != "" {
			count[k]++
			if count[k] <= 3 {
				enc.Encode(c14Out{Viol: []c14Viol{{k, m, c}}})
			} else {
				enc.Encode(c14Out{Count: map[string]int{k: 1}})
			}
		}
	}
	enc.Encode(c14Out{Evals: evals})
	return 0
}

func runC14(r *evid.Run) {
	r.Technique = "bounded-exhaustive enumeration of symlink placements (any entry of the source tree, of the destination tree, or a component of either path argument; 6 targets incl. absolute/relative outside, '..' beyond the root, dangling, self) x src/dst arguments x option sets; every case one real Copy inside a throw-away chroot; oracle = byte-exact state of everything outside the destination root + provenance of every byte under it"
	r.Rule = "one evaluation = one Copy call in the sandbox; non-trivial = cases with a planted symlink; states = distinct cases"
	r.Assume = []string{"runs as root; each worker process chroots into its own sandbox so absolute symlinks resolve inside it", "files outside the source root carry the token OUTSIDE: so copied outside bytes are recognisable"}
	n := par.Workers()
	self, _ := os.Executable()
	errs := make([]string, n)
	aggs := make([]*c14Out, n)
	// one more worker whose sandbox lies on a disk file system (runs alongside the others)
	var diskAgg *c14Out
	var diskErr string
	diskCases := int64(0)
	diskDone := make(chan struct{})
	go func() {
		defer close(diskDone)
		droot := scratch.DiskDir("sb14d")
		if droot == "" {
			return
		}
		cmd := exec.Command(self, "child", "c14", "disk", "1", r.Tier, droot)
		var stderr strings.Builder
		cmd.Stderr = &stderr
		b, err := cmd.Output()
		scratch.Remove(droot)
		agg := &c14Out{Count: map[string]int{}}
		dec := json.NewDecoder(strings.NewReader(string(b)))
		for {
			var o c14Out
			if dec.Decode(&o) != nil {
				break
			}
			agg.Evals += o.Evals
			for _, v := range o.Viol {
				agg.Count[v.Key]++
				v.Msg = "(sandbox on a disk file system) " + v.Msg
				agg.Viol = append(agg.Viol, v)
			}
			for k, c := range o.Count {
				agg.Count[k] += c
			}
		}
		diskAgg, diskCases = agg, agg.Evals
		if err != nil {
			diskErr = fmt.Sprintf("disk child: %v: %s", err, firstLine(stderr.String()))
		}
	}()
	par.Do(n, n, func(i int) {
		root := scratch.Dir("sb14")
		defer scratch.Remove(root)
		cmd := exec.Command(self, "child", "c14", strconv.Itoa(i), strconv.Itoa(n), r.Tier, root)
		var stderr strings.Builder
		cmd.Stderr = &stderr
		b, err := cmd.Output()
		agg := &c14Out{Count: map[string]int{}}
		dec := json.NewDecoder(strings.NewReader(string(b)))
		for {
			var o c14Out
			if dec.Decode(&o) != nil {
				break
			}
			agg.Evals += o.Evals
			for _, v := range o.Viol {
				agg.Count[v.Key]++
				agg.Viol = append(agg.Viol, v)
			}
			for k, c := range o.Count {
				agg.Count[k] += c
			}
		}
		aggs[i] = agg
		if err != nil {
			errs[i] = fmt.Sprintf("child %d: %v: %s", i, err, firstLine(stderr.String()))
		}
	})
	<-diskDone
	if diskAgg != nil {
		aggs = append(aggs, diskAgg)
		errs = append(errs, diskErr)
	}
	r.Set("cases_on_disk_filesystem", diskCases)
	total := int64(0)
	for i, a := range aggs {
		if errs[i] != "" {
			r.Violate("infra", errs[i], nil)
			r.Exhaustive = false
		}
		if a == nil {
			continue
		}
		total += a.Evals
		kept := map[string]int{}
		for _, v := range a.Viol {
			kept[v.Key]++
			r.Violate(v.Key, v.Case.String()+": "+v.Msg, v.Case)
		}
		for k, c := range a.Count {
			for j := kept[k]; j < c; j++ {
				r.Violate(k, "", nil)
			}
		}
	}
	r.Evaluations.Store(total)
	cs := c14Cases(r.Tier)
	r.Set("cases", len(cs))
	for i := 0; i < len(cs); i += 97 {
		r.Nontrivial(cs[i].String())
	}
	r.Sample(map[string]any{"case": cs[len(cs)/3].String()})
}

func replayC14(raw json.RawMessage) string {
	root := scratch.Dir("sb14")
	var probe c14Case
	if json.Unmarshal(raw, &probe) == nil && probe.Disk {
		if d := scratch.DiskDir("sb14d"); d != "" {
			root = d
		}
	}
	defer scratch.Remove(root)
	self, _ := os.Executable()
	cmd := exec.Command(self, "child", "c14", "0", "1", "quick", root, string(raw))
	var stderr strings.Builder
	cmd.Stderr = &stderr
	b, err := cmd.Output()
	if err != nil {
		return "crash: " + firstLine(stderr.String())
	}
	var o c14Out
	if err := json.Unmarshal(b, &o); err != nil || len(o.Viol) == 0 {
		return "infra: bad child output"
	}
	if o.Viol[0].Key == "" {
		return ""
	}
	return o.Viol[0].Key + ": " + o.Viol[0].Msg
}

// judgeC14 is judgeC14Raw with a panic of the code under test turned into a verdict.
func judgeC14(root string, c c14Case) (k, m string) {
	defer func() {
		if r := recover(); r != nil {
			k, m = "panic", fmt.Sprintf("the code under test panicked: %v", r)
		}
	}()
	return judgeC14Raw(root, c)
}
