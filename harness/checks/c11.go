package checks

import (
	"bytes"
	"context"
	"encoding/json"
	"fmt"
	"io"
	gofs "io/fs"
	"os"
	"path/filepath"
	"strings"

	"github.com/tonistiigi/fsutil"
	"github.com/tonistiigi/fsutil/types"
	"verif/evid"
	"verif/fsmodel"
	"verif/memfs"
	"verif/par"
	"verif/scratch"
	"verif/xfer"
)

func init() { register("C11", runC11, replayC11) }

type c11Case struct {
	Tree    fsmodel.Tree `json:"tree"`
	Include []string     `json:"include,omitempty"`
	Exclude []string     `json:"exclude,omitempty"`
	Follow  []string     `json:"follow,omitempty"`
	Under   string       `json:"under"` // disk | filter | map | subdir | mem
	// Reset: the view is wrapped once with the exported WithHardlinkReset and that one value is walked and
	// then transferred twice (a retry, or one context sent to two receivers)
	Reset bool `json:"reset,omitempty"`
	// FollowEmpty: FollowPaths present but empty
	FollowEmpty bool `json:"followempty,omitempty"`
	// Order (composite only): which permutation of the sub-roots the constructor is handed (0 = ascending)
	Order int `json:"order,omitempty"`
}

func (c c11Case) String() string {
	s := fmt.Sprintf("tree=%s include=%q exclude=%q follow=%q under=%s", c.Tree, c.Include, c.Exclude, c.Follow, c.Under)
	if c.Order != 0 {
		s += fmt.Sprintf(" sub-roots-handed-over-in-permutation#%d", c.Order)
	}
	if c.Reset {
		s += " reset+reuse"
	}
	if c.FollowEmpty {
		s += " follow=[](empty, not nil)"
	}
	return s
}

// buildView constructs the filtered view of the case; it returns the view and the
// prefix the under-layer adds to paths ("" or "s/").
func buildView(c c11Case, dir string) (fsutil.FS, string, error) {
	var base fsutil.FS
	var err error
	prefix := ""
	switch c.Under {
	case "mem":
		base = memfs.New(c.Tree)
	case "multi":
		if base, err = compositeOf(c.Tree, c.Order); err != nil {
			return nil, "", err
		}
	default:
		// every other on-disk view reaches its root through a symlink
		arg := dir
		if evid.H(c.String())%2 == 1 {
			if lerr := os.Symlink(filepath.Base(dir), dir+".lnk"); lerr == nil || os.IsExist(lerr) {
				arg = dir + ".lnk"
			}
		}
		if base, err = fsutil.NewFS(arg); err != nil {
			return nil, "", err
		}
	}
	switch c.Under {
	case "filter":
		if base, err = fsutil.NewFilterFS(base, &fsutil.FilterOpt{}); err != nil {
			return nil, "", err
		}
	case "map":
		// a layer that hides one entry by name after its stat has been produced
		if base, err = fsutil.NewFilterFS(base, &fsutil.FilterOpt{Map: func(p string, st *types.Stat) fsutil.MapResult {
			if strings.HasSuffix(p, "a/x") {
				return fsutil.MapResultExclude
			}
			return fsutil.MapResultKeep
		}}); err != nil {
			return nil, "", err
		}
	case "subdir":
		if base, err = fsutil.SubDirFS([]fsutil.Dir{{Stat: &types.Stat{Path: "s", Mode: uint32(os.ModeDir | 0755)}, FS: base}}); err != nil {
			return nil, "", err
		}
		prefix = "s/"
	}
	if c.Under == "wrapped" {
		// the filter stack sits INSIDE a composite of sub-roots: what Send sees outermost is not a filter
		lower, err := fsutil.NewFilterFS(base, &fsutil.FilterOpt{})
		if err != nil {
			return nil, "", err
		}
		inner, err := newFilterFSReusedOpt(lower, &fsutil.FilterOpt{IncludePatterns: c.Include, ExcludePatterns: c.Exclude, FollowPaths: c.Follow})
		if err != nil {
			return nil, "", err
		}
		v, err := fsutil.SubDirFS([]fsutil.Dir{{Stat: &types.Stat{Path: "s", Mode: uint32(os.ModeDir | 0755)}, FS: inner}})
		return v, "s/", err
	}
	pre := func(l []string) []string {
		if prefix == "" || l == nil {
			return l
		}
		out := make([]string, len(l))
		for i, p := range l {
			if strings.HasPrefix(p, "!") {
				out[i] = "!" + prefix + p[1:]
			} else {
				out[i] = prefix + p
			}
		}
		return out
	}
	opt := &fsutil.FilterOpt{IncludePatterns: pre(c.Include), ExcludePatterns: pre(c.Exclude), FollowPaths: pre(c.Follow)}
	if c.FollowEmpty {
		opt.FollowPaths = []string{}
	}
	if c.Under == "maprewrite" {
		// the same filter also normalises metadata: every entry it reports - directories reported late, as ancestors
		// of a selected entry, included - carries the rewritten stat
		opt.Map = func(_ string, st *types.Stat) fsutil.MapResult {
			st.Uid, st.Gid, st.ModTime = 4242, 4243, 1_000_000_000_000_000_000
			return fsutil.MapResultKeep
		}
	}
	v, err := newFilterFSReusedOpt(base, opt)
	return v, prefix, err
}

// compositeOf: every top-level directory of the tree becomes a sub-root of a composite (its own in-memory FS).
func compositeOf(t fsmodel.Tree, order int) (fsutil.FS, error) {
	var dirs []fsutil.Dir
	for _, n := range t {
		if strings.Contains(n.Path, "/") || n.Kind != fsmodel.Dir {
			continue
		}
		var sub fsmodel.Tree
		for _, m := range t.Under(n.Path) {
			if m.Path != n.Path {
				m.Path = strings.TrimPrefix(m.Path, n.Path+"/")
				sub = append(sub, m)
			}
		}
		dirs = append(dirs, fsutil.Dir{Stat: memfs.StatOf(n, nil), FS: memfs.New(sub)})
	}
	// the order-th permutation of the list (factorial number system)
	var perm []fsutil.Dir
	rest := append([]fsutil.Dir{}, dirs...)
	for k := len(rest); k > 0; k-- {
		i := order % k
		order /= k
		perm = append(perm, rest[i])
		rest = append(rest[:i], rest[i+1:]...)
	}
	return fsutil.SubDirFS(perm)
}

// c11MultiTree: three sub-roots (one name a string prefix of another) holding directories of equal base names, a
// hard-link pair each, and files.
func c11MultiTree() fsmodel.Tree {
	T := fsmodel.T0
	var multi fsmodel.Tree
	for i, r := range []string{"p", "p1", "r"} {
		multi = append(multi, fsmodel.Node{Path: r, Kind: fsmodel.Dir, Perm: 0755, Mtime: T + int64(i)},
			fsmodel.Node{Path: r + "/a", Kind: fsmodel.Dir, Perm: 0750 + uint32(i), Mtime: T + 10 + int64(i)},
			fsmodel.Node{Path: r + "/a/x", Kind: fsmodel.File, Perm: 0644, Mtime: T + 11, Data: fsmodel.Content(30+i, 5+i), HL: i + 1},
			fsmodel.Node{Path: r + "/y", Kind: fsmodel.File, Perm: 0644, Mtime: T + 11, Data: fsmodel.Content(30+i, 5+i), HL: i + 1},
			fsmodel.Node{Path: r + "/z", Kind: fsmodel.File, Perm: 0644, Mtime: T + 12, Data: fsmodel.Content(40+i, 4+i)})
	}
	multi = append(multi, fsmodel.Node{Path: "p/1", Kind: fsmodel.Dir, Perm: 0755, Mtime: T + 20}, fsmodel.Node{Path: "p/1/z", Kind: fsmodel.File, Perm: 0644, Mtime: T + 21, Data: []byte("decoy")})
	multi.Sort()
	return multi
}

// judgeC11FsRoot: the view is rooted at the root of the file system (a tool exporting from "/" with a narrow include
// list) and selects, by a plain path prefix, a scratch directory holding the tree: what the walk reports below that
// prefix is the tree, and every file it reports can be opened through the view with its bytes.
func judgeC11FsRoot(c c11Case) (string, string) {
	root := scratch.Dir("fsroot")
	defer scratch.Remove(root)
	if err := fsmodel.Materialize(c.Tree, root); err != nil {
		return "infra", err.Error()
	}
	abs, err := filepath.EvalSymlinks(root)
	if err != nil {
		return "infra", err.Error()
	}
	rel := strings.TrimPrefix(abs, "/")
	base, err := fsutil.NewFS("/")
	if err != nil {
		return "infra", err.Error()
	}
	view, err := fsutil.NewFilterFS(base, &fsutil.FilterOpt{IncludePatterns: []string{rel}})
	if err != nil {
		return "view-failed", err.Error()
	}
	var got []string
	err = view.Walk(context.Background(), "/", func(p string, e gofs.DirEntry, err error) error {
		if err != nil {
			return err
		}
		if strings.HasPrefix(p, rel+"/") {
			got = append(got, strings.TrimPrefix(p, rel+"/"))
		}
		return nil
	})
	if err != nil {
		return "walk-failed", err.Error()
	}
	want := c.Tree.Clone()
	want.Sort()
	if strings.Join(got, " ") != strings.Join(want.Paths(), " ") {
		return "view-differs-from-reference", fmt.Sprintf("a view rooted at / with include %q reports %q below it, the directory holds %q", rel, got, want.Paths())
	}
	for _, n := range want {
		if n.Kind != fsmodel.File {
			continue
		}
		rc, err := view.Open(rel + "/" + n.Path)
		if err != nil {
			return "reported-file-cannot-be-opened", fmt.Sprintf("view rooted at /: %q is reported but Open fails: %v", rel+"/"+n.Path, err)
		}
		data, _ := io.ReadAll(rc)
		rc.Close()
		if !bytes.Equal(data, n.Data) {
			return "open-wrong-bytes", fmt.Sprintf("view rooted at /: %q yields %d bytes, the file has %d", n.Path, len(data), len(n.Data))
		}
	}
	return "", ""
}

func judgeC11Raw(c c11Case) (string, string) {
	if c.Under == "fsroot" {
		return judgeC11FsRoot(c)
	}
	root := scratch.Dir("view")
	defer scratch.Remove(root)
	srcDir, dst := filepath.Join(root, "src"), filepath.Join(root, "dst")
	os.Mkdir(srcDir, 0755)
	os.Mkdir(dst, 0755)
	if c.Under != "mem" && c.Under != "multi" {
		if err := fsmodel.Materialize(c.Tree, srcDir); err != nil {
			return "infra", err.Error()
		}
	}
	view, _, err := buildView(c, srcDir)
	if err != nil {
		return "view-failed", err.Error()
	}
	if c.Reset {
		view = fsutil.WithHardlinkReset(view)
	}
	// what the view reports
	type ent struct {
		path string
		st   *types.Stat
	}
	var listed []ent
	err = view.Walk(context.Background(), "/", func(p string, e gofs.DirEntry, err error) error {
		if err != nil {
			return err
		}
		fi, err := e.Info()
		if err != nil {
			return err
		}
		listed = append(listed, ent{p, fi.Sys().(*types.Stat)})
		return nil
	})
	if err != nil {
		return "walk-failed", err.Error()
	}
	inView := map[string]bool{}
	sizeOf := map[string]int64{}
	var listedPaths []string
	for _, e := range listed {
		inView[e.path] = true
		listedPaths = append(listedPaths, e.path)
		if e.st.Mode&uint32(os.ModeType) == 0 && e.st.Linkname == "" {
			sizeOf[e.path] = e.st.Size
		}
	}
	// (3) walk/open agreement
	pre := ""
	if c.Under == "subdir" || c.Under == "wrapped" {
		pre = "s/"
	}
	// (0) the view is the filtered view: naive evaluation of include patterns followed by the follow-path targets
	// (every link traversed and the final location, by the independent resolver), then the exclude patterns
	if k, m := c11ViewIsReference(c, pre, listedPaths); k != "" {
		return k, m
	}
	for _, n := range c.Tree {
		if n.Kind != fsmodel.File {
			continue
		}
		p := pre + n.Path
		rc, oerr := view.Open(p)
		var data []byte
		if oerr == nil {
			data, _ = io.ReadAll(rc)
			rc.Close()
		}
		switch {
		case inView[p] && oerr != nil:
			key := "reported-file-cannot-be-opened"
			if pmClass(c, n.Path) {
				key = "pm-incremental"
			}
			return key, fmt.Sprintf("the filtered walk reports %q but opening it through the same view fails: %v", p, oerr)
		case inView[p] && !bytes.Equal(data, n.Data):
			return "open-wrong-bytes", fmt.Sprintf("%q opened through the view yields %d bytes, file has %d", p, len(data), len(n.Data))
		case inView[p] && sizeOfHas(sizeOf, p) && sizeOf[p] != int64(len(data)):
			// an entry reported as a file in its own right (not as a link) announces the bytes it yields
			return "size-differs-from-opened-bytes", fmt.Sprintf("the view reports %q as a regular file of %d bytes, opening it yields %d", p, sizeOf[p], len(data))
		case !inView[p] && oerr == nil && !(c.Under == "map" && n.Path == "a/x"):
			key := "hidden-file-can-be-opened"
			if pmClass(c, n.Path) {
				key = "pm-incremental"
			}
			return key, fmt.Sprintf("%q is not reported by the filtered walk but can be opened through the view", p)
		}
	}
	// (1)+(2) transfer the view
	rounds := 1
	if c.Reset {
		rounds = 2
	}
	for round := 1; round <= rounds; round++ {
		if round > 1 {
			os.RemoveAll(dst)
			os.Mkdir(dst, 0755)
		}
		if k, m := c11Transfer(c, view, dst, pre, listedPaths, false); k != "" {
			if round > 1 {
				return "reuse-" + k, fmt.Sprintf("transfer #%d of the same view value: %s", round, m)
			}
			return k, m
		}
	}
	// history: the destination already holds the UNFILTERED tree (an earlier transfer, before the filter was configured):
	// hard-link groups are there, linked to a first name the filter now hides
	hasHL := false
	for _, n := range c.Tree {
		hasHL = hasHL || (n.HL > 0 && n.Kind == fsmodel.File)
	}
	if hasHL && !c.Reset && (c.Under == "disk" || c.Under == "mem") && len(c.Include)+len(c.Exclude) > 0 && len(c.Follow) == 0 {
		plain := c
		plain.Include, plain.Exclude, plain.Follow, plain.FollowEmpty = nil, nil, nil, false
		pv, _, err := buildView(plain, srcDir)
		if err != nil {
			return "view-failed", err.Error()
		}
		os.RemoveAll(dst)
		os.Mkdir(dst, 0755)
		if r0 := xfer.Run(pv, dst, fsutil.ReceiveOpt{}, nil); !r0.OK() {
			return "transfer-failed", fmt.Sprintf("unfiltered transfer: send=%v recv=%v", r0.SendErr, r0.RecvErr)
		}
		if k, m := c11Transfer(c, view, dst, pre, listedPaths, true); k != "" {
			return "after-unfiltered-" + k, "into a destination that holds the unfiltered tree: " + m
		}
	}
	return "", ""
}

// c11Transfer sends the view into dst and judges the stream and the destination.
func c11Transfer(c c11Case, view fsutil.FS, dst, pre string, listed []string, dirty bool) (string, string) {
	res := xfer.Run(view, dst, fsutil.ReceiveOpt{}, nil)
	if res.TimedOut {
		return "timeout", "transfer timed out"
	}
	var val fsutil.Validator
	var hl fsutil.Hardlinks
	for i, st := range res.Log.Stats() {
		if err := val.HandleChange(fsutil.ChangeKindAdd, st.Path, &fsutil.StatInfo{Stat: st}, nil); err != nil {
			return "stream-not-ordered", fmt.Sprintf("STAT #%d %q rejected by a fresh validator: %v", i, st.Path, err)
		}
		if err := hl.HandleChange(fsutil.ChangeKindAdd, st.Path, &fsutil.StatInfo{Stat: st}, nil); err != nil {
			return "stream-link-to-missing-entry", fmt.Sprintf("STAT #%d %q: %v", i, st.Path, err)
		}
	}
	if res.SendErr != nil || res.RecvErr != nil {
		return "transfer-failed", fmt.Sprintf("send=%v recv=%v", res.SendErr, res.RecvErr)
	}
	// expected destination: the listed entries, hard-link groups restricted to listed members
	var want fsmodel.Tree
	for _, path := range listed {
		rel := strings.TrimPrefix(path, pre)
		var n fsmodel.Node
		if pre != "" && path == "s" {
			n = fsmodel.Node{Path: "s", Kind: fsmodel.Dir, Perm: 0755}
		} else {
			sn := c.Tree.Find(rel)
			if sn == nil {
				return "walk-reports-unknown-path", path
			}
			n = *sn
			n.Path = path
		}
		want = append(want, n)
	}
	want = fixGroups(want)
	want.Sort()
	got, err := fsmodel.Snapshot(dst)
	if err != nil {
		return "infra", err.Error()
	}
	mask := fsmodel.Mask{NoXattrOf: func(n fsmodel.Node) bool { return n.Kind != fsmodel.File && n.Kind != fsmodel.Dir },
		DirMtime: func(p string) bool { return p == "s" || dirty }} // (times of directories the destination already had: C01)
	for _, n := range c.Tree {
		if n.HL > 0 && n.Kind != fsmodel.File {
			// link members that are special files are announced as links but created as separate
			// nodes by the receiver; the property speaks of regular files only
			mask.NoHardlinks = true
		}
	}
	if d := fsmodel.Diff(sourceView(want), got, mask); len(d) > 0 {
		key := "dest-differs:" + diffClass(d[0])
		return key, strings.Join(head(d, 5), " | ")
	}
	return "", ""
}

// c11Includes: the include list the view is defined by (nil when a follow path reaches the root).
func c11Includes(c c11Case) []string {
	inc := append([]string{}, c.Include...)
	var targets []string
	for _, f := range c.Follow {
		links, final, _ := resolveRef(c.Tree, f)
		if final == "" {
			return nil // the root is followed: everything is included
		}
		targets = append(append(targets, links...), final)
	}
	sortStrings(targets)
	for i, t := range targets {
		nested := i > 0 && targets[i-1] == t
		for _, g := range targets {
			if g != t && strings.HasPrefix(t, g+"/") {
				nested = true
			}
		}
		if !nested {
			inc = append(inc, t)
		}
	}
	return inc
}

func c11ViewIsReference(c c11Case, pre string, listed []string) (string, string) {
	inc := c11Includes(c)
	render := func(kept map[string]bool) string {
		var out []string
		// the sub-root entry: the composite always reports it; a filter ON TOP of the composite reports it when
		// there is no include list (nothing can exclude it: all patterns are below it) or as an ancestor
		if c.Under == "wrapped" || (c.Under == "subdir" && (len(inc) == 0 || len(kept) > 0)) {
			out = append(out, "s")
		}
		if c.Under == "map" && kept["a/x"] {
			// dropped by the map function after matching: it no longer keeps its ancestors alive either
			k2 := map[string]bool{}
			for p := range kept {
				if p != "a/x" {
					k2[p] = true
				}
			}
			kept = k2
		}
		for _, p := range closure(c.Tree, kept) {
			out = append(out, pre+p)
		}
		return strings.Join(out, " ")
	}
	nk, err := naiveKept(c.Tree, inc, c.Exclude)
	if err != nil {
		return "infra", err.Error()
	}
	got := strings.Join(listed, " ")
	if got == render(nk) {
		return "", ""
	}
	ck, err := chainKept(c.Tree, inc, c.Exclude)
	if err == nil && got == render(ck) {
		return "pm-incremental", fmt.Sprintf("the view lists [%s], naive evaluation gives [%s]; an unpruned chain of MatchesUsingParentResults gives the view's listing (dependency moby/patternmatcher)", got, render(nk))
	}
	return "view-differs-from-reference", fmt.Sprintf("the view lists [%s]; naive evaluation of include %q exclude %q gives [%s]", got, inc, c.Exclude, render(nk))
}

// pmClass: does the naive matcher entry point disagree with the incremental chain
// for this path under the case's pattern lists (the known dependency finding)?
func pmClass(c c11Case, p string) bool {
	inc := c.Include
	if len(c.Follow) > 0 {
		// follow paths become include patterns: every link traversed and the final location, as the independent
		// resolver of C18 computes them
		inc = append([]string{}, c.Include...)
		for _, f := range c.Follow {
			links, final, _ := resolveRef(c.Tree, f)
			inc = append(inc, links...)
			if final == "" {
				return false // the root is reached: no include filtering at all
			}
			inc = append(inc, final)
		}
	}
	nk, err1 := naiveKept(c.Tree, inc, c.Exclude)
	ck, err2 := chainKept(c.Tree, inc, c.Exclude)
	return err1 == nil && err2 == nil && nk[p] != ck[p]
}

var c11Patterns = []string{"a", "ab", "a/x", "a/*", "*/x", "**/y", "c", "!a/x", "!ab", "*", "!a", "*/*"}

func c11Tree(lab []int, withLink bool, kind fsmodel.Kind) fsmodel.Tree {
	// "ab" next to "a": a directory name that is a string prefix of its sibling
	files := []string{"a/x", "a/y", "ab/x", "c"}
	t := fsmodel.Tree{{Path: "a", Kind: fsmodel.Dir, Perm: 0755, Mtime: fsmodel.T0 + 1}, {Path: "ab", Kind: fsmodel.Dir, Perm: 0750, Mtime: fsmodel.T0 + 2}}
	for i, p := range files {
		seed := 10 + i
		if lab[i] > 0 {
			seed = 50 + lab[i]
		}
		n := fsmodel.Node{Path: p, Kind: kind, Perm: 0644, Mtime: fsmodel.T0 + int64(seed), HL: lab[i]}
		if kind == fsmodel.File {
			n.Data = fsmodel.Content(seed, 6)
		}
		if kind == fsmodel.Symlink {
			n.Perm, n.Link = 0777, fmt.Sprintf("../target-%d", seed)
			n.Xattrs = map[string]string{"trusted.s": fmt.Sprint(seed)} // links carry attributes of their own
		}
		if kind == fsmodel.File && lab[i] > 0 {
			n.Xattrs = map[string]string{"user.g": fmt.Sprint(lab[i])} // reported for every name of the inode
		}
		t = append(t, n)
	}
	if withLink {
		t = append(t, fsmodel.Node{Path: "l", Kind: fsmodel.Symlink, Perm: 0777, Mtime: fsmodel.T0 + 9, Link: "a/x"})
	}
	t.Sort()
	return t
}

func runC11(r *evid.Run) {
	r.Technique = "bounded-exhaustive enumeration of (hard-link partition, include list, exclude list, follow paths, layer under the filter); every case one real filtered Send/Receive plus Open of every file through the view; oracle = fresh validators on the STAT log, independent snapshot vs the view's own listing, walk/open agreement"
	r.Rule = "one evaluation = one filtered view (walked, every file opened, transferred); non-trivial = cases with at least one pattern or follow path; states = distinct cases"
	r.Assume = []string{"which entries a pattern list keeps is C10's subject; here the view's own listing is the expectation and self-containedness is judged", "walk/open disagreements are attributed to the dependency (known finding pm-incremental) only when naive and incremental matcher entry points disagree on that very path"}
	parts := fsmodel.Partitions(4)
	inc := patternLists(2, c11Patterns)
	exc := patternLists(1, c11Patterns)
	if r.Tier == "thorough" {
		exc = patternLists(2, c11Patterns)
	}
	var cases []c11Case
	for _, lab := range parts {
		t := c11Tree(lab, false, fsmodel.File)
		for _, under := range []string{"disk", "filter", "map", "subdir", "mem", "wrapped"} {
			for _, in := range inc {
				for _, ex := range exc {
					if r.Tier != "thorough" && under != "disk" && under != "mem" && len(in)+len(ex) > 2 {
						continue
					}
					cases = append(cases, c11Case{Tree: t, Include: in, Exclude: ex, Under: under})
				}
			}
		}
		// hard-link groups of special files (fifos), whose first name is hidden by a lower layer
		tf := c11Tree(lab, false, fsmodel.Fifo)
		for _, under := range []string{"map", "filter", "disk", "mem"} {
			for _, in := range patternLists(1, c11Patterns) {
				for _, ex := range patternLists(1, c11Patterns) {
					cases = append(cases, c11Case{Tree: tf, Include: in, Exclude: ex, Under: under})
				}
			}
		}
		// the view behind one exported hard-link reset layer, used three times
		for _, under := range []string{"disk", "filter", "map", "mem", "wrapped"} {
			for _, in := range patternLists(1, c11Patterns) {
				for _, ex := range patternLists(1, c11Patterns) {
					cases = append(cases, c11Case{Tree: t, Include: in, Exclude: ex, Under: under, Reset: true})
				}
			}
		}
		tl := c11Tree(lab, true, fsmodel.File)
		// follow paths are resolved by walking sub-targets, which a composite of sub-roots does not
		// support (it always reports the sub-root entry first); that layer is left out here
		for _, under := range []string{"disk", "filter", "mem", "map"} {
			for _, fp := range [][]string{{"a"}, {"l"}, {"l", "ab"}, {"a/y", "l"}} {
				for _, ex := range exc {
					cases = append(cases, c11Case{Tree: tl, Follow: fp, Exclude: ex, Under: under})
				}
				for _, in := range patternLists(1, c11Patterns) {
					cases = append(cases, c11Case{Tree: tl, Follow: fp, Include: in, Under: under})
				}
				// include lists with an exception: the follow targets come after it
				if under == "disk" || under == "mem" {
					for _, in := range inc {
						if len(in) == 2 && (strings.HasPrefix(in[0], "!") || strings.HasPrefix(in[1], "!")) {
							cases = append(cases, c11Case{Tree: tl, Follow: fp, Include: in, Under: under})
						}
					}
				}
			}
		}
	}
	// a view rooted at the root of the file system
	for _, lab := range fsmodel.Partitions(4)[:3] {
		cases = append(cases, c11Case{Tree: c11Tree(lab, false, fsmodel.File), Under: "fsroot"})
	}
	// a filter on top of a composite of three sub-roots: patterns (and the walk's pruning) that drop one of them
	{
		multi := c11MultiTree()
		mp := []string{"p", "p1", "r", "p1/a", "p/a/x", "*/y", "!p1", "r/z", "**/x"}
		for _, in := range patternLists(2, mp) {
			for _, ex := range patternLists(1, mp) {
				cases = append(cases, c11Case{Tree: multi, Include: in, Exclude: ex, Under: "multi"})
				if len(in)+len(ex) <= 1 {
					// the constructor sorts what it is handed: every order of the three sub-roots
					for o := 1; o < 6; o++ {
						cases = append(cases, c11Case{Tree: multi, Include: in, Exclude: ex, Under: "multi", Order: o})
					}
				}
			}
		}
	}
	// a deeper tree: patterns that select a directory through "**" or by a middle component, files several levels
	// below it (walk and Open must agree at every depth)
	{
		T := fsmodel.T0
		f := func(p string, seed, hl int) fsmodel.Node {
			return fsmodel.Node{Path: p, Kind: fsmodel.File, Perm: 0644, Mtime: T + int64(seed), Data: fsmodel.Content(seed, 5), HL: hl}
		}
		dd := func(p string) fsmodel.Node { return fsmodel.Node{Path: p, Kind: fsmodel.Dir, Perm: 0755, Mtime: T} }
		deep := fsmodel.Tree{dd("a"), dd("a/d"), dd("a/d/v"), f("a/d/v/f", 70, 1), f("a/d/v/g", 71, 0), dd("a/d/v/w"), f("a/d/v/w/h", 72, 0), f("c", 70, 1), dd("v"), f("v/top", 73, 0)}
		deep.Sort()
		pats := []string{"**/v", "a/d", "**/d", "*/d/v", "!a/d/v/g", "a", "**/w", "v"}
		for _, in := range patternLists(2, pats) {
			for _, ex := range patternLists(1, pats) {
				for _, under := range []string{"disk", "mem", "filter"} {
					cases = append(cases, c11Case{Tree: deep, Include: in, Exclude: ex, Under: under})
				}
			}
		}
		// an excluded directory with exceptions in several of its sub-directories, in both orders; an empty follow list
		for _, ex := range [][]string{{"a", "!a/d/v/w/h", "!a/d/v/f"}, {"a", "!a/d/v/f", "!a/d/v/w/h"}, {"**/v", "!a/d/v/g", "!v/top"}, {"a", "!a/d/v/w", "!a/d/v/g", "!c"}} {
			for _, under := range []string{"disk", "mem"} {
				cases = append(cases, c11Case{Tree: deep, Exclude: ex, Under: under}, c11Case{Tree: deep, Include: []string{"a", "v"}, Exclude: ex, Under: under})
			}
		}
		for _, in := range patternLists(1, pats) {
			for _, ex := range patternLists(1, pats) {
				cases = append(cases, c11Case{Tree: deep, Include: in, Exclude: ex, Under: "mem", FollowEmpty: true})
			}
		}
	}
	r.Set("cases", len(cases))
	par.Do(len(cases), par.Workers(), func(i int) {
		c := cases[i]
		key, msg := judgeC11(c)
		r.Evaluations.Add(1)
		r.StateH(evid.H(c.String()))
		if len(c.Include)+len(c.Exclude)+len(c.Follow) > 0 {
			r.Nontrivial(c.String())
		}
		if i%20000 == 13 {
			r.Sample(map[string]any{"case": c.String(), "result": key})
		}
		if key != "" {
			r.Violate(key, c.String()+": "+msg, c)
		}
	})
}

func replayC11(raw json.RawMessage) string {
	var c c11Case
	if err := json.Unmarshal(raw, &c); err != nil {
		return "bad case: " + err.Error()
	}
	k, m := judgeC11(c)
	if k == "" {
		return ""
	}
	return k + ": " + m
}

func sizeOfHas(m map[string]int64, p string) bool { _, ok := m[p]; return ok }

// judgeC11 is judgeC11Raw with a panic of the code under test turned into a verdict (never a crash of the check).
func judgeC11(c c11Case) (k, m string) {
	defer func() {
		if r := recover(); r != nil {
			k, m = "panic", fmt.Sprintf("the code under test panicked: %v", r)
		}
	}()
	return judgeC11Raw(c)
}
