package checks

import (
	"encoding/json"
	"fmt"
	"os"
	"os/exec"
	"path/filepath"
	"strings"

	"github.com/tonistiigi/fsutil"
	"verif/evid"
	"verif/fsmodel"
	"verif/memfs"
	"verif/par"
	"verif/scratch"
	"verif/xfer"
)

// API-level part of C07. The schedule-exploring part (harness/sched/c07.go) runs thousands of receives in one
// process; what a receiver does as the FIRST thing in a fresh process - after a crash and a restart - is out of its
// reach. Here every case is one real transfer in a process of its own, into what a killed earlier receive left behind:
// temporary entries under the names the disk writer uses.

func init() {
	register("C07", runC07, replayC07)
	Children["c07one"] = childC07one
}

type c07pCase struct {
	Src   fsmodel.Tree `json:"src"`
	Dst   fsmodel.Tree `json:"dst"`
	Merge bool         `json:"merge,omitempty"`
}

func (c c07pCase) String() string {
	return fmt.Sprintf("first transfer of a fresh process: src=%s prior-destination=%s merge=%v", c.Src, c.Dst, c.Merge)
}

// childC07one: args = dest dir, merge flag, source tree as JSON. One transfer, then exit.
func childC07one(args []string) int {
	var src fsmodel.Tree
	if len(args) < 3 || json.Unmarshal([]byte(args[2]), &src) != nil {
		return 3
	}
	res := xfer.Run(memfs.New(src), args[0], fsutil.ReceiveOpt{Merge: args[1] == "true"}, nil)
	out := map[string]string{}
	if res.SendErr != nil {
		out["send"] = res.SendErr.Error()
	}
	if res.RecvErr != nil {
		out["recv"] = res.RecvErr.Error()
	}
	json.NewEncoder(os.Stdout).Encode(out)
	return 0
}

func c07pCases() []c07pCase {
	T := fsmodel.T0
	f := func(p string, seed, size int, mt int64) fsmodel.Node {
		return fsmodel.Node{Path: p, Kind: fsmodel.File, Perm: 0644, Mtime: T + mt, Data: fsmodel.Content(seed, size)}
	}
	d := func(p string, mt int64) fsmodel.Node {
		return fsmodel.Node{Path: p, Kind: fsmodel.Dir, Perm: 0755, Mtime: T + mt}
	}
	src := fsmodel.Tree{f(".env", 61, 5, 50), f("a", 62, 7, 51), d("sub", 52), f("sub/.cfg", 63, 4, 53), f("sub/z", 64, 40000, 54)}
	src.Sort()
	var out []c07pCase
	// leftovers named with the first suffixes of every scheme a writer could use: a counter from 0 or 1, the process
	// id, and - for the scheme in use - nothing predictable at all
	for _, width := range []int{9, 1} {
		old := fsmodel.Tree{f(".env", 71, 9, 1), f("a", 72, 8, 2), d("sub", 52), f("sub/.cfg", 73, 6, 3), f("sub/z", 74, 50000, 4)}
		for i := 0; i <= 12; i++ {
			n := fmt.Sprintf(".tmp.%0*d", width, i)
			old = append(old, f(n, 80+i, 100, 0), f("sub/"+n, 90+i, 60000, 0))
		}
		old.Sort()
		for _, merge := range []bool{false, true} {
			out = append(out, c07pCase{Src: src, Dst: old, Merge: merge})
		}
	}
	out = append(out, c07pCase{Src: src, Dst: nil})
	return out
}

func judgeC07p(c c07pCase) (string, string) {
	dest := scratch.Dir("c07p")
	defer scratch.Remove(dest)
	if err := fsmodel.Materialize(c.Dst, dest); err != nil {
		return "infra", err.Error()
	}
	before, err := fsmodel.Snapshot(dest)
	if err != nil {
		return "infra", err.Error()
	}
	self, _ := os.Executable()
	sj, _ := json.Marshal(c.Src)
	cmd := exec.Command(self, "child", "c07one", dest, fmt.Sprint(c.Merge), string(sj))
	var stderr strings.Builder
	cmd.Stderr = &stderr
	b, err := cmd.Output()
	if err != nil {
		return "infra", fmt.Sprintf("child: %v: %s", err, firstLine(stderr.String()))
	}
	var res map[string]string
	if json.Unmarshal(b, &res) != nil {
		return "infra", "bad child output"
	}
	if len(res) != 0 {
		return "transfer-failed:fresh-process", fmt.Sprintf("send: %q receive: %q", res["send"], res["recv"])
	}
	got, err := fsmodel.Snapshot(dest)
	if err != nil {
		return "infra", err.Error()
	}
	want := sourceView(c.Src)
	if c.Merge {
		want = overlay(before, want)
	}
	// (the time of a directory the destination already had is not restored after its children changed: C01)
	mask := fsmodel.Mask{DirMtime: func(p string) bool { n := before.Find(p); return n != nil && n.Kind == fsmodel.Dir }}
	if d := fsmodel.Diff(want, got, mask); len(d) > 0 {
		return "dest-differs:fresh-process", strings.Join(head(d, 4), " | ")
	}
	return "", ""
}

func runC07(r *evid.Run) {
	r.Technique = "one real Send/Receive per freshly started process into the leftovers of a killed receive (temporary entries under the disk writer's naming scheme with the first suffixes of every width); oracle: destination equals the source view (merge: the overlay)"
	r.Rule = "API part: one evaluation = one transfer in a process of its own"
	r.Assume = []string{"API part: state that a process accumulates (counters, pools, seeds) is at its initial value only once per process, so each case is its own process"}
	cs := c07pCases()
	par.Do(len(cs), par.Workers(), func(i int) {
		k, m := judgeC07p(cs[i])
		r.Evaluations.Add(1)
		r.StateH(evid.H(cs[i].String()))
		r.Nontrivial(cs[i].String())
		if k != "" {
			r.Violate(k, cs[i].String()+": "+m, cs[i])
		}
	})
	r.Set("fresh_process_transfers", len(cs))
	r.Sample(map[string]any{"case": cs[0].String()})
	_ = filepath.Join
}

func replayC07(raw json.RawMessage) string {
	var c c07pCase
	if err := json.Unmarshal(raw, &c); err != nil {
		return "infra: " + err.Error()
	}
	k, m := judgeC07p(c)
	if k == "" {
		return ""
	}
	return k + ": " + m
}
