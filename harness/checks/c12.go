package checks

import (
	"encoding/json"
	"fmt"
	"os"
	"path"
	"reflect"
	"sort"
	"strings"
	"sync"

	"github.com/tonistiigi/fsutil"
	"github.com/tonistiigi/fsutil/types"
	"verif/evid"
	"verif/fsmodel"
	"verif/par"
)

func init() { register("C12", runC12, replayC12) }

// ---- specification (written from the property text) ----

type vEvent struct {
	Kind int    `json:"kind"` // 0 dir, 1 file, 2 delete, 3 modified dir, 4 modified file
	Path string `json:"path"`
}

type specState struct {
	last string
	any  bool
	dirs map[string]bool
}

func (s *specState) clone() *specState {
	n := &specState{last: s.last, any: s.any, dirs: map[string]bool{}}
	for k := range s.dirs {
		n.dirs[k] = true
	}
	return n
}

func (s *specState) key() string {
	d := make([]string, 0, len(s.dirs))
	for k := range s.dirs {
		d = append(d, k)
	}
	sort.Strings(d)
	return fmt.Sprintf("%v|%q|%q", s.any, s.last, d)
}

// accept applies the 15-line specification.
func (s *specState) accept(e vEvent) bool {
	p := e.Path
	if p == "" || path.Clean(p) != p || strings.HasPrefix(p, "/") {
		return false
	}
	if p == "." || p == ".." || strings.HasPrefix(p, "../") {
		return false
	}
	if s.any && fsmodel.ComparePaths(s.last, p) >= 0 {
		return false
	}
	if i := strings.LastIndexByte(p, '/'); i >= 0 && !s.dirs[p[:i]] {
		return false
	}
	s.last, s.any = p, true
	if e.Kind == 0 || e.Kind == 3 {
		s.dirs[p] = true
	}
	return true
}

func evInfo(e vEvent) (fsutil.ChangeKind, os.FileInfo) {
	mode := uint32(0644)
	if e.Kind == 0 || e.Kind == 3 {
		mode = uint32(os.ModeDir | 0755)
	}
	// kinds 5..10: the other entry types, added as non-directories
	switch e.Kind {
	case 5:
		mode = uint32(os.ModeSymlink | 0777)
	case 6:
		mode = uint32(os.ModeDevice | os.ModeCharDevice | 0666)
	case 7:
		mode = uint32(os.ModeDevice | 0660)
	case 8:
		mode = uint32(os.ModeNamedPipe | 0600)
	case 9:
		mode = uint32(os.ModeSocket | 0755)
	case 10:
		mode = uint32(os.ModeSetuid | os.ModeSetgid | os.ModeSticky | 0755)
	}
	k := fsutil.ChangeKindAdd
	if e.Kind == 2 {
		k = fsutil.ChangeKindDelete
	}
	if e.Kind == 3 || e.Kind == 4 {
		k = fsutil.ChangeKindModify // what the differ emits for an entry whose metadata or content changed
	}
	return k, &fsutil.StatInfo{Stat: &types.Stat{Path: e.Path, Mode: mode}}
}

// dumpValue renders every field (exported or not) of a value canonically.
func dumpValue(v reflect.Value, sb *strings.Builder) {
	switch v.Kind() {
	case reflect.String:
		fmt.Fprintf(sb, "%q", v.String())
	case reflect.Int, reflect.Int8, reflect.Int16, reflect.Int32, reflect.Int64:
		fmt.Fprintf(sb, "%d", v.Int())
	case reflect.Uint, reflect.Uint8, reflect.Uint16, reflect.Uint32, reflect.Uint64:
		fmt.Fprintf(sb, "%d", v.Uint())
	case reflect.Bool:
		fmt.Fprintf(sb, "%v", v.Bool())
	case reflect.Slice, reflect.Array:
		sb.WriteString("[")
		for i := 0; i < v.Len(); i++ {
			dumpValue(v.Index(i), sb)
			sb.WriteString(",")
		}
		sb.WriteString("]")
	case reflect.Struct:
		sb.WriteString("{")
		for i := 0; i < v.NumField(); i++ {
			dumpValue(v.Field(i), sb)
			sb.WriteString(";")
		}
		sb.WriteString("}")
	case reflect.Ptr, reflect.Interface:
		if v.IsNil() {
			sb.WriteString("nil")
		} else {
			dumpValue(v.Elem(), sb)
		}
	case reflect.Map:
		keys := v.MapKeys()
		strs := make([]string, len(keys))
		for i, k := range keys {
			var b strings.Builder
			dumpValue(k, &b)
			b.WriteString("=")
			dumpValue(v.MapIndex(k), &b)
			strs[i] = b.String()
		}
		sort.Strings(strs)
		sb.WriteString("map" + strings.Join(strs, ","))
	default:
		fmt.Fprintf(sb, "?%s", v.Kind())
	}
}

func dumpValidator(v *fsutil.Validator) string {
	var sb strings.Builder
	dumpValue(reflect.ValueOf(v).Elem(), &sb)
	return sb.String()
}

// runSeq replays a history on a fresh real validator and a fresh spec; it returns
// the index of the first disagreement (or -1), and both verdict lists.
func runSeq(seq []vEvent) (bad int, real, spec []bool, dump, skey string) {
	v := &fsutil.Validator{}
	s := &specState{dirs: map[string]bool{}}
	bad = -1
	for i, e := range seq {
		k, fi := evInfo(e)
		var ra bool
		func() {
			defer func() {
				if r := recover(); r != nil {
					ra = false
					bad = i
				}
			}()
			ra = v.HandleChange(k, e.Path, fi, nil) == nil
		}()
		sa := s.accept(e)
		real, spec = append(real, ra), append(spec, sa)
		if ra != sa && bad < 0 {
			bad = i
		}
		if !ra || !sa {
			break
		}
	}
	return bad, real, spec, dumpValidator(v), s.key()
}

func c12Alphabet(tier string) []vEvent {
	paths := []string{"", ".", "..", "../a", "/a", "a", "a/", "a/.", "a/..", "a/b", "a/b/c", "a-b", "a/c", "b", "ab"}
	if tier == "thorough" {
		paths = append(paths, "a/../..", "a//b", "a/./b", "a-b/c", "a/b-", "a/b/../../..", "./a", "a0", "..a", "a/..b", "...")
	}
	var out []vEvent
	for _, p := range paths {
		for k := 0; k < 5; k++ {
			out = append(out, vEvent{Kind: k, Path: p})
		}
	}
	return out
}

// c12ByteAlphabet: first bytes that sort before '.' and before '/', and names that are not valid UTF-8 (legal file
// names), next to an ordinary name and a genuine escape.
func c12ByteAlphabet(tier string) []vEvent {
	var out []vEvent
	for _, p := range []string{"..", "a", "-a", "-a/b", "+", "+/x", "a/-b", "a/-b/c", "caf\xe9", "caf\xe9/x", "a/\xff", "\xc3"} {
		for k := 0; k < 5; k++ {
			out = append(out, vEvent{Kind: k, Path: p})
		}
	}
	return out
}

// c12TypeAlphabet: every entry type at a top-level and a nested path (the validator judges paths, not types).
func c12TypeAlphabet(tier string) []vEvent {
	var out []vEvent
	for _, p := range []string{"a", "a/b", "b"} {
		for k := 0; k <= 10; k++ {
			if k != 2 && k != 3 && k != 4 {
				out = append(out, vEvent{Kind: k, Path: p})
			}
		}
	}
	return out
}

// c12LongAlphabet: paths far longer than a single name may be (three components of 100 bytes, a 255-byte name below a
// 255-byte name).
func c12LongAlphabet(tier string) []vEvent {
	x, y, z, n := strings.Repeat("x", 100), strings.Repeat("y", 100), strings.Repeat("z", 100), strings.Repeat("n", 255)
	var out []vEvent
	for _, p := range []string{x, x + "/" + y, x + "/" + y + "/" + z, n, n + "/" + n, "a"} {
		for k := 0; k < 2; k++ {
			out = append(out, vEvent{Kind: k, Path: p})
		}
	}
	return out
}

// c12SiblingAlphabet: several directories at the same depth, each with children whose names sort before, between and
// after those of the others (what an earlier directory leaves behind at a depth must not matter to the next one).
func c12SiblingAlphabet(tier string) []vEvent {
	var out []vEvent
	for _, p := range []string{"a", "a/m", "a/m/q", "a/z", "b", "b/c", "b/m", "b/m/a", "c", "c/d"} {
		for k := 0; k < 5; k++ {
			if (k == 3 || k == 4) && strings.Count(p, "/") == 2 {
				continue
			}
			out = append(out, vEvent{Kind: k, Path: p})
		}
	}
	return out
}

// c12PrefixAlphabet: entries below a directory that was never sent and whose name extends (as a string) the name
// of a directory that was.
func c12PrefixAlphabet(tier string) []vEvent {
	var out []vEvent
	for _, p := range []string{"a", "ab", "ab/c", "a/b", "a/bc", "a/bc/d", "a.2/x", "b"} {
		for k := 0; k < 5; k++ {
			out = append(out, vEvent{Kind: k, Path: p})
		}
	}
	return out
}

// c12DotAlphabet: names that begin with dots without being "." or ".." (volume layouts such as ..data/), at the
// first level and below a directory, next to the genuine escapes.
func c12DotAlphabet(tier string) []vEvent {
	paths := []string{"..", "../a", "..a", "..a/b", "..a/..", "..a/..b", "...", ".../a", ".a", ".a/b", "a", "a/..b", "a/..b/c", "a/...", "a/.b"}
	var out []vEvent
	for _, p := range paths {
		for k := 0; k < 5; k++ {
			out = append(out, vEvent{Kind: k, Path: p})
		}
	}
	return out
}

// c12DeepAlphabet: a chain of directories deeper than the validator's initial
// stack capacity, with siblings at the deep levels.
func c12DeepAlphabet(tier string) []vEvent {
	depth := 12
	if tier == "thorough" {
		depth = 22
	}
	var out []vEvent
	p := ""
	for i := 1; i <= depth; i++ {
		if p != "" {
			p += "/"
		}
		p += "d"
		out = append(out, vEvent{Kind: 0, Path: p})
		// siblings around the depths at which the validator's stack grows (10, and 20 in the thorough tier)
		if (i >= 7 && i <= 12) || i >= 18 {
			out = append(out, vEvent{Kind: 0, Path: p + "x"}, vEvent{Kind: 1, Path: p + "x"}, vEvent{Kind: 1, Path: p + "a"}, vEvent{Kind: 2, Path: p + "m"})
		}
	}
	return out
}

func runC12(r *evid.Run) {
	r.Technique = "explicit-state BFS of the product (real Validator state dump x specification state) over a finite event alphabet, to closure; exhaustive enumeration of all path pairs/triples for the order axioms"
	r.Rule = "states = distinct (real validator private-state dump, spec state) pairs reached by BFS over all event histories; non-trivial = accepted histories of length>=2 plus every string pair with differing strings"
	r.Assume = []string{"validator state observed by a reflection dump of all its fields (no abstraction)", "alphabet of paths and kinds is finite; closure is over that alphabet"}

	// ---- part 1: order axioms, exhaustive over short strings ----
	alpha := []byte{'-', '.', '/', '0', 'a', 'b'}
	maxLen := 4
	var strs []string
	var gen func(prefix []byte)
	gen = func(prefix []byte) {
		strs = append(strs, string(prefix))
		if len(prefix) == maxLen {
			return
		}
		for _, c := range alpha {
			gen(append(prefix, c))
		}
	}
	gen(nil)
	sign := func(x int) int {
		switch {
		case x < 0:
			return -1
		case x > 0:
			return 1
		}
		return 0
	}
	var mu sync.Mutex
	pairs := int64(0)
	par.Do(len(strs), par.Workers(), func(i int) {
		a := strs[i]
		n := int64(0)
		for _, b := range strs {
			n++
			got, want := sign(fsutil.ComparePath(a, b)), sign(fsmodel.ComparePaths(a, b))
			if got != want || (got == 0) != (a == b) || got != -sign(fsutil.ComparePath(b, a)) {
				r.Violate("order-pair", fmt.Sprintf("ComparePath(%q,%q)=%d, component-wise=%d, reverse=%d", a, b, got, want, fsutil.ComparePath(b, a)),
					map[string]any{"order": []string{a, b}})
			}
		}
		mu.Lock()
		pairs += n
		mu.Unlock()
	})
	// ... and with every byte value at the position where two paths first differ (the order treats exactly one
	// byte, the separator, specially: any other value given a role shows against the component-wise order)
	var wide []string
	pre := []string{"", "a/"}
	if r.Tier == "thorough" {
		pre = []string{"", "a", "a/", "ab"}
	}
	for _, p := range pre {
		for x := 0; x < 256; x++ {
			for _, suf := range []string{"", "/", "b", "/b"} {
				wide = append(wide, p+string([]byte{byte(x)})+suf)
			}
		}
	}
	par.Do(len(wide), par.Workers(), func(i int) {
		a := wide[i]
		n := int64(0)
		for _, b := range wide {
			n++
			got, want := sign(fsutil.ComparePath(a, b)), sign(fsmodel.ComparePaths(a, b))
			if got != want || (got == 0) != (a == b) || got != -sign(fsutil.ComparePath(b, a)) {
				r.Violate("order-pair", fmt.Sprintf("ComparePath(%q,%q)=%d, component-wise=%d, reverse=%d", a, b, got, want, fsutil.ComparePath(b, a)),
					map[string]any{"order": []string{a, b}})
			}
		}
		mu.Lock()
		pairs += n
		mu.Unlock()
	})
	r.Evaluations.Add(pairs)
	r.Transitions.Add(pairs)
	r.Add("order_pairs", pairs)
	r.Set("order_pairs_all_byte_values", len(wide)*len(wide))
	for i := 0; i < 400 && i < len(strs); i++ {
		r.Nontrivial("pair:" + strs[i])
	}
	// transitivity on all triples of strings of length <=3
	var short []string
	for _, s := range strs {
		if len(s) <= 3 {
			short = append(short, s)
		}
	}
	if r.Tier == "quick" {
		// quick: length <=2 for triples
		var s2 []string
		for _, s := range short {
			if len(s) <= 2 {
				s2 = append(s2, s)
			}
		}
		short = s2
	}
	triples := int64(0)
	par.Do(len(short), par.Workers(), func(i int) {
		a := short[i]
		n := int64(0)
		for _, b := range short {
			ab := fsutil.ComparePath(a, b)
			for _, c := range short {
				n++
				if ab < 0 && fsutil.ComparePath(b, c) < 0 && !(fsutil.ComparePath(a, c) < 0) {
					r.Violate("order-transitivity", fmt.Sprintf("%q<%q<%q but not %q<%q", a, b, c, a, c), map[string]any{"order": []string{a, b, c}})
				}
			}
		}
		mu.Lock()
		triples += n
		mu.Unlock()
	})
	r.Evaluations.Add(triples)
	r.Transitions.Add(triples)
	r.Add("order_triples", triples)
	r.Sample(map[string]any{"order_pair": []string{"a-b", "a/b"}, "real": fsutil.ComparePath("a-b", "a/b"), "spec": fsmodel.ComparePaths("a-b", "a/b")})

	// ---- part 2: validator, product BFS to closure ----
	for pass, events := range [][]vEvent{c12Alphabet(r.Tier), c12DeepAlphabet(r.Tier), c12DotAlphabet(r.Tier), c12PrefixAlphabet(r.Tier), c12ByteAlphabet(r.Tier), c12SiblingAlphabet(r.Tier), c12TypeAlphabet(r.Tier), c12LongAlphabet(r.Tier)} {
		type item struct{ hist []vEvent }
		seen := map[string]bool{}
		frontier := []item{{}}
		_, _, _, d0, s0 := runSeq(nil)
		seen[d0+"#"+s0] = true
		r.State(d0 + "#" + s0)
		depth := 0
		maxStates := 400000
		if r.Tier == "quick" {
			maxStates = 60000
		}
		closed := false
		for len(frontier) > 0 {
			depth++
			type res struct {
				key  string
				hist []vEvent
			}
			results := make([][]res, len(frontier))
			par.Do(len(frontier), par.Workers(), func(i int) {
				h := frontier[i].hist
				for _, e := range events {
					seq := append(append([]vEvent{}, h...), e)
					bad, real, spec, dump, skey := runSeq(seq)
					r.Evaluations.Add(1)
					r.Transitions.Add(1)
					r.Traces.Add(1)
					last := len(seq) - 1
					if bad >= 0 {
						key := "rejects-valid"
						if real[bad] {
							key = "accepts-invalid:" + classifyBad(seq[bad].Path)
						}
						r.Violate(key, fmt.Sprintf("history %v: element %d %v real accept=%v spec accept=%v", seq, bad, seq[bad], real[bad], spec[bad]), map[string]any{"seq": seq})
						continue
					}
					if len(real) == len(seq) && real[last] && spec[last] {
						results[i] = append(results[i], res{dump + "#" + skey, seq})
						if len(seq) >= 2 {
							r.Nontrivial(dump + "#" + skey)
						}
					}
				}
			})
			var next []item
			for _, rs := range results {
				for _, x := range rs {
					if !seen[x.key] {
						seen[x.key] = true
						r.State(x.key)
						next = append(next, item{x.hist})
						if len(seen) == 3 || len(seen) == 40 || len(seen) == 400 {
							r.Sample(map[string]any{"history": x.hist, "validator_state": strings.SplitN(x.key, "#", 2)[0]})
						}
					}
				}
			}
			frontier = next
			if len(seen) > maxStates {
				break
			}
		}
		closed = len(frontier) == 0
		r.Set(fmt.Sprintf("validator_bfs_depth_alphabet%d", pass), depth)
		r.Set(fmt.Sprintf("validator_closure_reached_alphabet%d", pass), closed)
		r.Set(fmt.Sprintf("validator_alphabet%d", pass), len(events))
		if !closed {
			r.Exhaustive = false
		}
	}
}

func classifyBad(p string) string {
	switch {
	case p == "..":
		return "dotdot"
	case p == ".":
		return "dot"
	case strings.HasPrefix(p, "../"):
		return "dotdot-prefix"
	case strings.HasPrefix(p, "/"):
		return "absolute"
	case p == "" || path.Clean(p) != p:
		return "unclean"
	}
	return "order-or-parent"
}

func replayC12(c json.RawMessage) string {
	var x struct {
		Seq   []vEvent `json:"seq"`
		Order []string `json:"order"`
	}
	if err := json.Unmarshal(c, &x); err != nil {
		return "bad case: " + err.Error()
	}
	if len(x.Order) == 2 {
		a, b := x.Order[0], x.Order[1]
		if (fsutil.ComparePath(a, b) < 0) != (fsmodel.ComparePaths(a, b) < 0) || (fsutil.ComparePath(a, b) == 0) != (a == b) {
			return fmt.Sprintf("ComparePath(%q,%q)=%d vs component-wise %d", a, b, fsutil.ComparePath(a, b), fsmodel.ComparePaths(a, b))
		}
		return ""
	}
	if len(x.Order) == 3 {
		a, b, c := x.Order[0], x.Order[1], x.Order[2]
		if fsutil.ComparePath(a, b) < 0 && fsutil.ComparePath(b, c) < 0 && !(fsutil.ComparePath(a, c) < 0) {
			return "not transitive"
		}
		return ""
	}
	bad, real, spec, _, _ := runSeq(x.Seq)
	if bad >= 0 {
		return fmt.Sprintf("element %d %v: real accept=%v spec accept=%v", bad, x.Seq[bad], real[bad], spec[bad])
	}
	return ""
}
