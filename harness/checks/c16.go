package checks

import (
	"context"
	"encoding/json"
	"fmt"
	"os"
	"path/filepath"
	"strings"

	"github.com/tonistiigi/fsutil"
	fscopy "github.com/tonistiigi/fsutil/copy"
	"verif/evid"
	"verif/fsmodel"
	"verif/par"
	"verif/scratch"
)

func init() { register("C16", runC16, replayC16) }

type c16Case struct {
	Tree    fsmodel.Tree `json:"tree"`
	Include []string     `json:"include,omitempty"`
	Exclude []string     `json:"exclude,omitempty"`
	Dst     string       `json:"dst"` // empty | populated | conflict
	Repl    bool         `json:"repl,omitempty"`
	Chown   bool         `json:"chown,omitempty"` // requested owner 1000:1000
	Utime   bool         `json:"utime,omitempty"` // requested timestamp
	// PerOption: the patterns are handed over one per WithIncludePattern/WithExcludePattern option, and the owner
	// through WithChown, instead of through one CopyInfo
	PerOption bool `json:"peroption,omitempty"`
	// Into: the tree is copied into this (not yet existing) directory below the destination root instead of into the
	// root itself; the patterns still speak of source paths
	Into string `json:"into,omitempty"`
}

func (c c16Case) String() string {
	s := fmt.Sprintf("tree=%v include=%q exclude=%q dst=%s always-replace=%v", c.Tree.Paths(), c.Include, c.Exclude, c.Dst, c.Repl)
	if c.Into != "" {
		s += fmt.Sprintf(" copied-into=%q", c.Into)
	}
	for _, n := range c.Tree {
		if n.HL != 0 {
			s += fmt.Sprintf(" %s:hl%d", n.Path, n.HL)
		}
	}
	if c.Chown || c.Utime {
		s += fmt.Sprintf(" chown=%v utime=%v", c.Chown, c.Utime)
	}
	if c.PerOption {
		s += " one-option-per-pattern"
	}
	return s
}

func judgeC16Raw(c c16Case) (string, string) {
	root := scratch.Dir("cp")
	defer scratch.Remove(root)
	// the roots carry pattern metacharacters in their own names: only what lies below a root is ever matched
	src, dst := filepath.Join(root, "s[1]rc"), filepath.Join(root, "d[s]t*")
	os.Mkdir(src, 0755)
	os.Mkdir(dst, 0755)
	if err := fsmodel.Materialize(c.Tree, src); err != nil {
		return "infra", err.Error()
	}
	var prior fsmodel.Tree
	if c.Dst == "populated" {
		// one colliding directory, one unrelated entry
		prior = fsmodel.Tree{{Path: "a", Kind: fsmodel.Dir, Perm: 0700, Mtime: fsmodel.T0 + 99, UID: 7, GID: 7}, {Path: "a/keep", Kind: fsmodel.File, Perm: 0600, Mtime: fsmodel.T0 + 98, Data: []byte("keep")},
			{Path: "zz", Kind: fsmodel.File, Perm: 0600, Mtime: fsmodel.T0 + 97, Data: []byte("zz")}}
		if err := fsmodel.Materialize(prior, dst); err != nil {
			return "infra", err.Error()
		}
	}
	if c.Dst == "stale-copy" {
		// what an earlier, unfiltered copy of an earlier version left, kept as a snapshot (cp -al): every regular file of
		// the source is there with older bytes, and each has a second name F~ on the same inode
		for _, n := range c.Tree {
			if n.Kind == fsmodel.Dir {
				prior = append(prior, n)
			} else if n.Kind == fsmodel.File && n.HL == 0 {
				o := n
				o.Data, o.Mtime, o.HL = []byte("old:"+n.Path), n.Mtime-1000, 1000+len(prior)
				l := o
				l.Path = n.Path + "~"
				prior = append(prior, o, l)
			}
		}
		prior.Sort()
		if err := fsmodel.Materialize(prior, dst); err != nil {
			return "infra", err.Error()
		}
	}
	if c.Dst == "conflict" {
		// the destination holds a directory where the source has a file, and a symlink to a directory
		// where the source has a directory
		prior = fsmodel.Tree{{Path: "other", Kind: fsmodel.Dir, Perm: 0755, Mtime: fsmodel.T0}}
		for _, n := range c.Tree {
			if strings.Contains(n.Path, "/") {
				continue
			}
			if n.Kind == fsmodel.File {
				prior = append(prior, fsmodel.Node{Path: n.Path, Kind: fsmodel.Dir, Perm: 0700, Mtime: fsmodel.T0}, fsmodel.Node{Path: n.Path + "/keep", Kind: fsmodel.File, Perm: 0600, Mtime: fsmodel.T0, Data: []byte("k")})
			} else if n.Kind == fsmodel.Dir {
				prior = append(prior, fsmodel.Node{Path: n.Path, Kind: fsmodel.Symlink, Perm: 0777, Mtime: fsmodel.T0, Link: "other"})
			}
		}
		prior.Sort()
		if err := fsmodel.Materialize(prior, dst); err != nil {
			return "infra", err.Error()
		}
	}
	before, _ := fsmodel.Snapshot(dst)
	ci := fscopy.CopyInfo{IncludePatterns: c.Include, ExcludePatterns: c.Exclude, CopyDirContents: true, AlwaysReplaceExistingDestPaths: c.Repl}
	if c.Chown {
		ci.Chown = func(*fscopy.User) (*fscopy.User, error) { return &fscopy.User{UID: 1000, GID: 1000}, nil }
	}
	if c.Utime {
		t := c13Time
		ci.Utime = &t
	}
	if c.Dst == "conflict" {
		// only one thing is judged here: nothing at a path the patterns do not select is touched
		kept, kerr := naiveKept(c.Tree, c.Include, c.Exclude)
		ck, cerr := chainKept(c.Tree, c.Include, c.Exclude)
		if kerr != nil || cerr != nil {
			return "infra", "patterns"
		}
		sel := map[string]bool{}
		for _, p := range append(closure(c.Tree, kept), closure(c.Tree, ck)...) {
			sel[p] = true
		}
		boundedCopy(func() error { return fscopy.Copy(context.Background(), src, "/", dst, "/", fscopy.WithCopyInfo(ci)) }) // conflicts may fail the call
		after, err := fsmodel.Snapshot(dst)
		if err != nil {
			return "infra", err.Error()
		}
		for _, b := range before {
			top := strings.SplitN(b.Path, "/", 2)[0]
			if sel[top] {
				continue
			}
			a := after.Find(b.Path)
			if a == nil || a.Kind != b.Kind || string(a.Data) != string(b.Data) || a.Link != b.Link {
				return "unselected-dest-entry-touched", fmt.Sprintf("%s is not selected by the patterns, but the destination entry %s was changed or removed", top, b.Path)
			}
		}
		// ... and nothing appears below a name the patterns do not select (for instance behind one of the links)
		for _, a := range after {
			top := strings.SplitN(a.Path, "/", 2)[0]
			if !sel[top] && before.Find(a.Path) == nil {
				return "unselected-dest-entry-touched", fmt.Sprintf("%s is not selected by the patterns (or not in the source at all), but %s was created below it", top, a.Path)
			}
		}
		return "", ""
	}
	opts := []fscopy.Opt{fscopy.WithCopyInfo(ci)}
	if c.PerOption {
		ci.IncludePatterns, ci.ExcludePatterns, ci.Chown = nil, nil, nil
		opts = []fscopy.Opt{fscopy.WithCopyInfo(ci)}
		for _, p := range c.Include {
			opts = append(opts, fscopy.WithIncludePattern(p))
		}
		for _, p := range c.Exclude {
			opts = append(opts, fscopy.WithExcludePattern(p))
		}
		if c.Chown {
			opts = append(opts, fscopy.WithChown(1000, 1000))
		}
	}
	dstArg := "/"
	if c.Into != "" {
		dstArg = c.Into
	}
	if err := boundedCopy(func() error { return fscopy.Copy(context.Background(), src, "/", dst, dstArg, opts...) }); err != nil {
		if err == errCopyHangs {
			return "copy-hangs", err.Error()
		}
		return "copy-failed", err.Error()
	}
	if c.Into != "" {
		// everything below is judged relative to the directory the tree went into (it exists even if nothing is selected)
		dst = filepath.Join(dst, c.Into)
		if _, err := os.Lstat(dst); err != nil {
			os.MkdirAll(dst, 0755)
		}
	}
	after, err := fsmodel.Snapshot(dst)
	if err != nil {
		return "infra", err.Error()
	}
	// what was written: new or replaced entries (merged directories count when the source has them)
	var written []string
	for _, n := range after {
		b := before.Find(n.Path)
		if b == nil || b.Ino != n.Ino {
			written = append(written, n.Path)
		} else if n.Kind == fsmodel.Dir && c.Tree.Find(n.Path) != nil && c.Tree.Find(n.Path).Kind == fsmodel.Dir {
			written = append(written, n.Path) // merged into an existing directory
		}
	}
	for _, b := range before {
		a := after.Find(b.Path)
		if a == nil {
			return "dest-entry-removed", b.Path + " existed in the destination and is gone"
		}
		// an entry of the destination that the source does not even have is not the copy's to change
		if c.Tree.Find(b.Path) == nil && b.Kind == fsmodel.File && (string(a.Data) != string(b.Data) || a.Perm != b.Perm || a.Mtime != b.Mtime) {
			return "unselected-dest-entry-touched", fmt.Sprintf("%s is in the destination only, but it changed: %q -> %q", b.Path, b.Data, a.Data)
		}
	}
	got := strings.Join(written, " ")
	kept, err := naiveKept(c.Tree, c.Include, c.Exclude)
	if err != nil {
		return "infra", err.Error()
	}
	want := closure(c.Tree, kept)
	// a merged directory that was not selected is indistinguishable from an untouched one
	view := func(x []string) string {
		var w []string
		for _, p := range written {
			if before.Find(p) != nil && after.Find(p).Kind == fsmodel.Dir && !contains(x, p) {
				continue
			}
			w = append(w, p)
		}
		return strings.Join(w, " ")
	}
	got = view(want)
	if got != strings.Join(want, " ") {
		ck, _ := chainKept(c.Tree, c.Include, c.Exclude)
		cw := closure(c.Tree, ck)
		if view(cw) == strings.Join(cw, " ") {
			return "pm-incremental", fmt.Sprintf("copy wrote [%s], naive evaluation selects [%s]; an unpruned chain of MatchesUsingParentResults selects what the copy wrote (dependency moby/patternmatcher)", view(cw), strings.Join(want, " "))
		}
		return "differs-from-reference", fmt.Sprintf("copy wrote [%s], naive evaluation selects [%s], incremental chain selects [%s]", got, strings.Join(want, " "), strings.Join(cw, " "))
	}
	// the same set a filtered walk of the same tree reports
	var walked []string
	err = fsutil.Walk(context.Background(), src, &fsutil.FilterOpt{IncludePatterns: c.Include, ExcludePatterns: c.Exclude}, func(p string, fi os.FileInfo, err error) error {
		if err != nil {
			return err
		}
		walked = append(walked, p)
		return nil
	})
	if err != nil {
		return "walk-failed", err.Error()
	}
	if strings.Join(walked, " ") != strings.Join(want, " ") {
		return "walk-differs", fmt.Sprintf("copy wrote [%s] but a filtered walk reports [%s]", got, strings.Join(walked, " "))
	}
	// entries carry the source's bytes and metadata; on-demand ancestors carry the source directory's
	// mode, owner and xattrs (not its timestamps)
	for _, p := range want {
		s, d := c.Tree.Find(p), after.Find(p)
		if d == nil {
			return "selected-missing", p
		}
		if s.Kind != d.Kind || string(s.Data) != string(d.Data) {
			return "entry-differs", fmt.Sprintf("%s: kind/bytes differ", p)
		}
		if before.Find(p) != nil && s.Kind == fsmodel.Dir {
			continue
		}
		wantUID, wantGID := s.UID, s.GID
		if c.Chown {
			wantUID, wantGID = 1000, 1000 // every copied entry, on-demand ancestors included, carries the requested owner
		}
		if s.Perm != d.Perm || wantUID != d.UID || wantGID != d.GID || !sameXattrs(s.Xattrs, d.Xattrs) {
			cls := "entry-metadata"
			if s.Kind == fsmodel.Dir && !kept[p] {
				cls = "ancestor-metadata"
			}
			return cls, fmt.Sprintf("%s: mode %o owner %d:%d xattrs %v, source has %o %d:%d %v", p, d.Perm, d.UID, d.GID, d.Xattrs, s.Perm, s.UID, s.GID, s.Xattrs)
		}
		if c.Utime {
			// (the property leaves the timestamps of on-demand ancestors open)
			if (s.Kind != fsmodel.Dir || kept[p]) && d.Mtime != c13Time.UnixNano() {
				return "entry-mtime:requested", fmt.Sprintf("%s: mtime %d, requested %d", p, d.Mtime, c13Time.UnixNano())
			}
		} else if s.Kind != fsmodel.Dir && s.Mtime != d.Mtime {
			return "entry-mtime", fmt.Sprintf("%s: mtime %d want %d", p, d.Mtime, s.Mtime)
		}
	}
	return "", ""
}

func contains(l []string, s string) bool {
	for _, x := range l {
		if x == s {
			return true
		}
	}
	return false
}

func sameXattrs(a, b map[string]string) bool {
	if len(a) != len(b) {
		return false
	}
	for k, v := range a {
		if b[k] != v {
			return false
		}
	}
	return true
}

func runC16(r *evid.Run) {
	r.Technique = "bounded-exhaustive enumeration of (tree, include list, exclude list, destination); every case one real Copy plus one real filtered Walk of the same tree; oracle = naive reference selection + ancestors (three-way verdict with an independent incremental chain), before/after snapshots of the destination"
	r.Rule = "one evaluation = one copy with pattern lists; include and exclude lists are all lists of length <=2 (quick: exclude <=1) over 19 patterns; non-trivial = cases with at least one pattern; states = distinct cases"
	r.Assume = []string{"reference semantics of a pattern list = moby/patternmatcher MatchesOrParentMatches on a fresh matcher", "directories of the source get distinct owners/modes/xattrs so that ancestor metadata is observable"}
	trees := c10Trees(r.Tier)
	for ti := range trees {
		for i := range trees[ti] {
			if trees[ti][i].Kind == fsmodel.Dir {
				trees[ti][i].Perm = 0750 + uint32(i%2)*5
				trees[ti][i].UID, trees[ti][i].GID = 1234+uint32(i), 2345
				trees[ti][i].Xattrs = map[string]string{"user.d": fmt.Sprint(i)}
			}
		}
	}
	// a tree with empty directories before, between and after selected entries
	et := fsmodel.Tree{{Path: "a", Kind: fsmodel.Dir, Perm: 0750, UID: 1234, GID: 2345, Mtime: fsmodel.T0}, {Path: "a/b", Kind: fsmodel.Dir, Perm: 0755, UID: 1234, GID: 2345, Mtime: fsmodel.T0},
		{Path: "ab", Kind: fsmodel.Dir, Perm: 0755, UID: 1234, GID: 2345, Mtime: fsmodel.T0}, {Path: "ab/c", Kind: fsmodel.File, Perm: 0644, Mtime: fsmodel.T0 + 3, Data: []byte("c")},
		{Path: "b", Kind: fsmodel.Dir, Perm: 0755, UID: 1234, GID: 2345, Mtime: fsmodel.T0}, {Path: "b/a", Kind: fsmodel.File, Perm: 0644, Mtime: fsmodel.T0 + 4, Data: []byte("ba")},
		{Path: "c", Kind: fsmodel.Dir, Perm: 0755, UID: 1234, GID: 2345, Mtime: fsmodel.T0}}
	et.Sort()
	trees = append([]fsmodel.Tree{et}, trees...)
	incs := patternLists(2, c10Patterns)
	excs := patternLists(1, c10Patterns)
	nt := 5
	if r.Tier == "thorough" {
		excs = patternLists(2, c10Patterns)
		nt = len(trees)
	}
	var cases []c16Case
	for ti, t := range trees {
		if ti >= nt {
			break
		}
		for _, in := range incs {
			for _, ex := range excs {
				cases = append(cases, c16Case{Tree: t, Include: in, Exclude: ex, Dst: "empty"})
				// the populated destination has a directory a (to merge into): only for trees where a is one too;
				// a file meeting a directory is C15's subject and rightly fails the copy
				if an := t.Find("a"); len(in)+len(ex) <= 2 && (an == nil || an.Kind == fsmodel.Dir) {
					cases = append(cases, c16Case{Tree: t, Include: in, Exclude: ex, Dst: "populated"})
				}
			}
		}
		// always-replace against a destination that conflicts at every top-level name
		for _, in := range patternLists(1, c10Patterns) {
			for _, ex := range patternLists(1, c10Patterns) {
				cases = append(cases, c16Case{Tree: t, Include: in, Exclude: ex, Dst: "conflict", Repl: true}, c16Case{Tree: t, Include: in, Exclude: ex, Dst: "conflict"},
					c16Case{Tree: t, Include: in, Exclude: ex, Dst: "stale-copy"})
			}
		}
		if r.Tier != "thorough" {
			// exclude lists of length 2 (a pattern and an exception to it) against include lists of length <=1
			for _, in := range patternLists(1, c10Patterns) {
				for _, ex := range patternLists(2, c10Patterns) {
					if len(ex) == 2 {
						cases = append(cases, c16Case{Tree: t, Include: in, Exclude: ex, Dst: "empty"})
					}
				}
			}
		}
	}
	// the same lists with the tree copied into a directory below the destination root (one and two levels down)
	for ti, t := range trees {
		if ti >= 3 {
			break
		}
		for _, in := range patternLists(2, c10Patterns) {
			for _, into := range []string{"app", "srv/app/"} {
				cases = append(cases, c16Case{Tree: t, Include: in, Dst: "empty", Into: into})
			}
		}
		for _, ex := range patternLists(1, c10Patterns) {
			cases = append(cases, c16Case{Tree: t, Exclude: ex, Dst: "empty", Into: "app"})
		}
	}
	// requested owner and timestamp together with patterns: on-demand ancestors are copied entries too
	for ti, t := range trees {
		if ti >= 3 {
			break
		}
		for _, in := range patternLists(1, c10Patterns) {
			for _, ex := range patternLists(1, c10Patterns) {
				cases = append(cases, c16Case{Tree: t, Include: in, Exclude: ex, Dst: "empty", Chown: true}, c16Case{Tree: t, Include: in, Exclude: ex, Dst: "empty", Chown: true, Utime: true})
			}
		}
	}
	// the per-pattern option helpers: lists (p, q, p) - the repetition matters when q has the other polarity - and
	// all lists of length <=2, on two trees
	for ti, t := range trees {
		if ti >= 2 {
			break
		}
		for _, p1 := range c10Patterns {
			for _, q := range c10Patterns {
				if p1 != q {
					cases = append(cases, c16Case{Tree: t, Include: []string{p1, q, p1}, Dst: "empty", PerOption: true}, c16Case{Tree: t, Exclude: []string{p1, q, p1}, Dst: "empty", PerOption: true})
				}
			}
		}
		for _, in := range patternLists(1, c10Patterns) {
			for _, ex := range patternLists(1, c10Patterns) {
				cases = append(cases, c16Case{Tree: t, Include: in, Exclude: ex, Dst: "empty", PerOption: true, Chown: true})
			}
		}
	}
	// multi-component wildcard tails, alone and paired with every other pattern; patterns spelled with a leading
	// separator or leading ".."
	for ti, t := range trees {
		if ti >= 4 {
			break
		}
		for _, tp := range c10TailPatterns {
			cases = append(cases, c16Case{Tree: t, Include: []string{tp}, Dst: "empty"}, c16Case{Tree: t, Exclude: []string{tp}, Dst: "empty"})
			for _, q := range c10Patterns {
				cases = append(cases, c16Case{Tree: t, Include: []string{q, tp}, Dst: "empty"}, c16Case{Tree: t, Include: []string{tp, q}, Dst: "empty"}, c16Case{Tree: t, Include: []string{tp}, Exclude: []string{q}, Dst: "empty"})
			}
		}
		odd := []string{"/a", "../a", "!/a/b", "/a/b", "a", "!a/b", "a/../b", "./a/b", "**", "!/b", "", " "}
		for _, in := range patternLists(2, odd) {
			for _, ex := range patternLists(1, odd) {
				cases = append(cases, c16Case{Tree: t, Include: in, Exclude: ex, Dst: "empty"}, c16Case{Tree: t, Include: ex, Exclude: in, Dst: "empty"})
			}
		}
	}
	// escaped metacharacters in patterns, names that contain them
	for _, in := range patternLists(2, c10EscPatterns) {
		for _, ex := range patternLists(1, c10EscPatterns) {
			cases = append(cases, c16Case{Tree: c10EscTree(), Include: in, Exclude: ex, Dst: "empty"}, c16Case{Tree: c10EscTree(), Include: ex, Exclude: in, Dst: "empty"})
		}
	}
	// hard-link groups spread over selected and unselected names: every partition of the four files of the first
	// pattern tree, lists of length <=1 on both sides
	for _, lab := range fsmodel.Partitions(4) {
		t := trees[1].Clone()
		fi := 0
		for i := range t {
			if t[i].Kind != fsmodel.File {
				continue
			}
			if lab[fi] > 0 {
				t[i].HL = lab[fi]
				t[i].Data = fsmodel.Content(50+lab[fi], 3)
				t[i].Mtime = fsmodel.T0 + int64(50+lab[fi])
			}
			fi++
		}
		for _, in := range patternLists(1, c10Patterns) {
			for _, ex := range patternLists(1, c10Patterns) {
				cases = append(cases, c16Case{Tree: t, Include: in, Exclude: ex, Dst: "empty"})
			}
		}
	}
	r.Set("cases", len(cases))
	par.Do(len(cases), par.Workers(), func(i int) {
		c := cases[i]
		key, msg := judgeC16(c)
		r.Evaluations.Add(1)
		r.StateH(evid.H(c.String()))
		if len(c.Include)+len(c.Exclude) > 0 {
			r.Nontrivial(c.String())
		}
		if i%9000 == 23 {
			r.Sample(map[string]any{"case": c.String(), "result": key})
		}
		if key != "" {
			r.Violate(key, c.String()+": "+msg, c)
		}
	})
}

func replayC16(raw json.RawMessage) string {
	var c c16Case
	if err := json.Unmarshal(raw, &c); err != nil {
		return "bad case: " + err.Error()
	}
	k, m := judgeC16(c)
	if k == "" {
		return ""
	}
	return k + ": " + m
}

// judgeC16 is judgeC16Raw with a panic of the code under test turned into a verdict (never a crash of the check).
func judgeC16(c c16Case) (k, m string) {
	defer func() {
		if r := recover(); r != nil {
			k, m = "panic", fmt.Sprintf("the code under test panicked: %v", r)
		}
	}()
	return judgeC16Raw(c)
}
