package checks

import (
	"encoding/json"
	"fmt"
	"strings"
	"verif/memfs"

	"github.com/tonistiigi/fsutil"
	"github.com/tonistiigi/fsutil/types"
	"verif/evid"
	"verif/fsmodel"
	"verif/par"
	"verif/xfer"
)

func init() { register("C05", runC05, replayC05) }

type c05Case struct {
	Hist  *History    `json:"hist,omitempty"`
	Sync  *SyncCase   `json:"sync,omitempty"`
	Fault *xfer.Fault `json:"fault,omitempty"` // Sync only: the transfer is aborted by this stream failure
}

func (c c05Case) String() string {
	if c.Hist != nil {
		return c.Hist.String()
	}
	if c.Fault != nil {
		return fmt.Sprintf("%s fault=%s@%d", c.Sync.String(), c.Fault.End, c.Fault.K)
	}
	return c.Sync.String()
}

func sameStat(a, b *types.Stat) bool {
	return a.Path == b.Path && a.Mode == b.Mode && a.Uid == b.Uid && a.Gid == b.Gid && a.Size == b.Size && a.ModTime == b.ModTime &&
		a.Linkname == b.Linkname && a.Devmajor == b.Devmajor && a.Devminor == b.Devminor && xEq(a.Xattrs, b.Xattrs)
}

// nodeChanged: did the entry at this path change identity or bytes between the
// two snapshots (directory mtimes are not identity)?
func nodeChanged(b, a *fsmodel.Node) bool {
	if b == nil || a == nil {
		return b != a
	}
	if identity(b) != identity(a) {
		return true
	}
	return string(b.Data) != string(a.Data)
}

// judgeNotes is the C05 oracle on one observed transfer.
func judgeNotes(o *SyncObs) (string, string) {
	sent := map[string]*types.Stat{}
	for _, st := range o.Res.Log.Stats() {
		sent[st.Path] = st
	}
	beforeStats := statsByPath(o.Before)
	// 1. replay the events on a model of the old destination
	model := map[string]bool{}
	kind := map[string]fsmodel.Kind{}
	for _, n := range o.Before {
		model[n.Path] = true
		kind[n.Path] = n.Kind
	}
	rmSub := func(p string, self bool) {
		for q := range model {
			if (self && q == p) || strings.HasPrefix(q, p+"/") {
				delete(model, q)
			}
		}
	}
	upserts := map[string]int{}
	deletes := map[string]int{}
	for _, n := range o.Notes {
		switch n.Kind {
		case fsutil.ChangeKindDelete:
			deletes[n.Path]++
			rmSub(n.Path, true)
		default:
			if n.Stat == nil {
				return "note-without-stat", fmt.Sprintf("%s %s carries no stat", n.Kind, n.Path)
			}
			upserts[n.Path]++
			isDir := n.Stat.IsDir()
			if !isDir || (model[n.Path] && kind[n.Path] != fsmodel.Dir) {
				rmSub(n.Path, false)
			}
			model[n.Path] = true
			if isDir {
				kind[n.Path] = fsmodel.Dir
			} else {
				kind[n.Path] = fsmodel.File
			}
			st := sent[n.Path]
			if st == nil {
				return "note-for-unannounced-path", fmt.Sprintf("%s %s was never announced", n.Kind, n.Path)
			}
			if !sameStat(st, n.Stat) {
				return "note-stat-differs", fmt.Sprintf("%s %s reported with %s, sent as %s", n.Kind, n.Path, statString(n.Stat), statString(st))
			}
			// ... and it is the metadata the destination now has (type, mode, owner, device numbers, link target)
			if a := o.After.Find(n.Path); a != nil && a.Kind != fsmodel.Socket && upserts[n.Path] == 1 {
				as := memfs.StatOf(*a, nil)
				if as.Mode != n.Stat.Mode || (!o.Filter && (as.Uid != n.Stat.Uid || as.Gid != n.Stat.Gid)) || as.Devmajor != n.Stat.Devmajor || as.Devminor != n.Stat.Devminor ||
					(a.Kind == fsmodel.Symlink && as.Linkname != n.Stat.Linkname) {
					return "note-differs-from-dest", fmt.Sprintf("%s %s reported with %s, the destination holds %s", n.Kind, n.Path, statString(n.Stat), statString(as))
				}
			}
			// digest
			after := o.After.Find(n.Path)
			var data []byte
			if after != nil && after.Kind == fsmodel.File && st.Mode&uint32(osModeType) == 0 && st.Linkname == "" {
				data = after.Data
			}
			if want := xfer.DigestFor(st, data); n.Digest != want {
				return "digest-wrong", fmt.Sprintf("%s %s digest %s, hash(header of the stat as sent + %d bytes on disk) is %s", n.Kind, n.Path, n.Digest, len(data), want)
			}
		}
	}
	for _, n := range o.After {
		if !model[n.Path] {
			return "events-do-not-reproduce-dest:missing", fmt.Sprintf("applying the events to the old destination does not produce %s", n.Path)
		}
		delete(model, n.Path)
	}
	for p := range model {
		return "events-do-not-reproduce-dest:extra", fmt.Sprintf("applying the events to the old destination leaves %s, which is not in the new destination", p)
	}
	// 2. every changed surviving path reported exactly once; no unchanged path reported
	for _, a := range o.After {
		b := o.Before.Find(a.Path)
		changed := nodeChanged(b, &a)
		// hard-link exception of C02: the entry was a link member in the old destination and is a
		// plain file now (or the reverse); re-creation depends on timing
		exception := false
		if bs := beforeStats[a.Path]; bs != nil && sent[a.Path] != nil && (bs.Linkname != "") != (sent[a.Path].Linkname != "") && !sent[a.Path].IsDir() && bs.Mode&uint32(osModeType) == 0 {
			exception = true
		}
		// hard-link regrouping changes identity on the wire without changing lstat fields
		if b != nil && !changed {
			if bs, ss := beforeStats[a.Path], sent[a.Path]; bs != nil && ss != nil && bs.Linkname != ss.Linkname {
				changed = true
			}
		}
		n := upserts[a.Path]
		switch {
		case changed && n == 0 && !exception:
			cls := "entry"
			if b != nil && b.Kind == fsmodel.Dir && a.Kind == fsmodel.Dir {
				cls = "dir-metadata"
			}
			return "changed-not-reported:" + cls, fmt.Sprintf("%s changed (%s -> %s) but no add/modify was reported", a.Path, identity(b), identity(&a))
		case n > 1:
			return "reported-twice", fmt.Sprintf("%s reported %d times", a.Path, n)
		case !changed && n > 0 && !exception && !o.Merge:
			// (merge mode does not look at the old destination: everything the source holds is applied and reported)
			return "unchanged-reported", fmt.Sprintf("%s did not change but was reported", a.Path)
		}
	}
	// 3. deletes
	for p, n := range deletes {
		if o.After.Find(p) != nil && upserts[p] == 0 {
			return "delete-of-surviving-path", p + " reported deleted but still exists"
		}
		if o.Before.Find(p) == nil {
			return "delete-of-unknown-path", p + " reported deleted but was not in the old destination"
		}
		if n > 1 {
			return "deleted-twice", fmt.Sprintf("%s reported deleted %d times", p, n)
		}
		// deletes name the top-most removed paths: what lay below a removed directory went with it
		if i := strings.LastIndexByte(p, '/'); i >= 0 {
			par := p[:i]
			if pb := o.Before.Find(par); pb != nil && pb.Kind == fsmodel.Dir {
				if pa := o.After.Find(par); pa == nil || pa.Kind != fsmodel.Dir {
					return "delete-of-non-topmost-path", fmt.Sprintf("%s reported deleted although its directory %s was removed (or replaced) as a whole", p, par)
				}
			}
		}
	}
	for _, b := range o.Before {
		if o.After.Find(b.Path) != nil {
			continue
		}
		// top-most removed path: its parent survives as a directory (or is the root)
		par := ""
		if i := strings.LastIndexByte(b.Path, '/'); i >= 0 {
			par = b.Path[:i]
		}
		if par != "" {
			pa := o.After.Find(par)
			if pa == nil || pa.Kind != fsmodel.Dir {
				continue
			}
			if pb := o.Before.Find(par); pb == nil || pb.Kind != fsmodel.Dir {
				continue
			}
			if upserts[par] > 0 && !(o.Before.Find(par).Kind == fsmodel.Dir) {
				continue
			}
		}
		if deletes[b.Path] != 1 {
			return "removed-not-reported", fmt.Sprintf("%s was removed (top-most) but %d deletes were reported for it", b.Path, deletes[b.Path])
		}
	}
	return "", ""
}

const osModeType = 0x8f280000 // os.ModeType

// judgeAbortedNotes: what was reported before a transfer failed must still be true of
// what is on disk. A file is reported only after all of its bytes were stored, so every
// reported content file has the announced size and a digest over exactly the stored bytes.
func judgeAbortedNotes(o *SyncObs) (string, string) {
	sent := map[string]*types.Stat{}
	for _, st := range o.Res.Log.Stats() {
		sent[st.Path] = st
	}
	seen := map[string]bool{}
	for _, n := range o.Notes {
		if n.Kind == fsutil.ChangeKindDelete {
			continue
		}
		if n.Stat == nil {
			return "note-without-stat", fmt.Sprintf("%s %s carries no stat", n.Kind, n.Path)
		}
		if seen[n.Path] {
			return "reported-twice", n.Path + " reported twice"
		}
		seen[n.Path] = true
		st := sent[n.Path]
		if st == nil {
			return "note-for-unannounced-path", fmt.Sprintf("%s %s was never announced", n.Kind, n.Path)
		}
		if !sameStat(st, n.Stat) {
			return "note-stat-differs", fmt.Sprintf("%s %s reported with %s, sent as %s", n.Kind, n.Path, statString(n.Stat), statString(st))
		}
		var data []byte
		if st.Mode&uint32(osModeType) == 0 && st.Linkname == "" {
			after := o.After.Find(n.Path)
			if after == nil || after.Kind != fsmodel.File {
				return "aborted:reported-file-missing", fmt.Sprintf("%s %s was reported but is not a file in the destination", n.Kind, n.Path)
			}
			data = after.Data
			if int64(len(data)) != st.Size {
				return "aborted:reported-file-incomplete", fmt.Sprintf("%s %s was reported with size %d but %d bytes are stored (send=%v recv=%v)", n.Kind, n.Path, st.Size, len(data), o.Res.SendErr, o.Res.RecvErr)
			}
		}
		if want := xfer.DigestFor(st, data); n.Digest != want {
			return "digest-wrong", fmt.Sprintf("%s %s digest %s, hash(header of the stat as sent + %d bytes on disk) is %s", n.Kind, n.Path, n.Digest, len(data), want)
		}
	}
	return "", ""
}

func judgeC05Raw(c c05Case) (string, string) {
	var o *SyncObs
	if c.Hist != nil {
		var e string
		o, _, e = runHistory(*c.Hist, true)
		if e == "inapplicable" {
			return "", ""
		}
		if e != "" {
			if strings.HasPrefix(e, "infra") || strings.HasPrefix(e, "materialize") {
				return "infra", e
			}
			return "transfer-failed", e
		}
	} else {
		d := newSyncDirs()
		defer d.close()
		sc := *c.Sync
		sc.Notify = true
		if !sc.Mem {
			if err := d.resetSrc(sc.Src); err != nil {
				return "infra", err.Error()
			}
		}
		if err := d.resetDst(sc.Dst); err != nil {
			return "infra", err.Error()
		}
		if c.Fault != nil {
			o = d.transferFault(sc, sc.Src, *c.Fault)
			if o.Err != "" {
				return "infra", o.Err
			}
			if o.Res.TimedOut {
				return "aborted-transfer-hangs", "the transfer did not return after the injected stream failure"
			}
			if !o.Res.OK() {
				return judgeAbortedNotes(o)
			}
			return judgeNotes(o) // the failing call was never made
		}
		o = d.transfer(sc, sc.Src)
		if o.Err != "" {
			return "infra", o.Err
		}
		if !o.Res.OK() {
			return "transfer-failed", fmt.Sprintf("send=%v recv=%v", o.Res.SendErr, o.Res.RecvErr)
		}
		if sc.MetaOn {
			// the listing file is not an entry of the transfer; then the same source once more: nothing changed
			strip := func(t fsmodel.Tree) fsmodel.Tree {
				var out fsmodel.Tree
				for _, n := range t {
					if n.Path != listingName {
						out = append(out, n)
					}
				}
				return out
			}
			stripNotes := func(ns []xfer.Note) []xfer.Note {
				var out []xfer.Note
				for _, n := range ns {
					if n.Path != listingName { // the previous listing is removed as stale and written anew
						out = append(out, n)
					}
				}
				return out
			}
			o.Before, o.After, o.Notes = strip(o.Before), strip(o.After), stripNotes(o.Notes)
			if k, m := judgeNotes(o); k != "" {
				return "metadata-only:" + k, m
			}
			o2 := d.transfer(sc, sc.Src)
			if o2.Err != "" || !o2.Res.OK() {
				return "metadata-only:transfer-failed", fmt.Sprintf("second sync: %s send=%v recv=%v", o2.Err, o2.Res.SendErr, o2.Res.RecvErr)
			}
			o2.Before, o2.After, o2.Notes = strip(o2.Before), strip(o2.After), stripNotes(o2.Notes)
			if k, m := judgeNotes(o2); k != "" {
				return "metadata-only:resync:" + k, "second sync of the unchanged source: " + m
			}
			return "", ""
		}
	}
	return judgeNotes(o)
}

func c05Cases(tier string) []c05Case {
	var out []c05Case
	for _, base := range baseTrees() {
		for _, e := range allEdits(base) {
			for _, mem := range []bool{false, true} {
				h := History{Base: base, Steps: [][]Edit{{e}}, Mem: mem}
				out = append(out, c05Case{Hist: &h})
			}
		}
		// the same edits seen through a receiver-side Filter that rewrites ownership: notifications and
		// digests must still describe the entries as sent
		for _, e := range allEdits(base) {
			h := History{Base: base, Steps: [][]Edit{{e}}, FilterUID: true}
			out = append(out, c05Case{Hist: &h})
		}
		h0 := History{Base: base, Steps: [][]Edit{{}}}
		out = append(out, c05Case{Hist: &h0})
		if tier == "thorough" {
			for _, e1 := range allEdits(base) {
				t1 := applyEdit(base, e1)
				for _, e2 := range allEdits(t1) {
					h := History{Base: base, Steps: [][]Edit{{e1, e2}}}
					out = append(out, c05Case{Hist: &h})
				}
			}
		}
	}
	// dirty-mode pairs of the shape space and of the attribute space
	uni := []string{"a", "a/b", "a-b"}
	if tier == "thorough" {
		uni = []string{"a", "a/b", "a/c", "a-b", "b"}
	}
	srcs := fsmodel.Shapes(uni, fsmodel.StdKinds(1))
	dsts := fsmodel.Shapes(uni, fsmodel.StdKinds(2))
	for _, s := range srcs {
		for _, dl := range [][]fsmodel.Tree{dsts, srcs} {
			for _, d := range dl {
				c := SyncCase{Src: s, Dst: d}
				out = append(out, c05Case{Sync: &c})
				// merge mode: nothing of the old destination is removed, everything the source changes is reported
				cm := SyncCase{Src: s, Dst: d, Merge: true}
				out = append(out, c05Case{Sync: &cm})
			}
		}
	}
	out = append(out, c05AbortCases(tier)...)
	// contents with long zero runs: at the end of a chunk-sized file, in the middle, and nothing but zeros
	{
		T := fsmodel.T0
		zf := func(p string, data []byte, mt int64) fsmodel.Node {
			return fsmodel.Node{Path: p, Kind: fsmodel.File, Perm: 0644, Mtime: T + mt, Data: data}
		}
		zeros := fsmodel.Tree{zf("allzero", make([]byte, 8192), 1), zf("mid", append(append(fsmodel.Content(22, 5000), make([]byte, 40000)...), fsmodel.Content(23, 100)...), 2),
			zf("tail", append(fsmodel.Content(21, 40960), make([]byte, 57344)...), 3), zf("tail-small", append(fsmodel.Content(24, 10), make([]byte, 8192)...), 4)}
		zeros.Sort()
		old := fsmodel.Tree{zf("allzero", fsmodel.Content(31, 9000), 9), zf("tail", fsmodel.Content(32, 100000), 9)}
		for _, dst := range []fsmodel.Tree{nil, old} {
			for _, mem := range []bool{true, false} {
				c := SyncCase{Src: zeros, Dst: dst, Mem: mem}
				out = append(out, c05Case{Sync: &c})
			}
		}
	}
	// metadata-only receives with the change callback: every selector subset of small trees with nested directories
	{
		T := fsmodel.T0
		f := func(p string, seed int) fsmodel.Node {
			return fsmodel.Node{Path: p, Kind: fsmodel.File, Perm: 0644, Mtime: T + int64(seed), Data: fsmodel.Content(seed, 4)}
		}
		dd := func(p string, seed int) fsmodel.Node {
			return fsmodel.Node{Path: p, Kind: fsmodel.Dir, Perm: 0755, Mtime: T + int64(seed)}
		}
		mtrees := []fsmodel.Tree{
			{dd("d", 1), f("d/a", 2), f("d/b", 3), dd("d/e", 4), f("d/e/c", 5), f("z", 6)},
			{f("a", 1), dd("b", 2), dd("b/c", 3), f("b/c/x", 4), f("b/c/y", 5), dd("q", 6)},
		}
		for _, mt := range mtrees {
			mt.Sort()
			paths := mt.Paths()
			for mask := 0; mask < 1<<len(paths); mask++ {
				var sel []string
				for i, p := range paths {
					if mask&(1<<i) != 0 {
						sel = append(sel, p)
					}
				}
				for _, mem := range []bool{true, false} {
					if !mem && tier != "thorough" && mask%4 != 3 {
						continue
					}
					c := SyncCase{Src: mt, Mem: mem, MetaOn: true, MetaSel: sel}
					out = append(out, c05Case{Sync: &c})
				}
			}
		}
	}
	// runs of removed directories: two and three neighbours with contents go at once, with and without survivors around
	{
		T := fsmodel.T0
		f := func(p string, seed int) fsmodel.Node {
			return fsmodel.Node{Path: p, Kind: fsmodel.File, Perm: 0644, Mtime: T + int64(seed), Data: fsmodel.Content(seed, 4)}
		}
		dd := func(p string, seed int) fsmodel.Node {
			return fsmodel.Node{Path: p, Kind: fsmodel.Dir, Perm: 0755, Mtime: T + int64(seed)}
		}
		old := fsmodel.Tree{dd("a", 1), f("a/x", 2), dd("b", 3), f("b/y", 4), dd("b/z", 5), f("b/z/w", 6), dd("c", 7), f("c/v", 8), f("d", 9)}
		old.Sort()
		tops := []string{"a", "b", "c", "d"}
		for mask := 0; mask < 1<<len(tops); mask++ {
			var src fsmodel.Tree
			for i, tp := range tops {
				if mask&(1<<i) != 0 {
					src = append(src, old.Under(tp)...)
				}
			}
			for _, mem := range []bool{true, false} {
				c := SyncCase{Src: src, Dst: old, Mem: mem}
				out = append(out, c05Case{Sync: &c})
			}
		}
	}
	// files that changed size between listing and reading: whatever is stored, the digest covers exactly that
	for _, base := range baseTrees() {
		for _, delta := range []int{-3, -1 << 30, 5} {
			for _, dst := range []fsmodel.Tree{nil, base} {
				c := SyncCase{Src: base, Dst: dst, Mem: true, MemResize: delta}
				if dst != nil {
					// make every file differ so that it is requested again
					d := dst.Clone()
					for i := range d {
						if d[i].Kind == fsmodel.File && d[i].HL == 0 {
							d[i].Mtime += 77
						}
					}
					c.Dst = d
				}
				out = append(out, c05Case{Sync: &c})
			}
		}
	}
	for _, s := range fsmodel.AttrVariants("x") {
		for _, d := range fsmodel.AttrVariants("x") {
			if d.Kind == fsmodel.Socket || s.Kind == fsmodel.Socket {
				continue
			}
			c := SyncCase{Src: fsmodel.Tree{s}, Dst: fsmodel.Tree{d}, Mem: s.Kind == fsmodel.Char}
			out = append(out, c05Case{Sync: &c})
			cm := SyncCase{Src: fsmodel.Tree{s}, Dst: fsmodel.Tree{d}, Mem: s.Kind == fsmodel.Char, Merge: true}
			out = append(out, c05Case{Sync: &cm})
			if len(s.Xattrs) > 0 && strings.HasPrefix(firstKey(s.Xattrs), "user.") {
				// a receiver-side Filter that edits the xattr map in place: what is reported is the entry as sent
				cx := SyncCase{Src: fsmodel.Tree{s}, Dst: fsmodel.Tree{d}, FilterXattr: true}
				cy := SyncCase{Src: fsmodel.Tree{s}, FilterXattr: true, Mem: true}
				out = append(out, c05Case{Sync: &cx}, c05Case{Sync: &cy})
			}
		}
	}
	return out
}

// c05AbortCases: every stream call of a small transfer with a multi-chunk file fails in turn.
func c05AbortCases(tier string) []c05Case {
	T := fsmodel.T0
	f := func(p string, seed, size int, mt int64) fsmodel.Node {
		return fsmodel.Node{Path: p, Kind: fsmodel.File, Perm: 0644, Mtime: T + mt, Data: fsmodel.Content(seed, size)}
	}
	src := fsmodel.Tree{f("big", 1, 98304, 1), {Path: "d", Kind: fsmodel.Dir, Perm: 0755, Mtime: T + 2}, f("d/x", 2, 70000, 3), f("s", 3, 9, 4)}
	src.Sort()
	dirty := fsmodel.Tree{f("big", 9, 120000, 7), f("gone", 4, 3, 5), f("s", 3, 9, 4)}
	dirty.Sort()
	var out []c05Case
	for _, dst := range []fsmodel.Tree{nil, dirty} {
		for _, mem := range []bool{true, false} {
			if !mem && tier != "thorough" {
				continue
			}
			for _, end := range []string{"R.recv", "S.send", "R.send", "S.recv"} {
				n := 20 // more than the calls of this transfer: 5 STAT + end + 10 DATA + FIN
				if end == "R.send" || end == "S.recv" {
					n = 6
				}
				for k := 0; k < n; k++ {
					c := SyncCase{Src: src, Dst: dst, Mem: mem}
					out = append(out, c05Case{Sync: &c, Fault: &xfer.Fault{End: end, K: k}})
				}
			}
		}
	}
	return out
}

func runC05(r *evid.Run) {
	r.Technique = "bounded-exhaustive enumeration of (old destination, new source) pairs reachable by edit histories plus all tree/attribute pairs of a small universe; every case is a real Send/Receive with NotifyHashed; oracle = event replay on a model of the old destination + independent snapshots + recomputed digests"
	r.Rule = "one evaluation = one observed transfer; non-trivial = cases where old destination and source differ; states = distinct cases"
	r.Assume = []string{"add and modify are both read as upsert; redundant deletes below an already deleted directory are allowed (the property fixes only top-most deletes)", "digest header = canonical rendering of the stat as sent (the caller's hasher)"}
	cases := c05Cases(r.Tier)
	r.Set("cases", len(cases))
	par.Do(len(cases), par.Workers(), func(i int) {
		c := cases[i]
		key, msg := judgeC05(c)
		r.Evaluations.Add(1)
		r.State(c.String())
		r.Nontrivial(c.String())
		if i%1500 == 3 {
			r.Sample(map[string]any{"case": c.String(), "result": key})
		}
		if key != "" {
			r.Violate(key, c.String()+": "+msg, c)
		}
	})
}

func replayC05(raw json.RawMessage) string {
	var c c05Case
	if err := json.Unmarshal(raw, &c); err != nil {
		return "bad case: " + err.Error()
	}
	key, msg := judgeC05(c)
	if key == "" {
		return ""
	}
	return key + ": " + msg
}

// judgeC05 is judgeC05Raw with a panic of the code under test turned into a verdict (never a crash of the check).
func judgeC05(c c05Case) (k, m string) {
	defer func() {
		if r := recover(); r != nil {
			k, m = "panic", fmt.Sprintf("the code under test panicked: %v", r)
		}
	}()
	return judgeC05Raw(c)
}
