package checks

import (
	"context"
	"encoding/json"
	"fmt"
	"io"
	"os"
	"runtime"
	"sync"
	"sync/atomic"
	"time"

	"github.com/tonistiigi/fsutil"
	"github.com/tonistiigi/fsutil/util"
	"verif/evid"
	"verif/fsmodel"
	"verif/memfs"
	"verif/scratch"
)

// API-level part of C04. The schedule-exploring part (harness/sched/c04.go) drives Send/Receive over a simulated
// packet stream; this part puts the repository's own framing layer (util.NewProtoStream) between the two calls and a
// byte transport that is torn down at every read position in every way a transport ends: end of file, closed pipe,
// and an expired deadline (a transient, timeout-class error on every later call, as net.Conn.SetDeadline gives).

func init() { register("C04", runC04, replayC04) }

type c04pCase struct {
	Mode  string `json:"mode"`  // eof | closed | deadline
	At    int64  `json:"at"`    // the stream is torn down when its At-th read call (0-based, both directions counted) starts
	Dirty bool   `json:"dirty"` // the destination holds an older version
}

func (c c04pCase) String() string {
	return fmt.Sprintf("Send/Receive over util.NewProtoStream, byte transport torn down (%s) at read call #%d, dirty destination=%v", c.Mode, c.At, c.Dirty)
}

type c04Transport struct {
	mode   string
	reads  atomic.Int64
	tearAt int64
	s2r    *c04Half
	r2s    *c04Half
}

type c04Half struct {
	t    *c04Transport
	mu   sync.Mutex
	cond *sync.Cond
	buf  []byte
	torn bool
	// closed: the writing side has finished (its call returned): reads drain the buffer and then report io.EOF
	closed bool
}

func newC04Transport(mode string, tearAt int64) *c04Transport {
	t := &c04Transport{mode: mode, tearAt: tearAt}
	t.s2r, t.r2s = &c04Half{t: t}, &c04Half{t: t}
	t.s2r.cond, t.r2s.cond = sync.NewCond(&t.s2r.mu), sync.NewCond(&t.r2s.mu)
	return t
}

func (t *c04Transport) tear() {
	for _, h := range []*c04Half{t.s2r, t.r2s} {
		h.mu.Lock()
		h.torn = true
		h.cond.Broadcast()
		h.mu.Unlock()
	}
}

func (t *c04Transport) err(read bool) error {
	switch t.mode {
	case "eof":
		if read {
			return io.EOF
		}
		return io.ErrClosedPipe
	case "deadline":
		return os.ErrDeadlineExceeded // Timeout() and Temporary() are true
	}
	return io.ErrClosedPipe
}

func (h *c04Half) Read(p []byte) (int, error) {
	if n := h.t.reads.Add(1) - 1; h.t.tearAt >= 0 && n == h.t.tearAt {
		h.t.tear()
	}
	h.mu.Lock()
	defer h.mu.Unlock()
	for len(h.buf) == 0 && !h.torn && !h.closed {
		h.cond.Wait()
	}
	if h.torn {
		return 0, h.t.err(true)
	}
	if len(h.buf) == 0 {
		return 0, io.EOF
	}
	n := copy(p, h.buf)
	h.buf = h.buf[n:]
	return n, nil
}

func (h *c04Half) closeWrite() {
	h.mu.Lock()
	h.closed = true
	h.cond.Broadcast()
	h.mu.Unlock()
}

func (h *c04Half) Write(p []byte) (int, error) {
	h.mu.Lock()
	defer h.mu.Unlock()
	if h.torn {
		return 0, h.t.err(false)
	}
	h.buf = append(h.buf, p...)
	h.cond.Broadcast()
	return len(p), nil
}

func c04pTrees() (src, dirty fsmodel.Tree) {
	T := fsmodel.T0
	f := func(p string, seed, size int, mt int64) fsmodel.Node {
		return fsmodel.Node{Path: p, Kind: fsmodel.File, Perm: 0644, Mtime: T + mt, Data: fsmodel.Content(seed, size)}
	}
	src = fsmodel.Tree{f("a", 1, 5, 1), {Path: "d", Kind: fsmodel.Dir, Perm: 0755, Mtime: T + 2}, f("d/b", 2, 70000, 3), f("e", 3, 0, 4),
		{Path: "l", Kind: fsmodel.Symlink, Perm: 0777, Mtime: T + 5, Link: "a"}, f("z", 4, 33000, 6)}
	dirty = fsmodel.Tree{f("a", 9, 5, 9), f("stale", 8, 3, 1), f("z", 7, 100, 6)}
	src.Sort()
	dirty.Sort()
	return
}

var c04pHang atomic.Bool

const c04pWait = 30 * time.Second

// runC04p plays one case. reads = number of read calls the transport saw.
func runC04p(c c04pCase) (key, msg string, reads int64) {
	src, dirty := c04pTrees()
	dest := scratch.Dir("c04p")
	defer scratch.Remove(dest)
	if c.Dirty {
		if err := fsmodel.Materialize(dirty, dest); err != nil {
			return "infra", err.Error(), 0
		}
	}
	base := runtime.NumGoroutine()
	t := newC04Transport(c.Mode, c.At)
	ctx := context.Background()
	ss := util.NewProtoStream(ctx, t.r2s, t.s2r)
	rs := util.NewProtoStream(ctx, t.s2r, t.r2s)
	var sendErr, recvErr error
	var wg sync.WaitGroup
	wg.Add(2)
	// a side whose call has returned closes its direction of the transport, as cmd/send and cmd/receive do on exit
	go func() { defer wg.Done(); defer t.s2r.closeWrite(); sendErr = fsutil.Send(ctx, ss, memfs.New(src), nil) }()
	go func() {
		defer wg.Done()
		defer t.r2s.closeWrite()
		recvErr = fsutil.Receive(ctx, rs, dest, fsutil.ReceiveOpt{})
	}()
	done := make(chan struct{})
	go func() { wg.Wait(); close(done) }()
	select {
	case <-done:
	case <-time.After(c04pWait):
		c04pHang.Store(true)
		return "hang-after-teardown:protostream", fmt.Sprintf("Send and Receive have not both returned %v after the transport was torn down", c04pWait), t.reads.Load()
	}
	reads = t.reads.Load()
	// every goroutine the two calls started ends
	deadline := time.Now().Add(10 * time.Second)
	for runtime.NumGoroutine() > base+1 && time.Now().Before(deadline) { // +1: the wg.Wait helper may still be unwinding
		runtime.Gosched()
		time.Sleep(time.Millisecond)
	}
	if n := runtime.NumGoroutine(); n > base+1 {
		return "goroutine-leak:protostream", fmt.Sprintf("%d goroutines more than before the transfer, 10s after both calls returned (send: %v, receive: %v)", n-base, sendErr, recvErr), reads
	}
	if c.At < 0 {
		if sendErr != nil || recvErr != nil {
			return "transfer-failed:protostream", fmt.Sprintf("without any fault: send %v, receive %v", sendErr, recvErr), reads
		}
	}
	if recvErr == nil {
		got, err := fsmodel.Snapshot(dest)
		if err != nil {
			return "infra", err.Error(), reads
		}
		if d := fsmodel.Diff(sourceView(src), got, fsmodel.Mask{}); len(d) > 0 {
			return "false-success-receive:protostream", fmt.Sprintf("Receive returned nil but the destination differs from the source: %s", d[0]), reads
		}
	}
	return "", "", reads
}

func runC04(r *evid.Run) {
	r.Technique = "every read position of a fault-free transfer x 3 ways a byte transport ends (EOF, closed, expired deadline = transient error on every later call), real Send/Receive over util.NewProtoStream; oracle: both calls return, goroutines end, success only with an equal destination"
	r.Rule = "API part: one evaluation = one real transfer over the repository's framing layer with the transport torn down at one read call"
	r.Assume = []string{"API part: a call that has not returned 30s after the teardown is a hang (a fault-free transfer of this tree takes milliseconds); after the first hang the remaining cases of this part are skipped, because a spinning goroutine cannot be stopped"}
	var n int64
	for _, dirty := range []bool{false, true} {
		k, m, reads := runC04p(c04pCase{Mode: "eof", At: -1, Dirty: dirty})
		r.Evaluations.Add(1)
		if k != "" {
			r.Violate(k, m, c04pCase{Mode: "eof", At: -1, Dirty: dirty})
			continue
		}
		step := int64(1)
		if r.Tier != "thorough" && reads > 60 {
			step = reads/60 + 1
		}
		for _, mode := range []string{"deadline", "eof", "closed"} {
			for at := int64(0); at < reads+2; at++ {
				if at > 12 && at < reads-12 && at%step != 0 {
					continue
				}
				if c04pHang.Load() {
					r.Exhaustive = false
					break
				}
				c := c04pCase{Mode: mode, At: at, Dirty: dirty}
				k, m, _ := runC04p(c)
				r.Evaluations.Add(1)
				r.StateH(evid.H(c.String()))
				r.Nontrivial(c.String())
				n++
				if k != "" {
					r.Violate(k, c.String()+": "+m, c)
				}
			}
		}
	}
	r.Set("protostream_teardown_cases", n)
	r.Sample(map[string]any{"case": c04pCase{Mode: "deadline", At: 7}.String()})
}

func replayC04(raw json.RawMessage) string {
	var c c04pCase
	if err := json.Unmarshal(raw, &c); err != nil {
		return "infra: " + err.Error()
	}
	k, m, _ := runC04p(c)
	if k == "" {
		return ""
	}
	return k + ": " + m
}
