package checks

import (
	"context"
	"encoding/json"
	"fmt"
	"os"
	"path"
	"path/filepath"
	"sort"
	"strings"
	"sync"
	"sync/atomic"
	"time"

	"github.com/tonistiigi/fsutil"
	fscopy "github.com/tonistiigi/fsutil/copy"
	"verif/evid"
	"verif/fsmodel"
	"verif/par"
	"verif/scratch"
)

func init() { register("C13", runC13, replayC13) }

type c13Opts struct {
	Chown   bool   `json:"chown,omitempty"` // 1000:1000
	Mode    int    `json:"mode,omitempty"`  // 0 = unset
	ModeStr string `json:"modestr,omitempty"`
	Utime   bool   `json:"utime,omitempty"`
	AllowX  bool   `json:"allowx,omitempty"`
	Follow  bool   `json:"follow,omitempty"`
}

type c13Case struct {
	Tree   string        `json:"tree"` // rich | links
	Src    string        `json:"src"`  // path below the source root ("/" = whole tree)
	Dst    string        `json:"dst"`  // "/", "new", "new/deep/er"
	DirC   bool          `json:"dirc"` // CopyDirContents
	Opts   c13Opts       `json:"opts"`
	Single *fsmodel.Node `json:"single,omitempty"`
	Wild   bool          `json:"wild,omitempty"` // Src is a wildcard pattern (AllowWildcards)
	// dstIsDir (model only): an earlier wildcard match has already made the destination path a directory
	dstIsDir bool
}

func (c c13Case) String() string {
	return fmt.Sprintf("tree=%s src=%q dst=%q dircontents=%v opts=%+v wildcards=%v", c.Tree, c.Src, c.Dst, c.DirC, c.Opts, c.Wild)
}

var c13Time = time.Unix(1_234_567_890, 123_456_789)

// richTree holds every (kind, attribute) variant at top level and inside d/,
// hard-link groups across directories, a symlink to a file and one to a directory.
func richTree() fsmodel.Tree {
	var t fsmodel.Tree
	add := func(prefix string) {
		for i, n := range fsmodel.AttrVariants("x") {
			n.Path = fmt.Sprintf("%sv%02d", prefix, i)
			n.Mtime += int64(i)
			t = append(t, n)
		}
	}
	t = append(t, fsmodel.Node{Path: "d", Kind: fsmodel.Dir, Perm: 02750, UID: 3, GID: 4, Mtime: fsmodel.T0 + 500, Xattrs: map[string]string{"user.dir": "d"}})
	add("")
	add("d/")
	for _, p := range []string{"h1", "d/h2", "d/v20/h3"} { // v20+ are directories in AttrVariants order
		_ = p
	}
	t = append(t, fsmodel.Node{Path: "e", Kind: fsmodel.Dir, Perm: 0700, Mtime: fsmodel.T0 + 501})
	g := func(p string, hl int, seed int) fsmodel.Node {
		return fsmodel.Node{Path: p, Kind: fsmodel.File, Perm: 0640, UID: 9, GID: 9, Mtime: fsmodel.T0 + int64(600+seed), Data: fsmodel.Content(seed, 33), HL: hl}
	}
	t = append(t, g("h1", 1, 1), g("d/h2", 1, 1), g("e/h3", 1, 1), g("e/k1", 2, 2), g("k2", 2, 2))
	// file capabilities (the kernel drops security.capability on chown, so order matters)
	t = append(t, fsmodel.Node{Path: "capfile", Kind: fsmodel.File, Perm: 0755, Mtime: fsmodel.T0 + 720, Data: []byte("cap"),
		Xattrs: map[string]string{"security.capability": "\x01\x00\x00\x02\x00\x04\x00\x00\x00\x00\x00\x00\x00\x00\x00\x00\x00\x00\x00\x00"}})
	// directories without any execute bit (symbolic X must still treat them as directories)
	t = append(t, fsmodel.Node{Path: "nx", Kind: fsmodel.Dir, Perm: 0644, Mtime: fsmodel.T0 + 710}, fsmodel.Node{Path: "nx/f", Kind: fsmodel.File, Perm: 0600, Mtime: fsmodel.T0 + 711, Data: []byte("nx")},
		fsmodel.Node{Path: "d/nx2", Kind: fsmodel.Dir, Perm: 0600, Mtime: fsmodel.T0 + 712})
	// file capabilities on an inode with several names
	capx := map[string]string{"security.capability": "\x01\x00\x00\x02\x00\x20\x00\x00\x00\x00\x00\x00\x00\x00\x00\x00\x00\x00\x00\x00"}
	for _, p := range []string{"capl1", "d/capl2"} {
		t = append(t, fsmodel.Node{Path: p, Kind: fsmodel.File, Perm: 0755, UID: 5, GID: 6, Mtime: fsmodel.T0 + 721, Data: []byte("capl"), HL: 3, Xattrs: capx})
	}
	// three levels for wildcards with several pattern components
	for i, p := range []string{"w", "w/ax", "w/ax/bx", "w/ax/cc", "w/bx", "w/bx/dd"} {
		t = append(t, fsmodel.Node{Path: p, Kind: fsmodel.Dir, Perm: 0755, Mtime: fsmodel.T0 + int64(730+i)})
	}
	for i, p := range []string{"w/ax/bx/f1", "w/ax/cc/f2", "w/ax/cc/g3", "w/bx/dd/f4", "w/ax/top5"} {
		t = append(t, fsmodel.Node{Path: p, Kind: fsmodel.File, Perm: 0644, Mtime: fsmodel.T0 + int64(740+i), Data: fsmodel.Content(80+i, 9)})
	}
	// names at the length limit of a directory entry (255 bytes) and just below it, of every kind that is written
	// through its own code path, and one nested inside the other
	long := func(c string, n int) string { return strings.Repeat(c, n) }
	t = append(t, fsmodel.Node{Path: long("n", 255), Kind: fsmodel.File, Perm: 0644, Mtime: fsmodel.T0 + 750, Data: []byte("long")},
		fsmodel.Node{Path: "d/" + long("m", 252), Kind: fsmodel.File, Perm: 0600, Mtime: fsmodel.T0 + 751, Data: fsmodel.Content(90, 40000)},
		fsmodel.Node{Path: long("q", 255), Kind: fsmodel.Dir, Perm: 0755, Mtime: fsmodel.T0 + 752},
		fsmodel.Node{Path: long("q", 255) + "/" + long("r", 255), Kind: fsmodel.File, Perm: 0644, Mtime: fsmodel.T0 + 753, Data: []byte("nested")},
		fsmodel.Node{Path: long("q", 255) + "/" + long("s", 255), Kind: fsmodel.Symlink, Perm: 0777, Mtime: fsmodel.T0 + 754, Link: long("r", 255)},
		fsmodel.Node{Path: long("q", 255) + "/" + long("t", 254), Kind: fsmodel.Fifo, Perm: 0644, Mtime: fsmodel.T0 + 755})
	t = append(t, fsmodel.Node{Path: "lf", Kind: fsmodel.Symlink, Perm: 0777, Mtime: fsmodel.T0 + 700, Link: "v00"},
		fsmodel.Node{Path: "ld", Kind: fsmodel.Symlink, Perm: 0777, Mtime: fsmodel.T0 + 701, Link: "e"})
	t.Sort()
	if !t.Valid() {
		panic("richTree invalid")
	}
	return t
}

// applyModeRef is the reference for the option semantics.
func applyModeRef(n fsmodel.Node, o c13Opts) (perm uint32, looseSpecial bool) {
	perm = n.Perm
	switch o.ModeStr {
	case "":
		if o.Mode != 0 {
			perm = uint32(o.Mode) & 07777
		}
	case "u+x":
		perm |= 0100
	case "go-rwx":
		perm &^= 0077
	case "a+X":
		if n.Kind == fsmodel.Dir || perm&0111 != 0 {
			perm |= 0111
		}
	case "u=rw,go=r":
		perm = perm&07000 | 0644
		looseSpecial = true // whether '=' keeps set-id bits differs between chmod implementations
	}
	return perm, looseSpecial
}

type c13Expect struct {
	tree    fsmodel.Tree
	created []string // directories the call had to create above the target
	loose   map[string]bool
}

// expectCopy models where the selection lands for a copy into an empty destination.
func expectCopy(src fsmodel.Tree, c c13Case) c13Expect {
	if c.Wild {
		// a wildcard copy is the union of its matches, each copied on its own into the destination; inode sharing
		// is judged over the union
		var ex c13Expect
		ex.loose = map[string]bool{}
		pat := strings.Trim(c.Src, "/")
		seen := map[string]bool{}
		for _, n := range src {
			if ok, _ := path.Match(pat, n.Path); !ok {
				continue
			}
			mc := c
			mc.Wild, mc.Src = false, n.Path
			// the first match meets the destination as the caller left it; later ones find the directory it became
			mc.dstIsDir = len(seen) > 0 || len(ex.created) > 0
			one := expectCopyRaw(src, mc)
			for _, m := range one.tree {
				if !seen[m.Path] {
					seen[m.Path] = true
					ex.tree = append(ex.tree, m)
				}
			}
			for k := range one.loose {
				ex.loose[k] = true
			}
			if !mc.dstIsDir {
				ex.created = one.created
			}
		}
		ex.tree = fixGroups(ex.tree)
		ex.tree.Sort()
		return ex
	}
	ex := expectCopyRaw(src, c)
	ex.tree = fixGroups(ex.tree)
	ex.tree.Sort()
	return ex
}

func expectCopyRaw(src fsmodel.Tree, c c13Case) c13Expect {
	var sel fsmodel.Tree
	srcRel := strings.Trim(c.Src, "/")
	if c.Opts.Follow && srcRel != "" {
		if n := src.Find(srcRel); n != nil && n.Kind == fsmodel.Symlink {
			// the argument is resolved inside the source root; the copy keeps the argument's name
			tgt := path.Clean(path.Join(path.Dir(srcRel), n.Link))
			sub := src.Under(tgt)
			for _, m := range sub {
				m.Path = srcRel + strings.TrimPrefix(m.Path, tgt)
				sel = append(sel, m)
			}
		}
	}
	if sel == nil {
		if srcRel == "" {
			sel = src.Clone()
		} else {
			sel = src.Under(srcRel)
		}
	}
	top := srcRel
	isDir := srcRel == "" || (len(sel) > 0 && sel[0].Path == srcRel && sel[0].Kind == fsmodel.Dir)
	dstRel := strings.Trim(c.Dst, "/")
	var ex c13Expect
	ex.loose = map[string]bool{}
	// destination path of the top entry
	var base string
	switch {
	case dstRel == "" || c.dstIsDir: // existing directory: a directory nests unless dir-contents, a file lands inside
		if isDir && c.DirC {
			base = dstRel
		} else {
			base = path.Join(dstRel, path.Base(top))
		}
	default: // not-yet-existing name: the top entry takes that name
		base = dstRel
		parts := strings.Split(dstRel, "/")
		for i := 1; i < len(parts); i++ {
			ex.created = append(ex.created, strings.Join(parts[:i], "/"))
		}
		if isDir && c.DirC {
			ex.created = append(ex.created, dstRel)
		}
	}
	for _, n := range sel {
		rel := strings.TrimPrefix(strings.TrimPrefix(n.Path, top), "/")
		if rel == "" && isDir && (srcRel == "" || c.DirC) {
			continue // the top directory itself is merged into / created as the destination
		}
		m := n
		m.Path = strings.Trim(path.Join(base, rel), "/")
		if m.Path == "" {
			continue
		}
		if m.Kind == fsmodel.Socket {
			m.Kind, m.Data = fsmodel.File, nil
		}
		if c.Opts.Chown {
			m.UID, m.GID = 1000, 1000
		}
		if m.Kind != fsmodel.Symlink {
			p, loose := applyModeRef(n, c.Opts)
			m.Perm = p
			if loose {
				ex.loose[m.Path] = true
			}
		}
		if c.Opts.Utime {
			m.Mtime = c13Time.UnixNano()
		}
		ex.tree = append(ex.tree, m)
	}
	return ex
}

// judgeC13Repoint: two copies from ONE source root in one process; between them a symlink on the way to the copied
// path is pointed elsewhere (current -> releases/v1, then -> releases/v2). Each copy reproduces what the path names
// when it runs.
func judgeC13Repoint(c c13Case) (string, string) {
	root := scratch.Dir("cp13r")
	defer scratch.Remove(root)
	src := filepath.Join(root, "src")
	T := fsmodel.T0
	f := func(p, data string, i int64) fsmodel.Node {
		return fsmodel.Node{Path: p, Kind: fsmodel.File, Perm: 0644, Mtime: T + i, Data: []byte(data)}
	}
	d := func(p string) fsmodel.Node { return fsmodel.Node{Path: p, Kind: fsmodel.Dir, Perm: 0755, Mtime: T} }
	tree := fsmodel.Tree{d("releases"), d("releases/v1"), f("releases/v1/app", "version 1", 1), d("releases/v1/conf"), f("releases/v1/conf/x", "x1", 2),
		d("releases/v2"), f("releases/v2/app", "version two", 3), d("releases/v2/conf"), f("releases/v2/conf/y", "y2", 4)}
	os.Mkdir(src, 0755)
	if err := fsmodel.Materialize(tree, src); err != nil {
		return "infra", err.Error()
	}
	for step, ver := range []string{"v1", "v2", "v1"} {
		os.Remove(filepath.Join(src, "current"))
		if err := os.Symlink("releases/"+ver, filepath.Join(src, "current")); err != nil {
			return "infra", err.Error()
		}
		for _, what := range []string{"current/app", "current/conf"} {
			dst := filepath.Join(root, fmt.Sprintf("dst%d", step))
			os.Mkdir(dst, 0755)
			ci := fscopy.CopyInfo{FollowLinks: c.Opts.Follow, CopyDirContents: false}
			if err := boundedCopy(func() error { return fscopy.Copy(context.Background(), src, what, dst, "/", fscopy.WithCopyInfo(ci)) }); err != nil {
				return "copy-failed", fmt.Sprintf("step %d (%s): %v", step, what, err)
			}
			got, err := fsmodel.Snapshot(dst)
			if err != nil {
				return "infra", err.Error()
			}
			if what == "current/app" {
				n := got.Find("app")
				want := tree.Find("releases/" + ver + "/app")
				if n == nil || string(n.Data) != string(want.Data) {
					return "copy-differs:stale-source", fmt.Sprintf("copy #%d of %q while current -> releases/%s: got %v, the source path holds %q", step+1, what, ver, n, want.Data)
				}
			} else {
				name := map[string]string{"v1": "conf/x", "v2": "conf/y"}[ver]
				if got.Find(name) == nil {
					return "copy-differs:stale-source", fmt.Sprintf("copy #%d of %q while current -> releases/%s: %s is missing from %v", step+1, what, ver, name, got.Paths())
				}
			}
		}
	}
	return "", ""
}

func judgeC13Raw(c c13Case) (string, string) {
	if c.Tree == "repoint" {
		return judgeC13Repoint(c)
	}
	root := scratch.Dir("cp13")
	defer scratch.Remove(root)
	// the roots carry pattern metacharacters in their own names: only what lies below a root is ever matched
	srcDir, dstDir := filepath.Join(root, "s[1]rc"), filepath.Join(root, "d[s]t*")
	os.Mkdir(srcDir, 0755)
	os.Mkdir(dstDir, 0755)
	// the destination is a shared directory: set-group-ID with a foreign group, so that the kernel hands that
	// group (and the bit) to everything created below it - ownership left to creation shows
	os.Chown(dstDir, 0, 4242)
	os.Chmod(dstDir, 0775|os.ModeSetgid)
	var tree fsmodel.Tree
	switch {
	case c.Single != nil:
		tree = fsmodel.Tree{*c.Single}
	case c.Tree == "xfail":
		// the destination is on another file system, which refuses the large attribute value
		tree = xfailTree()
		dstDir = scratch.DiskDir("cp13")
		if dstDir == "" || !refusesBigXattr(dstDir) {
			return "skipped", ""
		}
		defer scratch.Remove(dstDir)
	default:
		tree = richTree()
	}
	if err := fsmodel.Materialize(tree, srcDir); err != nil {
		return "infra", err.Error()
	}
	srcSnap, err := fsmodel.Snapshot(srcDir)
	if err != nil {
		return "infra", err.Error()
	}
	var mu sync.Mutex
	notes := map[string]int{}
	ci := fscopy.CopyInfo{CopyDirContents: c.DirC, FollowLinks: c.Opts.Follow, ModeStr: c.Opts.ModeStr, AllowWildcards: c.Wild,
		ChangeFunc: func(k fsutil.ChangeKind, p string, fi os.FileInfo, err error) error {
			mu.Lock()
			if fi != nil && !fi.IsDir() {
				notes[p]++
			}
			mu.Unlock()
			return nil
		}}
	if c.Opts.Chown {
		ci.Chown = func(*fscopy.User) (*fscopy.User, error) { return &fscopy.User{UID: 1000, GID: 1000}, nil }
	}
	if c.Opts.Mode != 0 {
		m := c.Opts.Mode
		ci.Mode = &m
	}
	if c.Opts.Utime {
		t := c13Time
		ci.Utime = &t
	}
	if c.Opts.AllowX {
		ci.XAttrErrorHandler = func(string, string, string, error) error { return nil }
	}
	if err := boundedCopy(func() error {
		// how a root is spelled does not matter: every third case hands both roots over with a trailing separator,
		// every third (other) one with a redundant "/." at the end
		sr, dr := srcDir, dstDir
		switch evid.H(c.String()) % 4 {
		case 1:
			sr, dr = sr+"/", dr+"/"
		case 2:
			sr, dr = sr+"/.", dr+"//"
		case 3:
			// ... and every fourth one reaches the destination root through a symlink
			if os.Symlink(filepath.Base(dr), dr+".lnk") == nil {
				dr = dr + ".lnk"
			}
		}
		return fscopy.Copy(context.Background(), sr, c.Src, dr, c.Dst, fscopy.WithCopyInfo(ci))
	}); err != nil {
		if err == errCopyHangs {
			return "copy-hangs", err.Error()
		}
		return "copy-failed", err.Error()
	}
	got, err := fsmodel.Snapshot(dstDir)
	if err != nil {
		return "infra", err.Error()
	}
	ex := expectCopy(srcSnap, c)
	if c.Tree == "xfail" {
		for i := range ex.tree {
			for k, v := range ex.tree[i].Xattrs {
				if len(v) >= bigXattr {
					delete(ex.tree[i].Xattrs, k) // refused by the destination, tolerated by the handler
				}
			}
		}
	}
	created := map[string]bool{}
	for _, d := range ex.created {
		created[d] = true
	}
	var gotCmp fsmodel.Tree
	for _, n := range got {
		if created[n.Path] {
			// directories created above the target: requested owner and timestamp
			if c.Opts.Chown && (n.UID != 1000 || n.GID != 1000) {
				return "created-parent-owner", fmt.Sprintf("%s was created for the copy but is owned by %d:%d", n.Path, n.UID, n.GID)
			}
			if c.Opts.Utime && n.Mtime != c13Time.UnixNano() {
				return "created-parent-time", fmt.Sprintf("%s was created for the copy but has mtime %d, requested %d", n.Path, n.Mtime, c13Time.UnixNano())
			}
			continue
		}
		if ex.loose[n.Path] {
			n.Perm &= 0777
		}
		gotCmp = append(gotCmp, n)
	}
	want := ex.tree.Clone()
	for i := range want {
		if ex.loose[want[i].Path] {
			want[i].Perm &= 0777
		}
	}
	for _, d := range ex.created {
		if got.Find(d) == nil {
			return "created-parent-missing", d
		}
	}
	if d := fsmodel.Diff(want, gotCmp, fsmodel.Mask{}); len(d) > 0 {
		return "copy-differs:" + diffClass(d[0]), strings.Join(head(d, 5), " | ")
	}
	// notifier: once per non-directory written, with its destination path
	wantNotes := map[string]int{}
	for _, n := range want {
		if n.Kind != fsmodel.Dir {
			wantNotes["/"+n.Path]++
		}
	}
	var bad []string
	for p, k := range wantNotes {
		if notes[p] != k {
			bad = append(bad, fmt.Sprintf("%s notified %d times", p, notes[p]))
		}
	}
	for p, k := range notes {
		if wantNotes[p] == 0 {
			bad = append(bad, fmt.Sprintf("%s notified %d times but is not a non-directory written by the copy", p, k))
		}
	}
	if len(bad) > 0 {
		sort.Strings(bad)
		return "notifier", strings.Join(head(bad, 4), " | ")
	}
	return "", ""
}

const bigXattr = 8000

// xfailTree: one entry whose only attribute is too large for the destination, before and next to entries that
// carry small values under the same and under other names.
func xfailTree() fsmodel.Tree {
	f := func(p string, x map[string]string) fsmodel.Node {
		return fsmodel.Node{Path: p, Kind: fsmodel.File, Perm: 0644, Mtime: fsmodel.T0 + int64(len(p)), Data: []byte(p), Xattrs: x}
	}
	big := strings.Repeat("B", bigXattr)
	t := fsmodel.Tree{f("a", map[string]string{"user.k": big}), f("b", map[string]string{"user.k": "small", "user.o": "o"}),
		{Path: "d", Kind: fsmodel.Dir, Perm: 0755, Mtime: fsmodel.T0, Xattrs: map[string]string{"user.k": "dir"}}, f("d/c", map[string]string{"user.k": "c"}),
		f("d/e", map[string]string{"user.k": big}), f("z", map[string]string{"user.k": "z", "user.z": "zz"}),
		// ... and entries that carry a refused value next to values that fit: the handler tolerates the one, the others
		// are still copied
		f("m", map[string]string{"user.a": big, "user.z": "after"}), f("n", map[string]string{"user.a": "before", "user.z": big}),
		f("o", map[string]string{"user.a": "1", "user.m": big, "user.z": "2"})}
	t.Sort()
	return t
}

func refusesBigXattr(dir string) bool {
	p := filepath.Join(dir, ".probe")
	if err := os.WriteFile(p, nil, 0600); err != nil {
		return false
	}
	defer os.Remove(p)
	return fsmodel.SetXattr(p, "user.k", strings.Repeat("B", bigXattr)) != nil && fsmodel.SetXattr(p, "user.k", "small") == nil
}

func c13OptSets(tier string) []c13Opts {
	var out []c13Opts
	for _, chown := range []bool{false, true} {
		for _, utime := range []bool{false, true} {
			for _, allow := range []bool{false, true} {
				for _, m := range []int{0, 0640, 04711} {
					out = append(out, c13Opts{Chown: chown, Mode: m, Utime: utime, AllowX: allow})
				}
				for _, ms := range []string{"u+x", "go-rwx", "a+X", "u=rw,go=r"} {
					out = append(out, c13Opts{Chown: chown, ModeStr: ms, Utime: utime, AllowX: allow})
				}
			}
		}
	}
	return out
}

func runC13(r *evid.Run) {
	r.Technique = "bounded-exhaustive enumeration of (option set x copy target x destination form) on a tree holding every (kind, attribute) variant and cross-directory hard-link groups; every case one real Copy; oracle = independent snapshot vs an executable model of cp -a with the requested owner/mode/time substituted"
	r.Rule = "one evaluation = one copy; 56 option sets x {whole tree, sub-directory, single file, single symlink with and without follow-links} x {existing empty dir, new name, new/deep/er}; plus every attribute variant copied alone; non-trivial = all (each differs in options or target); states = distinct cases"
	r.Assume = []string{"runs as root on tmpfs", "symbolic modes are compared against a hand-written reference for the five strings used; set-id bits under '=' are not compared"}
	var cases []c13Case
	opts := c13OptSets(r.Tier)
	for _, o := range opts {
		for _, dst := range []string{"/", "new", "new/deep/er"} {
			cases = append(cases, c13Case{Tree: "rich", Src: "/", Dst: dst, DirC: true, Opts: o})
			cases = append(cases, c13Case{Tree: "rich", Src: "d", Dst: dst, Opts: o})
			cases = append(cases, c13Case{Tree: "rich", Src: "d", Dst: dst, DirC: true, Opts: o})
			cases = append(cases, c13Case{Tree: "rich", Src: "e/h3", Dst: dst, Opts: o})
			cases = append(cases, c13Case{Tree: "rich", Src: "v04", Dst: dst, Opts: o}) // a setuid file
			for _, follow := range []bool{false, true} {
				of := o
				of.Follow = follow
				cases = append(cases, c13Case{Tree: "rich", Src: "lf", Dst: dst, Opts: of})
				cases = append(cases, c13Case{Tree: "rich", Src: "ld", Dst: dst, Opts: of})
			}
		}
	}
	for _, n := range fsmodel.AttrVariants("x") {
		n := n
		for _, o := range []c13Opts{{}, {Chown: true, Utime: true}, {Mode: 04711}, {ModeStr: "a+X"}} {
			for _, dst := range []string{"/", "new"} {
				cases = append(cases, c13Case{Src: "x", Dst: dst, Opts: o, Single: &n})
			}
		}
	}
	// wildcard sources: hard-link groups reach across matches
	for _, o := range []c13Opts{{}, {Chown: true, Utime: true}, {Mode: 0640}, {AllowX: true}} {
		for _, pat := range []string{"*", "?*", "d/*", "[a-z]*", "w/?x/*/f?", "w/*/*/*", "w/ax/*/*", "w/*/cc", "*/h?"} {
			cases = append(cases, c13Case{Tree: "rich", Src: pat, Dst: "/", Opts: o, Wild: true})
		}
	}
	// wildcard matches (directories first, then a file) merged into a destination the call has to create
	for _, o := range []c13Opts{{}, {Chown: true, Utime: true}, {Utime: true}} {
		for _, pat := range []string{"[d-h]*", "[de]", "[d-e]*"} {
			for _, dst := range []string{"new", "new/deep/er"} {
				cases = append(cases, c13Case{Tree: "rich", Src: pat, Dst: dst, DirC: true, Opts: o, Wild: true})
			}
		}
	}
	// a tolerant xattr error handler and a destination that refuses one attribute value
	for _, o := range []c13Opts{{AllowX: true}, {AllowX: true, Chown: true, Utime: true}} {
		cases = append(cases, c13Case{Tree: "repoint", Src: "current/*", Dst: "/", Opts: o})
		cases = append(cases, c13Case{Tree: "xfail", Src: "/", Dst: "/", DirC: true, Opts: o}, c13Case{Tree: "xfail", Src: "/", Dst: "new", DirC: true, Opts: o},
			c13Case{Tree: "xfail", Src: "*", Dst: "/", Opts: o, Wild: true})
	}
	r.Set("cases", len(cases))
	r.Set("option_sets", len(opts))
	var skipped atomic.Int64
	defer func() { r.Set("cases_skipped_no_second_filesystem", skipped.Load()) }()
	par.Do(len(cases), par.Workers(), func(i int) {
		c := cases[i]
		key, msg := judgeC13(c)
		if key == "skipped" {
			skipped.Add(1)
			return
		}
		r.Evaluations.Add(1)
		r.StateH(evid.H(c.String() + fmt.Sprint(c.Single)))
		r.Nontrivial(c.String() + fmt.Sprint(c.Single))
		if i%700 == 29 {
			r.Sample(map[string]any{"case": c.String(), "result": key})
		}
		if key != "" {
			r.Violate(key, c.String()+": "+msg, c)
		}
	})
}

func replayC13(raw json.RawMessage) string {
	var c c13Case
	if err := json.Unmarshal(raw, &c); err != nil {
		return "bad case: " + err.Error()
	}
	k, m := judgeC13(c)
	if k == "" {
		return ""
	}
	return k + ": " + m
}

// judgeC13 is judgeC13Raw with a panic of the code under test turned into a verdict (never a crash of the check).
func judgeC13(c c13Case) (k, m string) {
	defer func() {
		if r := recover(); r != nil {
			k, m = "panic", fmt.Sprintf("the code under test panicked: %v", r)
		}
	}()
	return judgeC13Raw(c)
}
