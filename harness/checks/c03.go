package checks

import (
	"context"
	"encoding/json"
	"fmt"
	"io"
	"os"
	"os/exec"
	"path"
	"path/filepath"
	"runtime"
	"strconv"
	"strings"
	"sync"
	"sync/atomic"
	"syscall"
	"time"

	"github.com/tonistiigi/fsutil"
	"github.com/tonistiigi/fsutil/types"
	"verif/evid"
	"verif/fsmodel"
	"verif/par"
	"verif/scratch"
)

func init() {
	register("C03", runC03, replayC03)
	Children["c03"] = childC03
}

// sym is one packet of the hostile sender's alphabet.
type sym struct {
	T     string `json:"t"` // stat | data | end | fin | err
	Path  string `json:"path,omitempty"`
	Kind  string `json:"kind,omitempty"` // dir file symabs symrel hl:<name> filex symx dirsym fifo
	ID    uint32 `json:"id,omitempty"`
	Empty bool   `json:"empty,omitempty"`
}

func (s sym) String() string {
	switch s.T {
	case "stat":
		return fmt.Sprintf("STAT %q %s", s.Path, s.Kind)
	case "data":
		if s.Empty {
			return fmt.Sprintf("DATA %d <end>", s.ID)
		}
		return fmt.Sprintf("DATA %d payload", s.ID)
	}
	return strings.ToUpper(s.T)
}

const (
	relOutF = "../../../outside/f"
	relOutD = "../../../outside/d"
)

func (s sym) packet() *types.Packet {
	switch s.T {
	case "end":
		return &types.Packet{Type: types.PACKET_STAT}
	case "fin":
		return &types.Packet{Type: types.PACKET_FIN}
	case "err":
		return &types.Packet{Type: types.PACKET_ERR, Data: []byte("hostile")}
	case "data":
		p := &types.Packet{Type: types.PACKET_DATA, ID: s.ID}
		if !s.Empty {
			p.Data = []byte("EVIL-PAYLOAD")
		}
		return p
	}
	st := &types.Stat{Path: s.Path, Mode: 0644, ModTime: 1_400_000_000_000_000_000, Uid: 4321, Gid: 4321}
	switch {
	case s.Kind == "dir":
		st.Mode = uint32(os.ModeDir | 0777)
	case s.Kind == "file":
		st.Size = 12
	case s.Kind == "symabs":
		st.Mode, st.Linkname = uint32(os.ModeSymlink|0777), "/outside/d"
	case s.Kind == "symrel":
		st.Mode, st.Linkname = uint32(os.ModeSymlink|0777), relOutF
	case strings.HasPrefix(s.Kind, "hl:"):
		st.Linkname = s.Kind[3:]
	case s.Kind == "filex":
		st.Xattrs = map[string][]byte{"user.evil": []byte("1")}
	case s.Kind == "symx":
		st.Mode, st.Linkname = uint32(os.ModeSymlink|0777), "/outside/f"
		st.Xattrs = map[string][]byte{"user.evil": []byte("1")}
	case s.Kind == "dirsym":
		st.Mode, st.Linkname = uint32(os.ModeDir|os.ModeSymlink|0777), "/outside/d"
	case s.Kind == "fifo":
		st.Mode = uint32(os.ModeNamedPipe | 0666)
	case strings.HasPrefix(s.Kind, "sockhl:"), strings.HasPrefix(s.Kind, "irrhl:"), strings.HasPrefix(s.Kind, "chrhl:"):
		// entries that are neither directory, symlink, device nor fifo for the disk writer, yet not regular either,
		// carrying a hard-link name
		i := strings.IndexByte(s.Kind, ':')
		st.Linkname = s.Kind[i+1:]
		st.Mode = map[string]uint32{"sockhl": uint32(os.ModeSocket | 0644), "irrhl": uint32(os.ModeIrregular | 0644), "chrhl": uint32(os.ModeCharDevice | 0644)}[s.Kind[:i]]
	case strings.HasPrefix(s.Kind, "dirmimic:"):
		// a directory entry that copies every other field of the symlink the prior destinations hold at this path
		st.Linkname = s.Kind[len("dirmimic:"):]
		st.Mode, st.Size, st.ModTime, st.Uid, st.Gid = uint32(os.ModeDir|0777), int64(len(st.Linkname)), fsmodel.T0, 0, 0
	case s.Kind == "suid":
		st.Mode = uint32(os.ModeSetuid | 0755)
		st.Size = 12
	}
	return &types.Packet{Type: types.PACKET_STAT, Stat: st}
}

func c03Alphabet(tier string) []sym {
	var out []sym
	paths := []string{"..", ".", "", "a", "a/b", "a/..", "a/../..", "../x", "/abs", "a//b", "a/./b", "a\\b", "b", "../outside/f", "../../../outside/d/new"}
	for _, p := range paths {
		out = append(out, sym{T: "stat", Path: p, Kind: "dir"}, sym{T: "stat", Path: p, Kind: "file"})
	}
	for _, p := range []string{"a", "a/b", "b", "..", "."} {
		for _, k := range []string{"symabs", "symrel", "hl:a", "hl:zz", "hl:" + relOutF, "hl:/outside/f", "filex", "symx", "dirsym"} {
			if (p == ".." || p == ".") && k != "symabs" && k != "symx" && k != "hl:a" {
				continue
			}
			out = append(out, sym{T: "stat", Path: p, Kind: k})
		}
	}
	for _, k := range []string{"sockhl:", "irrhl:", "chrhl:"} {
		out = append(out, sym{T: "stat", Path: "b", Kind: k + relOutF}, sym{T: "stat", Path: "b", Kind: k + "/outside/f"}, sym{T: "stat", Path: "b", Kind: k + "a"})
	}
	out = append(out, sym{T: "stat", Path: "a", Kind: "dirmimic:/outside/d"}, sym{T: "stat", Path: "b", Kind: "dirmimic:" + relOutD}, sym{T: "stat", Path: "a", Kind: "dirmimic:b"})
	// names of the shape the receiver itself uses for temporary entries
	for _, p := range []string{".tmp.1", ".tmp.0"} {
		out = append(out, sym{T: "stat", Path: p, Kind: "symx"}, sym{T: "stat", Path: p, Kind: "symabs"})
	}
	// a sibling whose name is a directory's name plus a byte that sorts below the separator: it belongs after
	// everything inside that directory
	out = append(out, sym{T: "stat", Path: "b.c", Kind: "file"}, sym{T: "stat", Path: "a-", Kind: "dir"}, sym{T: "stat", Path: "b-", Kind: "file"}, sym{T: "stat", Path: "b.c", Kind: "dir"})
	if tier == "thorough" {
		out = append(out, sym{T: "stat", Path: "a", Kind: "fifo"}, sym{T: "stat", Path: "b", Kind: "suid"}, sym{T: "stat", Path: ".tmp.2", Kind: "symx"})
	}
	for _, id := range []uint32{0, 1, 7} {
		out = append(out, sym{T: "data", ID: id}, sym{T: "data", ID: id, Empty: true})
	}
	out = append(out, sym{T: "end"}, sym{T: "fin"}, sym{T: "err"})
	return out
}

var c03Priors = []string{"empty", "a-symlink-out", "a-dir-with-symlink", "a-file", "b-relsymlink-out", "a-chain-out", "a-chain-rel", "two-dirs", "a-hardlink-out"}

func c03Prior(name string) fsmodel.Tree {
	T := fsmodel.T0
	switch name {
	case "a-symlink-out":
		return fsmodel.Tree{{Path: "a", Kind: fsmodel.Symlink, Perm: 0777, Mtime: T, Link: "/outside/d"}}
	case "a-symlink-sibling":
		// a link to the sibling directory whose path begins with the destination's path
		return fsmodel.Tree{{Path: "a", Kind: fsmodel.Symlink, Perm: 0777, Mtime: T, Link: "../dest2"}}
	case "a-dir-with-symlink":
		return fsmodel.Tree{{Path: "a", Kind: fsmodel.Dir, Perm: 0755, Mtime: T}, {Path: "a/b", Kind: fsmodel.Symlink, Perm: 0777, Mtime: T, Link: "/outside/f"},
			{Path: "a/c", Kind: fsmodel.Symlink, Perm: 0777, Mtime: T, Link: "../" + relOutD}}
	case "a-file":
		return fsmodel.Tree{{Path: "a", Kind: fsmodel.File, Perm: 0644, Mtime: T, Data: []byte("old")}}
	case "b-relsymlink-out":
		return fsmodel.Tree{{Path: "b", Kind: fsmodel.Symlink, Perm: 0777, Mtime: T, Link: relOutD}, {Path: "a", Kind: fsmodel.Dir, Perm: 0700, Mtime: T}}
	case "listing-link-out":
		// the name a metadata-only receive writes its listing to is a link to an outside file / an outside directory
		return fsmodel.Tree{{Path: ".fsutil-metadata", Kind: fsmodel.Symlink, Perm: 0777, Mtime: T, Link: "/outside/f"}, {Path: "a", Kind: fsmodel.Dir, Perm: 0755, Mtime: T}}
	case "listing-link-dir":
		return fsmodel.Tree{{Path: ".fsutil-metadata", Kind: fsmodel.Symlink, Perm: 0777, Mtime: T, Link: relOutD}}
	case "two-dirs":
		// two directories in a row, both with children; the children of b are named like entries of /outside/d
		return fsmodel.Tree{{Path: "a", Kind: fsmodel.Dir, Perm: 0755, Mtime: T}, {Path: "a/x", Kind: fsmodel.File, Perm: 0644, Mtime: T, Data: []byte("x")},
			{Path: "b", Kind: fsmodel.Dir, Perm: 0755, Mtime: T}, {Path: "b/b", Kind: fsmodel.File, Perm: 0644, Mtime: T, Data: []byte("bb")}, {Path: "b/g", Kind: fsmodel.File, Perm: 0644, Mtime: T, Data: []byte("bg")}}
	case "a-hardlink-out":
		return fsmodel.Tree{{Path: "b", Kind: fsmodel.File, Perm: 0644, Mtime: T, Data: []byte("old-b")}} // plus a = second name of /outside/f, linked in by the judge
	case "a-chain-out":
		// a link whose first hop stays inside the destination and whose second hop leaves it
		return fsmodel.Tree{{Path: "a", Kind: fsmodel.Symlink, Perm: 0777, Mtime: T, Link: "b"}, {Path: "b", Kind: fsmodel.Symlink, Perm: 0777, Mtime: T, Link: "/outside/d"}}
	case "a-chain-rel":
		return fsmodel.Tree{{Path: "a", Kind: fsmodel.Symlink, Perm: 0777, Mtime: T, Link: "c/../b"}, {Path: "b", Kind: fsmodel.Symlink, Perm: 0777, Mtime: T, Link: relOutD},
			{Path: "c", Kind: fsmodel.Dir, Perm: 0755, Mtime: T}}
	}
	return nil
}

type c03Case struct {
	Script []sym  `json:"script"`
	Prior  string `json:"prior"`
	Answer bool   `json:"answer"` // answer the receiver's REQs with content
	// Coop: after the script the peer behaves: end-of-stats marker, answers to REQs, FIN echoed,
	// stream closed after FIN or ERR - so that everything the script planted is fully processed.
	Coop bool `json:"coop,omitempty"`
	// Deep > 0: the script is preceded by a valid chain of Deep nested directories (the last one named j) and a
	// file j/f; "@" in the script's paths stands for the parent of j
	Deep int `json:"deep,omitempty"`
	// Opt: receive options other than the default: "meta" (metadata-only, everything selected), "meta-merge"
	Opt string `json:"opt,omitempty"`
	// Late: see hostile.late
	Late bool `json:"late,omitempty"`
}

func deepParent(n int) string {
	var c []string
	for i := 1; i < n; i++ {
		c = append(c, fmt.Sprintf("d%d", i))
	}
	return strings.Join(c, "/")
}

// expanded is the packet sequence actually played: deep prefix + script with "@" resolved.
func (c c03Case) expanded() []sym {
	if c.Deep == 0 {
		return c.Script
	}
	par := deepParent(c.Deep)
	at := func(p string) string {
		p = strings.ReplaceAll(p, "@", par)
		return strings.TrimPrefix(p, "/")
	}
	var out []sym
	cur := ""
	for i := 1; i < c.Deep; i++ {
		cur = path.Join(cur, fmt.Sprintf("d%d", i))
		out = append(out, sym{T: "stat", Path: cur, Kind: "dir"})
	}
	out = append(out, sym{T: "stat", Path: at("@/j"), Kind: "dir"}, sym{T: "stat", Path: at("@/j/f"), Kind: "file"})
	for _, s := range c.Script {
		s.Path = at(s.Path)
		if strings.HasPrefix(s.Kind, "hl:") {
			s.Kind = "hl:" + at(s.Kind[3:])
		}
		out = append(out, s)
	}
	return out
}

// c03DeepScripts: what may follow the deep chain: the same directory again, names before and after it, its child
// again, each as directory, file, outward symlink or hard link to the file below j.
func c03DeepScripts() [][]sym {
	var al []sym
	for _, p := range []string{"@/j", "@/i", "@/j/f", "@/j/e", "@/k"} {
		for _, k := range []string{"dir", "file", "symabs", "hl:@/j/f"} {
			al = append(al, sym{T: "stat", Path: p, Kind: k})
		}
	}
	al = append(al, sym{T: "end"}, sym{T: "fin"})
	var out [][]sym
	for _, a := range al {
		out = append(out, []sym{a})
		if a.T != "stat" {
			continue
		}
		for _, b := range al {
			out = append(out, []sym{a, b})
		}
	}
	return out
}

var c03Depths = []int{9, 10, 11, 20}

func (c c03Case) String() string {
	s := make([]string, len(c.Script))
	for i, x := range c.Script {
		s[i] = x.String()
	}
	deep := ""
	if c.Deep > 0 {
		deep = fmt.Sprintf(" after-a-valid-chain-of-depth=%d(@=%s)", c.Deep, deepParent(c.Deep))
	}
	if c.Opt != "" {
		deep += " options=" + c.Opt
	}
	if c.Late {
		deep += " late-content-after-served-requests"
	}
	return fmt.Sprintf("script=[%s] prior=%s answer-reqs=%v cooperative-tail=%v%s", strings.Join(s, "; "), c.Prior, c.Answer, c.Coop, deep)
}

// hostile is the scripted stream.
type hostile struct {
	mu      sync.Mutex
	cond    *sync.Cond
	queue   []*types.Packet
	done    bool
	answer  bool
	sentReq []uint32
	eof     chan struct{}
	coop    bool
	closing bool
	idle    chan struct{} // closed when the peer has consumed the script and waits for more
	idled   bool
	// late: requests are answered with the terminator alone (the files stay empty), and when the receiver's FIN arrives
	// - all of its writers have finished - content for every id it had requested is sent before the FIN is echoed
	late     bool
	lateSent int
}

func (h *hostile) Context() context.Context { return context.Background() }

func (h *hostile) RecvMsg(m interface{}) error {
	h.mu.Lock()
	defer h.mu.Unlock()
	for h.coop && len(h.queue) == 0 && !h.closing {
		if !h.idled {
			h.idled = true
			close(h.idle)
		}
		h.cond.Wait()
	}
	if len(h.queue) == 0 {
		if !h.done {
			h.done = true
			close(h.eof)
		}
		return io.EOF
	}
	p := h.queue[0]
	h.queue = h.queue[1:]
	b, err := p.MarshalVT()
	if err != nil {
		return err
	}
	return m.(*types.Packet).UnmarshalVT(b)
}

func (h *hostile) SendMsg(m interface{}) error {
	p := m.(*types.Packet)
	h.mu.Lock()
	defer h.mu.Unlock()
	if p.Type == types.PACKET_REQ {
		h.sentReq = append(h.sentReq, p.ID)
		if h.late {
			h.queue = append([]*types.Packet{{Type: types.PACKET_DATA, ID: p.ID}}, h.queue...)
		} else if h.answer {
			h.queue = append([]*types.Packet{{Type: types.PACKET_DATA, ID: p.ID, Data: []byte("EVIL-PAYLOAD")}, {Type: types.PACKET_DATA, ID: p.ID}}, h.queue...)
		}
	}
	if h.coop {
		switch p.Type {
		case types.PACKET_FIN:
			if h.late {
				for _, id := range h.sentReq {
					h.queue = append(h.queue, &types.Packet{Type: types.PACKET_DATA, ID: id, Data: []byte("LATE-PAYLOAD")}, &types.Packet{Type: types.PACKET_DATA, ID: id})
					h.lateSent++
				}
			}
			h.queue = append(h.queue, &types.Packet{Type: types.PACKET_FIN})
			h.closing = true
		case types.PACKET_ERR:
			h.closing = true
		}
		h.cond.Broadcast()
	}
	return nil
}

// statValid is the specification of an acceptable STAT sequence (C12 + links).
type statSpec struct {
	spec  specState
	files map[string]bool
}

func (s *statSpec) accept(st *types.Stat) bool {
	k := 1
	if os.FileMode(st.Mode).IsDir() {
		k = 0
	}
	if strings.Contains(st.Path, "\\") {
		// representable on this platform; falls through to the ordinary rules
	}
	if !s.spec.accept(vEvent{Kind: k, Path: st.Path}) {
		return false
	}
	m := os.FileMode(st.Mode)
	if !m.IsDir() && m&os.ModeSymlink == 0 {
		if st.Linkname != "" {
			if !s.files[st.Linkname] {
				return false
			}
		} else {
			s.files[st.Path] = true
		}
	}
	return true
}

// outsideState renders everything outside dest that must not change.
func outsideState(root string, linkedIn ...string) (string, error) {
	var sb strings.Builder
	snap, err := fsmodel.Snapshot(filepath.Join(root, "outside"))
	if err != nil {
		return "", err
	}
	// the destination's sibling whose path has the destination's path as a string prefix (dest -> dest2)
	sib, err := fsmodel.Snapshot(filepath.Join(root, "p1/p2/dest2"))
	if err != nil {
		return "", err
	}
	for _, n := range sib {
		fmt.Fprintf(&sb, "dest2/%s ino=%d ctime=%d nlink=%d\n", n.String(), n.Ino, n.Ctime, n.Nlink)
	}
	for _, n := range snap {
		loose := false
		for _, l := range linkedIn {
			loose = loose || n.Path == l
		}
		if loose {
			// this outside inode has a name inside the destination: removing that name is the receiver's business and
			// changes the link count and ctime; bytes, mode, owner and mtime are not its to touch
			n.HL = 0
			fmt.Fprintf(&sb, "%s ino=%d\n", n.String(), n.Ino)
			continue
		}
		fmt.Fprintf(&sb, "%s ino=%d ctime=%d nlink=%d\n", n.String(), n.Ino, n.Ctime, n.Nlink)
	}
	for _, p := range []string{"", "outside", "p1", "p1/p2"} {
		n, err := fsmodel.LstatNode(filepath.Join(root, p), p)
		if err != nil {
			return "", err
		}
		fmt.Fprintf(&sb, "%s ino=%d ctime=%d\n", n.String(), n.Ino, n.Ctime)
		ents, _ := os.ReadDir(filepath.Join(root, p))
		for _, e := range ents {
			sb.WriteString(" " + e.Name())
		}
		sb.WriteString("\n")
	}
	d, err := fsmodel.LstatNode(filepath.Join(root, "p1/p2/dest"), "dest")
	if err != nil {
		return sb.String() + "dest: " + err.Error(), nil
	}
	fmt.Fprintf(&sb, "dest kind=%s perm=%o owner=%d:%d ino=%d xattrs=%v\n", d.Kind, d.Perm, d.UID, d.GID, d.Ino, d.Xattrs)
	return sb.String(), nil
}

func buildSandbox(root string) error {
	for _, d := range []string{"outside", "p1"} {
		scratch.Remove(filepath.Join(root, d))
	}
	out := fsmodel.Tree{{Path: "outside", Kind: fsmodel.Dir, Perm: 0755, Mtime: fsmodel.T0}, {Path: "outside/f", Kind: fsmodel.File, Perm: 0600, Mtime: fsmodel.T0, Data: []byte("sentinel-f")},
		{Path: "outside/d", Kind: fsmodel.Dir, Perm: 0700, Mtime: fsmodel.T0}, {Path: "outside/d/g", Kind: fsmodel.File, Perm: 0600, Mtime: fsmodel.T0, Data: []byte("sentinel-g")},
		{Path: "outside/d/b", Kind: fsmodel.File, Perm: 0600, Mtime: fsmodel.T0, Data: []byte("sentinel-b")},
		{Path: "p1", Kind: fsmodel.Dir, Perm: 0711, Mtime: fsmodel.T0, UID: 11, GID: 11}, {Path: "p1/p2", Kind: fsmodel.Dir, Perm: 0751, Mtime: fsmodel.T0, UID: 12, GID: 12},
		{Path: "p1/p2/dest", Kind: fsmodel.Dir, Perm: 0755, Mtime: fsmodel.T0, UID: 13, GID: 13}, {Path: "p1/p2/sibling", Kind: fsmodel.File, Perm: 0600, Mtime: fsmodel.T0, Data: []byte("sib")},
		// a sibling of the destination named like it plus one character: "is inside dest" decided by string prefix says yes
		{Path: "p1/p2/dest2", Kind: fsmodel.Dir, Perm: 0700, Mtime: fsmodel.T0}, {Path: "p1/p2/dest2/f", Kind: fsmodel.File, Perm: 0600, Mtime: fsmodel.T0, Data: []byte("sib-f")},
		{Path: "p1/p2/dest2/g", Kind: fsmodel.File, Perm: 0600, Mtime: fsmodel.T0, Data: []byte("sib-g")}, {Path: "p1/p2/dest2/b", Kind: fsmodel.File, Perm: 0600, Mtime: fsmodel.T0, Data: []byte("sib-b")}}
	return fsmodel.Materialize(out, root)
}

// judgeC03 runs one script. root is "/" inside the chroot child.
func judgeC03Raw(root string, c c03Case) (string, string) {
	dest := filepath.Join(root, "p1/p2/dest")
	if fi, err := os.Lstat(dest); err != nil || !fi.IsDir() {
		// an earlier case left the destination path missing or as a link: start from a directory again
		os.Remove(dest)
		os.Remove(filepath.Join(root, "p1/p2/gone"))
		if err := os.MkdirAll(dest, 0755); err != nil {
			return "infra", "dest: " + err.Error()
		}
	}
	// reset dest contents
	ents, _ := os.ReadDir(dest)
	for _, e := range ents {
		scratch.Remove(filepath.Join(dest, e.Name()))
	}
	if err := fsmodel.Materialize(c03Prior(c.Prior), dest); err != nil {
		return "infra", "prior: " + err.Error()
	}
	os.Lchown(dest, 13, 13)
	os.Chmod(dest, 0755)
	var linkedIn []string
	if c.Prior == "a-hardlink-out" {
		// the destination holds a second name of an outside file (what cp -al / rsync --link-dest leave behind)
		if err := os.Link(filepath.Join(root, "outside/f"), filepath.Join(dest, "a")); err != nil {
			return "infra", "prior: " + err.Error()
		}
		linkedIn = []string{"f"}
	}
	switch c.Prior {
	case "dest-missing":
		// the destination path does not exist (removed by a clean-up job, a typo): nothing can be stored, and
		// nothing is stored anywhere else
		if err := os.Remove(dest); err != nil {
			return "infra", "prior: " + err.Error()
		}
	case "dest-dangling":
		// ... or is a link whose target is gone (current -> releases/41)
		if err := os.Remove(dest); err != nil {
			return "infra", "prior: " + err.Error()
		}
		if err := os.Symlink("gone", dest); err != nil {
			return "infra", "prior: " + err.Error()
		}
	}
	before, err := outsideState(root, linkedIn...)
	if err != nil {
		return "infra", err.Error()
	}
	destBefore, _ := fsmodel.Snapshot(dest)
	h := &hostile{answer: c.Answer || c.Coop, eof: make(chan struct{}), idle: make(chan struct{}), coop: c.Coop, late: c.Late}
	h.cond = sync.NewCond(&h.mu)
	// A FIN from the peer that precedes the receiver's own FIN makes the receive loop read (and drop)
	// everything up to end of stream and return nil, while the differ still waits for the end marker
	// or for content that was dropped: Receive then only returns when its context is cancelled. That is not a containment question; the harness cancels the
	// context once the whole script has been consumed (counted in the evidence).
	script := c.expanded()
	unsolicitedFin := false
	for _, s := range script {
		if s.T == "fin" { // any FIN of the script precedes the receiver's own FIN
			unsolicitedFin = true
		}
	}
	ctx, cancel := context.WithCancel(context.Background())
	defer cancel()
	for _, s := range script {
		h.queue = append(h.queue, s.packet())
	}
	if c.Coop {
		h.queue = append(h.queue, &types.Packet{Type: types.PACKET_STAT})
	}
	baseGoroutines := runtime.NumGoroutine()
	done := make(chan error, 1)
	go func() {
		defer func() {
			if r := recover(); r != nil {
				done <- fmt.Errorf("panic: %v", r)
			}
		}()
		opt := fsutil.ReceiveOpt{}
		switch c.Opt {
		case "meta", "meta-merge":
			opt.MetadataOnly = func(string, *types.Stat) bool { return true }
			opt.Merge = c.Opt == "meta-merge"
		case "meta-merge-hide-a":
			// a selector that leaves out the path a (and with it, possibly, the link source of something it selects)
			opt.MetadataOnly = func(p string, _ *types.Stat) bool { return p != "a" }
			opt.Merge = true
		case "meta-merge-hide-a-tree":
			// a selector that leaves out a and everything below it
			opt.MetadataOnly = func(p string, _ *types.Stat) bool { return p != "a" && !strings.HasPrefix(p, "a/") }
			opt.Merge = true
		case "diffnone":
			opt.Differ = fsutil.DiffNone
		case "merge":
			opt.Merge = true
		case "merge-filter-a":
			// (a filter that hides a directory hides what is below it as well)
			opt.Filter = func(p string, _ *types.Stat) bool { return p != "a" && !strings.HasPrefix(p, "a/") }
			opt.Merge = true
		}
		done <- fsutil.Receive(ctx, h, dest, opt)
	}()
	var rerr error
	giveUp := func() {
		cancel()
		h.mu.Lock()
		h.closing = true
		h.cond.Broadcast()
		h.mu.Unlock()
		rerr = <-done
		cancelled.Add(1)
	}
	if unsolicitedFin {
		select {
		case rerr = <-done:
		case <-h.eof:
			select {
			case rerr = <-done:
			case <-time.After(60 * time.Millisecond):
				giveUp()
			}
		case <-h.idle:
			select {
			case rerr = <-done:
			case <-time.After(60 * time.Millisecond):
				giveUp()
			}
		}
	} else {
		select {
		case rerr = <-done:
		case <-time.After(120 * time.Second):
			giveUp()
			return "hang", "Receive did not return within 120s although the peer answered every request and closed the stream after FIN/ERR"
		}
	}
	if rerr != nil && strings.HasPrefix(rerr.Error(), "panic:") {
		return "panic", rerr.Error()
	}
	// On its error paths Receive returns before the disk writer's per-file goroutines have ended (they only get
	// their context cancelled). They must not be mistaken for the next case's doing: the cases of one child run one
	// after the other over the same destination path, so wait until this call's goroutines are gone.
	cancel()
	for i := 0; i < 5000 && runtime.NumGoroutine() > baseGoroutines; i++ {
		runtime.Gosched()
	}
	for t0 := time.Now(); runtime.NumGoroutine() > baseGoroutines && time.Since(t0) < 3*time.Second; {
		time.Sleep(100 * time.Microsecond)
	}
	if runtime.NumGoroutine() > baseGoroutines {
		lingering.Add(1)
	}
	after, err := outsideState(root, linkedIn...)
	if err != nil {
		return "outside-damaged", err.Error()
	}
	if before != after {
		if e := buildSandbox(root); e != nil {
			return "infra", "rebuild: " + e.Error()
		}
		return "outside-changed", fmt.Sprintf("something outside the destination changed (Receive returned %v): %s", rerr, lineDiff(before, after))
	}
	// content for an id whose request has been served and closed (sent when the receiver's own FIN shows that every
	// writer of it has finished) => failure, and nothing of it stored
	if c.Late {
		h.mu.Lock()
		n := h.lateSent
		h.mu.Unlock()
		if n > 0 && rerr == nil {
			return "late-data-accepted", fmt.Sprintf("content for %d ids was sent after their requests had been served and the receiver had sent FIN, but Receive returned nil", n)
		}
		if after, err := fsmodel.Snapshot(dest); err == nil {
			for _, a := range after {
				if strings.Contains(string(a.Data), "LATE-PAYLOAD") {
					return "late-data-accepted", fmt.Sprintf("%s holds content that was sent after its request had been served", a.Path)
				}
			}
		}
	}
	// content for an id that cannot have been requested (id 7 with at most 3 STATs) => failure
	for _, sy := range script {
		if sy.T == "fin" {
			break
		}
		if sy.T == "data" && sy.ID == 7 && rerr == nil {
			return "unrequested-data-accepted", "the stream carries DATA for id 7, which was never announced or requested, but Receive returned nil"
		}
	}
	// content for the id of an entry that is never requested (anything but a plain regular file) => failure
	{
		var kinds []string
		for _, sy := range script {
			if sy.T == "fin" || sy.T == "err" {
				break
			}
			if sy.T == "stat" {
				kinds = append(kinds, sy.Kind)
			}
			if sy.T == "data" && int(sy.ID) < len(kinds) && rerr == nil {
				if k := kinds[sy.ID]; k != "file" && k != "filex" && k != "suid" {
					return "unrequested-data-accepted", fmt.Sprintf("the stream carries DATA for id %d, announced as %q (never requested), but Receive returned nil", sy.ID, k)
				}
			}
		}
	}
	// first offending STAT => failure, nothing at or after it applied
	sp := &statSpec{spec: specState{dirs: map[string]bool{}}, files: map[string]bool{}}
	bad := -1
	earlier := map[string]bool{}
	for i, s := range script {
		if s.T == "fin" || s.T == "err" || s.T == "end" {
			break
		}
		if s.T != "stat" {
			continue
		}
		if !sp.accept(s.packet().Stat) {
			bad = i
			break
		}
		earlier[s.Path] = true
	}
	if bad >= 0 {
		if rerr == nil {
			return "invalid-stream-accepted", fmt.Sprintf("packet %d (%s) breaks the stream rules but Receive returned nil", bad, script[bad])
		}
		destAfter, _ := fsmodel.Snapshot(dest)
		for _, s := range script[bad:] {
			p := path.Clean(s.Path)
			if s.T != "stat" || s.Path == "" || earlier[s.Path] || earlier[p] {
				continue
			}
			if strings.HasPrefix(p, "..") || strings.HasPrefix(p, "/") || p == "." {
				continue // outside dest: covered by the outside comparison
			}
			b, a := destBefore.Find(p), destAfter.Find(p)
			// disappearing is a legitimate side effect of earlier packets (a directory replaced by a
			// file, stale entries deleted); being created or rewritten is not
			if a != nil && (b == nil || a.Ino != b.Ino || a.String() != b.String()) {
				return "applied-after-offending", fmt.Sprintf("packet %d (%s) is the first offending one, yet %q was created or changed", bad, script[bad], p)
			}
		}
	}
	return "", ""
}

var cancelled atomic.Int64

// lingering counts receives whose goroutines were still alive 3 s after the call had returned and its context was
// cancelled (reported in the evidence; C04 decides goroutine termination under a controlled scheduler).
var lingering atomic.Int64

type c03Out struct {
	Cancelled int64          `json:"cancelled"`
	Lingering int64          `json:"lingering"`
	Evals     int64          `json:"evals"`
	Viol      []c03Viol      `json:"viol"`
	Count     map[string]int `json:"count"`
	Out       map[string]int `json:"out"`
}

type c03Viol struct {
	Key, Msg string
	Case     c03Case
}

func c03Scripts(tier string, maxLen int) [][]sym {
	al := c03Alphabet(tier)
	var out [][]sym
	var rec func(cur []sym)
	rec = func(cur []sym) {
		out = append(out, append([]sym{}, cur...))
		if len(cur) == maxLen {
			return
		}
		for _, s := range al {
			rec(append(cur, s))
		}
	}
	rec(nil)
	return out
}

// childC03: args = shard nshards tier sandboxroot. Chroots into the sandbox and
// enumerates its share of the scripts.
func childC03(args []string) int {
	shard, _ := strconv.Atoi(args[0])
	n, _ := strconv.Atoi(args[1])
	tier, root := args[2], args[3]
	maxLen := 2
	if tier == "thorough" {
		maxLen = 3
	}
	if len(args) > 4 { // replay of a single case
		var c c03Case
		if err := json.Unmarshal([]byte(args[4]), &c); err != nil {
			fmt.Fprintln(os.Stderr, err)
			return 3
		}
		if err := chrootInto(root); err != nil {
			fmt.Fprintln(os.Stderr, "chroot:", err)
			return 3
		}
		k, m := judgeC03("/", c)
		json.NewEncoder(os.Stdout).Encode(c03Out{Evals: 1, Viol: []c03Viol{{k, m, c}}})
		return 0
	}
	if err := buildSandbox(root); err != nil {
		fmt.Fprintln(os.Stderr, "sandbox:", err)
		return 3
	}
	start := 0
	if v := os.Getenv("C03_START"); v != "" {
		start, _ = strconv.Atoi(v)
	}
	// progress file (opened before the chroot): a crash of the receiver kills this process, the
	// parent then knows which case did it
	cur, err := os.OpenFile(root+".cur", os.O_CREATE|os.O_RDWR|os.O_TRUNC, 0644)
	if err != nil {
		fmt.Fprintln(os.Stderr, "progress file:", err)
		return 3
	}
	if err := chrootInto(root); err != nil {
		fmt.Fprintln(os.Stderr, "chroot:", err)
		return 3
	}
	out := c03Out{Count: map[string]int{}, Out: map[string]int{}}
	i := 0
	for _, sc := range c03Scripts(tier, maxLen) {
		for _, pr := range c03Priors {
			for mode := 0; mode < 3; mode++ {
				ans, coop := mode == 0, mode == 2
				i++
				if i%n != shard || i < start {
					continue
				}
				if redundantAfterFin(sc) {
					continue
				}
				c := c03Case{Script: sc, Prior: pr, Answer: ans, Coop: coop}
				if b, err := json.Marshal(map[string]any{"i": i, "case": c, "evals": out.Evals, "cancelled": cancelled.Load()}); err == nil {
					cur.Truncate(0)
					cur.WriteAt(b, 0)
				}
				if os.Getenv("C03_DEBUG") != "" {
					fmt.Fprintln(os.Stderr, "case:", c.String())
				}
				k, m := judgeC03("/", c)
				out.Evals++
				if k != "" {
					out.Count[k]++
					if out.Count[k] <= 3 {
						// streamed at once: a later crash of this process must not lose it
						json.NewEncoder(os.Stdout).Encode(c03Out{Viol: []c03Viol{{k, m, c}}})
					} else {
						json.NewEncoder(os.Stdout).Encode(c03Out{Count: map[string]int{k: 1}})
					}
				}
			}
		}
	}
	// metadata-only receives (with and without merge) into destinations where the listing name is a link to outside:
	// every script of length <=1 (thorough: <=2), cooperative tail so that the listing gets written
	ml := 1
	if tier == "thorough" {
		ml = 2
	}
	for _, sc := range c03Scripts(tier, ml) {
		for _, pr := range []string{"listing-link-out", "listing-link-dir", "empty"} {
			for _, op := range []string{"meta", "meta-merge"} {
				i++
				if i%n != shard || i < start || redundantAfterFin(sc) {
					continue
				}
				c := c03Case{Script: sc, Prior: pr, Coop: true, Opt: op}
				if b, err := json.Marshal(map[string]any{"i": i, "case": c, "evals": out.Evals, "cancelled": cancelled.Load()}); err == nil {
					cur.Truncate(0)
					cur.WriteAt(b, 0)
				}
				k, m := judgeC03("/", c)
				out.Evals++
				if k != "" {
					out.Count[k]++
					if out.Count[k] <= 3 {
						json.NewEncoder(os.Stdout).Encode(c03Out{Viol: []c03Viol{{k, m, c}}})
					} else {
						json.NewEncoder(os.Stdout).Encode(c03Out{Count: map[string]int{k: 1}})
					}
				}
			}
		}
	}
	// late content: every script of length <=2 made of STATs, cooperative tail, requests answered with empty files
	for _, sc := range c03Scripts(tier, 2) {
		stats := len(sc) > 0
		for _, sy := range sc {
			stats = stats && sy.T == "stat"
		}
		if !stats {
			continue
		}
		for _, pr := range []string{"empty", "a-file"} {
			i++
			if i%n != shard || i < start {
				continue
			}
			c := c03Case{Script: sc, Prior: pr, Coop: true, Late: true}
			k, m := judgeC03("/", c)
			out.Evals++
			if k != "" {
				out.Count[k]++
				if out.Count[k] <= 3 {
					json.NewEncoder(os.Stdout).Encode(c03Out{Viol: []c03Viol{{k, m, c}}})
				} else {
					json.NewEncoder(os.Stdout).Encode(c03Out{Count: map[string]int{k: 1}})
				}
			}
		}
	}
	// a hard link whose source lies BELOW a path the selector leaves alone, into destinations where that path is a link
	// to an outside directory holding an entry of that name: [a dir; a/X file; b -> hard link of a/X]
	for _, child := range []string{"a/f", "a/g", "a/b"} {
		for _, pr := range []string{"a-symlink-out", "a-chain-out", "a-chain-rel", "a-symlink-sibling"} {
			for _, op := range []string{"meta-merge-hide-a-tree", "merge-filter-a", "meta-merge-hide-a", "meta-merge"} {
				i++
				if i%n != shard || i < start {
					continue
				}
				sc := []sym{{T: "stat", Path: "a", Kind: "dir"}, {T: "stat", Path: child, Kind: "file"}, {T: "stat", Path: "b", Kind: "hl:" + child}}
				c := c03Case{Script: sc, Prior: pr, Coop: true, Opt: op}
				k, m := judgeC03("/", c)
				out.Evals++
				if k != "" {
					out.Count[k]++
					if out.Count[k] <= 3 {
						json.NewEncoder(os.Stdout).Encode(c03Out{Viol: []c03Viol{{k, m, c}}})
					} else {
						json.NewEncoder(os.Stdout).Encode(c03Out{Count: map[string]int{k: 1}})
					}
				}
			}
		}
	}
	// merge receives in which the caller's own selector / filter leaves the path a alone, into destinations where a
	// is a link to outside: every script of length <=2
	for _, sc := range c03Scripts(tier, 2) {
		for _, pr := range []string{"a-symlink-out", "a-chain-out", "dest-missing", "dest-dangling", "two-dirs", "a-dir-with-symlink", "a-symlink-sibling"} {
			if pr == "a-symlink-sibling" && tier != "thorough" {
				continue
			}
			// (and with a selector that selects everything: a selected directory and what is below it)
			for _, op := range []string{"meta-merge-hide-a", "merge-filter-a", "meta-merge", "meta", "merge", "", "diffnone"} {
				// (comparison switched off: only for the destinations with directories that the stream replaces)
				if op == "diffnone" {
					if pr != "two-dirs" && pr != "a-dir-with-symlink" {
						continue
					}
				} else if pr == "two-dirs" || pr == "a-dir-with-symlink" || (op == "merge" || op == "") != strings.HasPrefix(pr, "dest-") {
					continue
				}
				i++
				if i%n != shard || i < start || redundantAfterFin(sc) {
					continue
				}
				c := c03Case{Script: sc, Prior: pr, Coop: true, Opt: op}
				if b, err := json.Marshal(map[string]any{"i": i, "case": c, "evals": out.Evals, "cancelled": cancelled.Load()}); err == nil {
					cur.Truncate(0)
					cur.WriteAt(b, 0)
				}
				k, m := judgeC03("/", c)
				out.Evals++
				if k != "" {
					out.Count[k]++
					if out.Count[k] <= 3 {
						json.NewEncoder(os.Stdout).Encode(c03Out{Viol: []c03Viol{{k, m, c}}})
					} else {
						json.NewEncoder(os.Stdout).Encode(c03Out{Count: map[string]int{k: 1}})
					}
				}
			}
		}
	}
	// the deep family (own index space after the main one, same sharding and restart protocol)
	for _, depth := range c03Depths {
		for _, sc := range c03DeepScripts() {
			for mode := 0; mode < 3; mode++ {
				i++
				if i%n != shard || i < start {
					continue
				}
				c := c03Case{Script: sc, Prior: "empty", Answer: mode == 0, Coop: mode == 2, Deep: depth}
				if b, err := json.Marshal(map[string]any{"i": i, "case": c, "evals": out.Evals, "cancelled": cancelled.Load()}); err == nil {
					cur.Truncate(0)
					cur.WriteAt(b, 0)
				}
				k, m := judgeC03("/", c)
				out.Evals++
				if k != "" {
					out.Count[k]++
					if out.Count[k] <= 3 {
						json.NewEncoder(os.Stdout).Encode(c03Out{Viol: []c03Viol{{k, m, c}}})
					} else {
						json.NewEncoder(os.Stdout).Encode(c03Out{Count: map[string]int{k: 1}})
					}
				}
			}
		}
	}
	json.NewEncoder(os.Stdout).Encode(c03Out{Evals: out.Evals, Cancelled: cancelled.Load(), Lingering: lingering.Load()})
	return 0
}

// redundantAfterFin: packets after a FIN are read and dropped by the receiver, so such a script
// behaves like its prefix up to the FIN.
func redundantAfterFin(sc []sym) bool {
	for i, s := range sc {
		if s.T == "fin" {
			return i < len(sc)-1
		}
	}
	return false
}

func chrootInto(root string) error {
	if err := syscall.Chroot(root); err != nil {
		return err
	}
	return os.Chdir("/")
}

func runC03(r *evid.Run) {
	r.Technique = "exhaustive enumeration of hostile packet sequences (all sequences up to length 2/3 over a 70-symbol alphabet x 5 prior destinations x REQs answered/ignored) against the real Receive inside a throw-away chroot; oracle = byte-exact state of everything outside dest + stream-validity specification"
	r.Rule = "one evaluation = one (script, prior destination, answer mode) run of the real receiver; non-trivial = scripts with at least one STAT; states = distinct cases"
	r.Assume = []string{"runs as root; each worker process chroots into its own sandbox so absolute symlinks resolve inside it", "DATA symbols may race the receiver's own REQ: their acceptance is not judged, only containment"}
	n := par.Workers()
	outs := make([]*c03Out, n)
	errs := make([]string, n)
	self, _ := os.Executable()
	par.Do(n, n, func(i int) {
		root := scratch.Dir("sb")
		defer scratch.Remove(root)
		defer os.Remove(root + ".cur")
		start := 0
		agg := &c03Out{Count: map[string]int{}}
		for attempt := 0; attempt < 400; attempt++ {
			cmd := exec.Command(self, "child", "c03", strconv.Itoa(i), strconv.Itoa(n), r.Tier, root)
			cmd.Env = append(os.Environ(), "C03_START="+strconv.Itoa(start))
			var stderr strings.Builder
			cmd.Stderr = &stderr
			b, err := cmd.Output()
			// stdout is a stream of JSON lines (violations as they happen, totals at the end)
			dec := json.NewDecoder(strings.NewReader(string(b)))
			for {
				var o c03Out
				if dec.Decode(&o) != nil {
					break
				}
				agg.Evals += o.Evals
				agg.Cancelled += o.Cancelled
				agg.Lingering += o.Lingering
				for _, v := range o.Viol {
					agg.Count[v.Key]++
					agg.Viol = append(agg.Viol, v)
				}
				for k, c := range o.Count {
					agg.Count[k] += c
				}
			}
			if err == nil {
				outs[i] = agg
				return
			}
			// the child died: which case killed it?
			var cur struct {
				I         int     `json:"i"`
				Case      c03Case `json:"case"`
				Evals     int64   `json:"evals"`
				Cancelled int64   `json:"cancelled"`
			}
			cb, _ := os.ReadFile(root + ".cur")
			if json.Unmarshal(cb, &cur) != nil || cur.I < start {
				errs[i] = fmt.Sprintf("child %d: %v: %s", i, err, firstLine(stderr.String()))
				return
			}
			key := "receiver-crash"
			if strings.Contains(stderr.String(), "closed channel") {
				key = "receiver-crash:closed-channel"
			}
			agg.Count[key]++
			agg.Evals += cur.Evals + 1
			agg.Cancelled += cur.Cancelled
			if agg.Count[key] <= 3 {
				agg.Viol = append(agg.Viol, c03Viol{key, "the receiving process died: " + firstLine(stderr.String()), cur.Case})
			}
			start = cur.I + 1
		}
		errs[i] = fmt.Sprintf("child %d: too many crashes", i)
	})
	for _, e := range errs {
		if e != "" {
			r.Violate("infra", e, nil)
			r.Exhaustive = false
		}
	}
	total := int64(0)
	for _, o := range outs {
		if o == nil {
			continue
		}
		total += o.Evals
		r.Add("receive_needed_cancel_after_unsolicited_fin", o.Cancelled)
		r.Add("receive_goroutines_alive_3s_after_return", o.Lingering)
		kept := map[string]int{}
		for _, v := range o.Viol {
			kept[v.Key]++
			r.Violate(v.Key, v.Case.String()+": "+v.Msg, v.Case)
		}
		for k, c := range o.Count {
			// account for cases beyond the ones kept in full
			for j := kept[k]; j < c; j++ {
				r.Violate(k, "", nil)
			}
		}
	}
	r.Evaluations.Store(total)
	al := c03Alphabet(r.Tier)
	r.Set("alphabet", len(al))
	r.Set("priors", c03Priors)
	for i := 0; i < len(al); i++ {
		r.Nontrivial(al[i].String())
		for j := 0; j < len(al); j++ {
			r.Nontrivial(al[i].String() + al[j].String())
		}
	}
	r.Sample(map[string]any{"script": []string{al[0].String(), al[30].String()}, "prior": "a-symlink-out", "answer_reqs": true})
}

func firstLine(s string) string {
	if i := strings.IndexByte(s, '\n'); i >= 0 {
		return s[:i]
	}
	return s
}

func replayC03(raw json.RawMessage) string {
	root := scratch.Dir("sb")
	defer scratch.Remove(root)
	if err := buildSandbox(root); err != nil {
		return "infra: " + err.Error()
	}
	self, _ := os.Executable()
	cmd := exec.Command(self, "child", "c03", "0", "1", "quick", root, string(raw))
	var stderr strings.Builder
	cmd.Stderr = &stderr
	b, err := cmd.Output()
	if err != nil {
		return "receiver-crash: " + firstLine(stderr.String())
	}
	var o c03Out
	if err := json.Unmarshal(b, &o); err != nil || len(o.Viol) == 0 {
		return "infra: bad child output"
	}
	if o.Viol[0].Key == "" {
		return ""
	}
	return o.Viol[0].Key + ": " + o.Viol[0].Msg
}

// lineDiff shows the lines that differ between two renderings.
func lineDiff(a, b string) string {
	al, bl := strings.Split(a, "\n"), strings.Split(b, "\n")
	in := map[string]bool{}
	for _, l := range al {
		in[l] = true
	}
	inb := map[string]bool{}
	for _, l := range bl {
		inb[l] = true
	}
	var out []string
	for _, l := range al {
		if !inb[l] {
			out = append(out, "- "+l)
		}
	}
	for _, l := range bl {
		if !in[l] {
			out = append(out, "+ "+l)
		}
	}
	return strings.Join(out, " | ")
}

// judgeC03 is judgeC03Raw with a panic of the code under test turned into a verdict.
func judgeC03(root string, c c03Case) (k, m string) {
	defer func() {
		if r := recover(); r != nil {
			k, m = "panic", fmt.Sprintf("the code under test panicked: %v", r)
		}
	}()
	k, m = judgeC03Raw(root, c)
	if k == "hang" {
		// the 120 s deadline is wall-clock: on an overloaded machine it can fire for a case that returns in a
		// millisecond (run #11, DESIGN section 7). A real hang hangs every time: the same case must miss the
		// deadline twice before it is reported.
		k, m = judgeC03Raw(root, c)
	}
	return k, m
}
