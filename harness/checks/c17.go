package checks

import (
	"archive/tar"
	"bytes"
	"context"
	"encoding/json"
	"fmt"
	"io"
	gofs "io/fs"
	"os"
	"path/filepath"
	"strings"

	"github.com/tonistiigi/fsutil"
	"github.com/tonistiigi/fsutil/types"
	"golang.org/x/sys/unix"
	"verif/evid"
	"verif/fsmodel"
	"verif/memfs"
	"verif/par"
	"verif/scratch"
)

func init() { register("C17", runC17, replayC17) }

type tarMember struct {
	hdr  *tar.Header
	data []byte
}

func readTar(b []byte) ([]tarMember, error) {
	tr := tar.NewReader(bytes.NewReader(b))
	var out []tarMember
	for {
		h, err := tr.Next()
		if err == io.EOF {
			return out, nil
		}
		if err != nil {
			return out, err
		}
		d, err := io.ReadAll(tr)
		if err != nil {
			return out, fmt.Errorf("member %s: %v", h.Name, err)
		}
		out = append(out, tarMember{h, d})
	}
}

func wantType(st *types.Stat) byte {
	m := os.FileMode(st.Mode)
	switch {
	case m.IsDir():
		return tar.TypeDir
	case m&os.ModeSymlink != 0:
		return tar.TypeSymlink
	case st.Linkname != "":
		return tar.TypeLink
	case m&os.ModeNamedPipe != 0:
		return tar.TypeFifo
	case m&os.ModeCharDevice != 0:
		return tar.TypeChar
	case m&os.ModeDevice != 0:
		return tar.TypeBlock
	}
	return tar.TypeReg
}

func tarPerm(m os.FileMode) int64 {
	p := int64(m.Perm())
	if m&os.ModeSetuid != 0 {
		p |= 04000
	}
	if m&os.ModeSetgid != 0 {
		p |= 02000
	}
	if m&os.ModeSticky != 0 {
		p |= 01000
	}
	return p
}

// extract is the reference extractor.
func extract(ms []tarMember, dir string) error {
	type dm struct {
		p string
		h *tar.Header
	}
	var dirs []dm
	for _, m := range ms {
		h := m.hdr
		p := filepath.Join(dir, filepath.FromSlash(strings.TrimSuffix(h.Name, "/")))
		switch h.Typeflag {
		case tar.TypeDir:
			if err := os.Mkdir(p, 0700); err != nil {
				return err
			}
			dirs = append(dirs, dm{p, h})
			continue
		case tar.TypeReg:
			if err := os.WriteFile(p, m.data, 0600); err != nil {
				return err
			}
		case tar.TypeSymlink:
			if err := os.Symlink(h.Linkname, p); err != nil {
				return err
			}
		case tar.TypeLink:
			if err := os.Link(filepath.Join(dir, filepath.FromSlash(h.Linkname)), p); err != nil {
				return fmt.Errorf("hard link member %s names %q, which the archive did not provide: %v", h.Name, h.Linkname, err)
			}
			continue
		case tar.TypeFifo:
			if err := unix.Mknod(p, unix.S_IFIFO|0600, 0); err != nil {
				return err
			}
		case tar.TypeChar:
			if err := unix.Mknod(p, unix.S_IFCHR|0600, int(unix.Mkdev(uint32(h.Devmajor), uint32(h.Devminor)))); err != nil {
				return err
			}
		case tar.TypeBlock:
			if err := unix.Mknod(p, unix.S_IFBLK|0600, int(unix.Mkdev(uint32(h.Devmajor), uint32(h.Devminor)))); err != nil {
				return err
			}
		default:
			return fmt.Errorf("member %s: unexpected typeflag %q", h.Name, h.Typeflag)
		}
		if err := applyHdr(p, h); err != nil {
			return err
		}
	}
	for i := len(dirs) - 1; i >= 0; i-- {
		if err := applyHdr(dirs[i].p, dirs[i].h); err != nil {
			return err
		}
	}
	return nil
}

func applyHdr(p string, h *tar.Header) error {
	if err := os.Lchown(p, h.Uid, h.Gid); err != nil {
		return err
	}
	for k, v := range h.PAXRecords {
		if name, ok := strings.CutPrefix(k, "SCHILY.xattr."); ok {
			if err := unix.Lsetxattr(p, name, []byte(v), 0); err != nil && h.Typeflag != tar.TypeSymlink {
				return fmt.Errorf("xattr %s on %s: %v", name, p, err)
			}
		}
	}
	if h.Typeflag != tar.TypeSymlink {
		if err := unix.Chmod(p, uint32(h.Mode)&07777); err != nil {
			return err
		}
	}
	return fsmodel.Utime(p, h.ModTime.UnixNano())
}

func judgeC17Raw(c c11Case) (string, string) {
	root := scratch.Dir("tar")
	defer scratch.Remove(root)
	srcDir, out := filepath.Join(root, "src"), filepath.Join(root, "out")
	os.Mkdir(srcDir, 0755)
	os.Mkdir(out, 0755)
	if c.Under != "mem" && c.Under != "multi" {
		if err := fsmodel.Materialize(c.Tree, srcDir); err != nil {
			return "infra", err.Error()
		}
	}
	view, pre, err := buildView(c, srcDir)
	if err != nil {
		return "view-failed", err.Error()
	}
	var listed []*types.Stat
	err = view.Walk(context.Background(), "/", func(p string, e gofs.DirEntry, err error) error {
		if err != nil {
			return err
		}
		fi, err := e.Info()
		if err != nil {
			return err
		}
		listed = append(listed, fi.Sys().(*types.Stat))
		return nil
	})
	if err != nil {
		return "walk-failed", err.Error()
	}
	listed = rerootLinks(listed)
	// (an unfiltered view is the tree: an export that is consistent with an incomplete walk is not a round trip)
	if len(c.Include)+len(c.Exclude)+len(c.Follow) == 0 && (c.Under == "disk" || c.Under == "mem") && len(listed) != len(c.Tree) {
		return "view-incomplete", fmt.Sprintf("the unfiltered view reports %d entries, the tree has %d", len(listed), len(c.Tree))
	}
	if c.Under == "maprewrite" {
		for _, st := range listed {
			if st.Uid != 4242 || st.Gid != 4243 || st.ModTime != 1_000_000_000_000_000_000 {
				return "map-rewrite-lost", fmt.Sprintf("%q is reported with uid=%d gid=%d mtime=%d although the view's map function rewrites every entry to 4242:4243 @1e18", st.Path, st.Uid, st.Gid, st.ModTime)
			}
		}
	}
	var buf bytes.Buffer
	if err := fsutil.WriteTar(context.Background(), view, &buf); err != nil {
		// the walk lists a file that the same view refuses to open (known dependency finding, see C11): the member's
		// header announces bytes that never come
		if strings.Contains(err.Error(), "missed writing") {
			for _, st := range listed {
				if rel := strings.TrimPrefix(st.Path, pre); st.Mode&uint32(os.ModeType) == 0 && pmClass(c, rel) {
					return "pm-incremental", fmt.Sprintf("WriteTar fails (%v): the filtered walk reports %q but Open through the same view refuses it", err, st.Path)
				}
			}
		}
		return "writetar-failed", err.Error()
	}
	// the same view behind readers that hand out a file in small pieces (a pipe, a network or decompressing file
	// system): a short read is not the end of a file, the archive is the same byte for byte
	for _, n := range []int{4096, 1} {
		var b2 bytes.Buffer
		if err := fsutil.WriteTar(context.Background(), shortReadFS{view, n}, &b2); err != nil {
			return "short-reads:writetar-failed", fmt.Sprintf("readers deliver at most %d bytes per call: %v", n, err)
		}
		if !bytes.Equal(b2.Bytes(), buf.Bytes()) {
			return "short-reads:archive-differs", fmt.Sprintf("readers deliver at most %d bytes per call: the archive differs from the one written from full reads (%d vs %d bytes)", n, b2.Len(), buf.Len())
		}
	}
	// a file that cannot be opened when its turn comes (gone since the walk listed it): the export fails, it does not
	// hand back an archive that silently lacks the file - and whatever follows it in its directory
	{
		tried := 0
		for _, st := range listed {
			if st.Mode&uint32(os.ModeType) != 0 || st.Size == 0 || st.Linkname != "" || tried >= 3 {
				continue
			}
			tried++
			var b3 bytes.Buffer
			if err := fsutil.WriteTar(context.Background(), goneFS{view, st.Path}, &b3); err == nil {
				return "open-failure-swallowed", fmt.Sprintf("%q cannot be opened (not-exist error) but WriteTar returned nil (%d bytes of archive, the complete one has %d)", st.Path, b3.Len(), buf.Len())
			}
		}
	}
	ms, err := readTar(buf.Bytes())
	if err != nil {
		return "archive-malformed", err.Error()
	}
	if len(ms) != len(listed) {
		return "member-count", fmt.Sprintf("%d members for %d entries of the view", len(ms), len(listed))
	}
	for i, st := range listed {
		h := ms[i].hdr
		name := st.Path
		if st.IsDir() {
			name += "/"
		}
		var d []string
		if h.Name != name {
			d = append(d, fmt.Sprintf("name %q want %q", h.Name, name))
		}
		if h.Typeflag != wantType(st) {
			d = append(d, fmt.Sprintf("typeflag %q want %q", h.Typeflag, wantType(st)))
		}
		if h.Linkname != st.Linkname {
			d = append(d, fmt.Sprintf("linkname %q want %q", h.Linkname, st.Linkname))
		}
		rel := strings.TrimPrefix(st.Path, pre)
		var content []byte
		if n := c.Tree.Find(rel); n != nil && wantType(st) == tar.TypeReg {
			content = n.Data
		}
		if wantType(st) == tar.TypeReg {
			if h.Size != int64(len(content)) || !bytes.Equal(ms[i].data, content) {
				d = append(d, fmt.Sprintf("payload %dB (header size %d), file has %dB", len(ms[i].data), h.Size, len(content)))
			}
		} else if h.Size != 0 || len(ms[i].data) != 0 {
			d = append(d, fmt.Sprintf("payload of %d bytes (header size %d) on a member that must have none", len(ms[i].data), h.Size))
		}
		if h.Mode != tarPerm(os.FileMode(st.Mode)) {
			d = append(d, fmt.Sprintf("mode %o want %o", h.Mode, tarPerm(os.FileMode(st.Mode))))
		}
		if h.Uid != int(st.Uid) || h.Gid != int(st.Gid) {
			d = append(d, fmt.Sprintf("owner %d:%d want %d:%d", h.Uid, h.Gid, st.Uid, st.Gid))
		}
		if h.ModTime.Unix() != st.ModTime/1e9 && !(st.ModTime < 0) {
			d = append(d, fmt.Sprintf("mtime %d want %d (to the second)", h.ModTime.Unix(), st.ModTime/1e9))
		}
		if (wantType(st) == tar.TypeChar || wantType(st) == tar.TypeBlock) && (h.Devmajor != st.Devmajor || h.Devminor != st.Devminor) {
			d = append(d, fmt.Sprintf("device %d,%d want %d,%d", h.Devmajor, h.Devminor, st.Devmajor, st.Devminor))
		}
		nx := 0
		for k, v := range h.PAXRecords {
			if name, ok := strings.CutPrefix(k, "SCHILY.xattr."); ok {
				nx++
				if w, ok := st.Xattrs[name]; !ok || string(w) != v {
					d = append(d, fmt.Sprintf("xattr record %s=%q not in the view's stat", name, v))
				}
			}
		}
		if nx != len(st.Xattrs) {
			d = append(d, fmt.Sprintf("%d xattr records for %d xattrs", nx, len(st.Xattrs)))
		}
		if len(d) > 0 {
			return "member:" + firstWord(d[0]), fmt.Sprintf("member %d (%s): %s", i, st.Path, strings.Join(d, "; "))
		}
	}
	// extracting reproduces the view
	if err := extract(ms, out); err != nil {
		key := "extract-failed"
		if strings.Contains(err.Error(), "hard link member") {
			key = "extract-failed:link-to-missing-member"
		}
		return key, err.Error()
	}
	var want fsmodel.Tree
	for _, st := range listed {
		rel := strings.TrimPrefix(st.Path, pre)
		var n fsmodel.Node
		if pre != "" && st.Path == strings.TrimSuffix(pre, "/") {
			n = fsmodel.Node{Path: st.Path, Kind: fsmodel.Dir, Perm: 0755}
		} else {
			sn := c.Tree.Find(rel)
			if sn == nil {
				return "walk-reports-unknown-path", st.Path
			}
			n = *sn
			n.Path = st.Path
			if pre != "" && n.Kind == fsmodel.Symlink && strings.HasPrefix(n.Link, "/") {
				n.Link = "/" + strings.TrimSuffix(pre, "/") + n.Link // a composite view re-roots absolute targets
			}
		}
		if c.Under == "maprewrite" {
			n.UID, n.GID, n.Mtime = 4242, 4243, 1_000_000_000_000_000_000 // the view is the tree as its map function rewrote it
		}
		n.Mtime = n.Mtime / 1e9 * 1e9
		want = append(want, n)
	}
	want = fixGroups(want)
	want.Sort()
	got, err := fsmodel.Snapshot(out)
	if err != nil {
		return "infra", err.Error()
	}
	for i := range got {
		got[i].Mtime = got[i].Mtime / 1e9 * 1e9
	}
	mask := fsmodel.Mask{NoXattrOf: func(n fsmodel.Node) bool { return n.Kind == fsmodel.Symlink }}
	for _, n := range c.Tree {
		if n.HL > 0 && n.Kind != fsmodel.File {
			mask.NoHardlinks = true
		}
	}
	if d := fsmodel.Diff(sourceView(want), got, mask); len(d) > 0 {
		return "extracted-differs:" + diffClass(d[0]), strings.Join(head(d, 5), " | ")
	}
	return "", ""
}

func c17Cases(tier string) []c11Case {
	var out []c11Case
	for _, where := range []string{"x", "d/x"} {
		for _, n := range fsmodel.AttrVariants(where) {
			if n.Kind == fsmodel.Socket {
				continue
			}
			t := fsmodel.Tree{n}
			if where == "d/x" {
				t = append(t, fsmodel.Node{Path: "d", Kind: fsmodel.Dir, Perm: 02755, Mtime: fsmodel.T0, UID: 5, GID: 6, Xattrs: map[string]string{"user.dd": "q"}})
			}
			t.Sort()
			for _, under := range []string{"disk", "mem", "subdir", "filter"} {
				if under == "mem" && n.Xattrs != nil && strings.HasPrefix(firstKey(n.Xattrs), "trusted.") {
					continue
				}
				out = append(out, c11Case{Tree: t, Under: under})
			}
		}
	}
	// several entries with different xattr sets in one archive; long and non-ASCII names
	mk := func(p string, k fsmodel.Kind, x map[string]string) fsmodel.Node {
		n := fsmodel.Node{Path: p, Kind: k, Perm: 0644, Mtime: fsmodel.T0 + int64(len(p)), Xattrs: x}
		if k == fsmodel.Dir {
			n.Perm = 0755
		} else {
			n.Data = fsmodel.Content(len(p), 10)
		}
		return n
	}
	l101 := strings.Repeat("n", 101)
	l155 := strings.Repeat("d", 155)
	xt := fsmodel.Tree{mk("a", fsmodel.File, map[string]string{"user.a": "1", "user.b": "2"}), mk("b", fsmodel.File, map[string]string{"user.b": "3"}), mk("c", fsmodel.File, nil),
		mk("d", fsmodel.Dir, map[string]string{"user.d": "4"}), mk("d/e", fsmodel.File, nil), mk("é", fsmodel.File, nil), mk(l101, fsmodel.File, nil),
		mk(l155, fsmodel.Dir, nil), mk(l155+"/"+l101, fsmodel.File, nil), mk("big", fsmodel.File, nil), mk("empty", fsmodel.File, nil)}
	xt[9].Data = fsmodel.Content(5, 70000)
	xt[10].Data = nil
	xt.Sort()
	for _, under := range []string{"disk", "mem", "subdir", "filter"} {
		out = append(out, c11Case{Tree: xt, Under: under})
	}
	// hard-link groups x filter configurations x layers under the filter
	inc := patternLists(1, c11Patterns)
	exc := patternLists(1, c11Patterns)
	if tier == "thorough" {
		inc = patternLists(2, c11Patterns)
	}
	// a composite of three sub-roots (one name a prefix of another, directories of equal base names), plain and filtered
	for _, f := range [][2][]string{{nil, nil}, {{"p1"}, nil}, {nil, {"p"}}, {{"*/a"}, nil}, {nil, {"p1/a"}}, {{"r", "p1/z"}, nil}} {
		out = append(out, c11Case{Tree: c11MultiTree(), Include: f[0], Exclude: f[1], Under: "multi"})
	}
	// a deeper tree: a directory selected through "**" or by a middle component, files with content several levels below
	// it (the header of a member announces bytes that Open must then deliver)
	{
		T := fsmodel.T0
		f := func(p string, seed int) fsmodel.Node {
			return fsmodel.Node{Path: p, Kind: fsmodel.File, Perm: 0644, Mtime: T + int64(seed), Data: fsmodel.Content(seed, 5+seed%7)}
		}
		dd := func(p string) fsmodel.Node { return fsmodel.Node{Path: p, Kind: fsmodel.Dir, Perm: 0755, Mtime: T} }
		deep := fsmodel.Tree{dd("a"), dd("a/d"), dd("a/d/v"), f("a/d/v/f", 70), f("a/d/v/g", 71), dd("a/d/v/w"), f("a/d/v/w/h", 72), f("c", 73), dd("v"), f("v/top", 74), dd("v/s"), f("v/s/u", 75)}
		deep.Sort()
		pats := []string{"**/v", "a/d", "**/d", "*/d/v", "!a/d/v/g", "a", "**/w", "v", "**/s"}
		for _, in := range patternLists(2, pats) {
			for _, ex := range patternLists(1, pats) {
				if tier != "thorough" && len(in)+len(ex) > 2 {
					continue
				}
				for _, under := range []string{"disk", "mem", "maprewrite"} {
					out = append(out, c11Case{Tree: deep, Include: in, Exclude: ex, Under: under})
				}
			}
		}
		// names that begin with two dots, at the top and below it; names with pattern metacharacters
		dots := fsmodel.Tree{dd("..2024_05_01"), f("..2024_05_01/token", 76), {Path: "..data", Kind: fsmodel.Symlink, Perm: 0777, Mtime: T, Link: "..2024_05_01"}, f("..gitkeep.bak", 77),
			dd("z"), f("z/..x", 78), dd("z/..y"), f("z/..y/w", 79), f("a[1]*", 80), dd("b?"), f("b?/c", 81)}
		dots.Sort()
		for _, under := range []string{"disk", "mem", "subdir", "filter"} {
			out = append(out, c11Case{Tree: dots, Under: under}, c11Case{Tree: dots, Under: under, Exclude: []string{"z"}}, c11Case{Tree: dots, Under: under, Include: []string{"..*"}})
		}
	}
	// hard-link groups of special files and of symlinks
	for _, lab := range fsmodel.Partitions(4) {
		for _, kind := range []fsmodel.Kind{fsmodel.Fifo, fsmodel.Symlink} {
			tf := c11Tree(lab, false, kind)
			for _, under := range []string{"disk", "mem", "filter", "subdir"} {
				out = append(out, c11Case{Tree: tf, Under: under})
				out = append(out, c11Case{Tree: tf, Under: under, Exclude: []string{"a/x"}})
			}
		}
	}
	for _, lab := range fsmodel.Partitions(4) {
		t := c11Tree(lab, false, fsmodel.File)
		for _, under := range []string{"disk", "filter", "map", "subdir", "mem"} {
			for _, in := range inc {
				for _, ex := range exc {
					out = append(out, c11Case{Tree: t, Include: in, Exclude: ex, Under: under})
				}
			}
		}
	}
	return out
}

// limitWriter fails once more than n bytes have been written.
type limitWriter struct {
	n      int
	failed bool
}

func (w *limitWriter) Write(p []byte) (int, error) {
	if len(p) > w.n {
		k := w.n
		w.n = 0
		w.failed = true
		return k, fmt.Errorf("sink full")
	}
	w.n -= len(p)
	return len(p), nil
}

// judgeC17Sink: a sink that fails after k bytes, for every k; and a source whose last
// file delivers fewer bytes than its stat announces. WriteTar must not report success
// for a stream that is not a complete archive.
func judgeC17Sink(tree fsmodel.Tree) (string, string, int) {
	var buf bytes.Buffer
	if err := fsutil.WriteTar(context.Background(), memfs.New(tree), &buf); err != nil {
		return "writetar-failed", err.Error(), 0
	}
	total := buf.Len()
	n := 0
	for k := 0; k < total; k++ {
		w := &limitWriter{n: k}
		err := fsutil.WriteTar(context.Background(), memfs.New(tree), w)
		n++
		if w.failed && err == nil {
			return "sink-failure-swallowed", fmt.Sprintf("the sink failed after %d of %d bytes but WriteTar returned nil", k, total), n
		}
	}
	// the last regular file in walk order is shorter than announced
	s := tree.Clone()
	s.Sort()
	last := -1
	for i, nd := range s {
		if nd.Kind == fsmodel.File && len(nd.Data) > 1 {
			last = i
		}
	}
	if last >= 0 {
		m := memfs.New(tree)
		lp := s[last].Path
		m.OpenHook = func(p string, rc io.ReadCloser) (io.ReadCloser, error) {
			if p == lp {
				return io.NopCloser(io.LimitReader(rc, int64(len(s[last].Data)/2))), nil
			}
			return rc, nil
		}
		var b2 bytes.Buffer
		n++
		if err := fsutil.WriteTar(context.Background(), m, &b2); err == nil {
			if _, rerr := readTar(b2.Bytes()); rerr != nil || true {
				return "short-file-accepted", fmt.Sprintf("%s delivered %d of %d announced bytes but WriteTar returned nil", lp, len(s[last].Data)/2, len(s[last].Data)), n
			}
		}
	}
	return "", "", n
}

func runC17(r *evid.Run) {
	r.Technique = "bounded-exhaustive enumeration of (tree, view configuration); every case one real WriteTar read back with archive/tar and extracted by a reference extractor; oracle = member-by-member comparison with the view's own walk + snapshot equality of the extraction"
	r.Rule = "one evaluation = one archive (written, parsed, compared, extracted); non-trivial = archives with >=2 members; states = distinct cases"
	r.Assume = []string{"archive/tar is the reference reader", "runs as root on tmpfs"}
	cases := c17Cases(r.Tier)
	r.Set("cases", len(cases))
	// sink faults at every byte position of two small archives
	sinkTrees := []fsmodel.Tree{
		{{Path: "a", Kind: fsmodel.File, Perm: 0644, Mtime: fsmodel.T0, Data: fsmodel.Content(1, 700)}, {Path: "d", Kind: fsmodel.Dir, Perm: 0755, Mtime: fsmodel.T0},
			{Path: "d/z", Kind: fsmodel.File, Perm: 0644, Mtime: fsmodel.T0, Data: fsmodel.Content(2, 1000)}},
		{{Path: "only", Kind: fsmodel.File, Perm: 0644, Mtime: fsmodel.T0, Data: fsmodel.Content(3, 513)}},
	}
	for _, st := range sinkTrees {
		st.Sort()
		k, m, n := judgeC17Sink(st)
		r.Evaluations.Add(int64(n))
		r.Add("sink_cut_points", int64(n))
		if k != "" {
			r.Violate(k, m, c11Case{Tree: st, Under: "sink"})
		}
	}
	par.Do(len(cases), par.Workers(), func(i int) {
		c := cases[i]
		key, msg := judgeC17(c)
		r.Evaluations.Add(1)
		r.StateH(evid.H(c.String()))
		if len(c.Tree) >= 2 {
			r.Nontrivial(c.String())
		}
		if i%4000 == 17 {
			r.Sample(map[string]any{"case": c.String(), "result": key})
		}
		if key != "" {
			r.Violate(key, c.String()+": "+msg, c)
		}
	})
}

func replayC17(raw json.RawMessage) string {
	var c c11Case
	if err := json.Unmarshal(raw, &c); err != nil {
		return "bad case: " + err.Error()
	}
	if c.Under == "sink" {
		k, m, _ := judgeC17Sink(c.Tree)
		if k == "" {
			return ""
		}
		return k + ": " + m
	}
	k, m := judgeC17(c)
	if k == "" {
		return ""
	}
	return k + ": " + m
}

// rerootLinks describes the listing as a self-contained tree: within every
// hard-link group the first listed member is the file, later ones name it.
func rerootLinks(in []*types.Stat) []*types.Stat {
	rep := map[string]string{}
	out := make([]*types.Stat, len(in))
	for i, st := range in {
		st = st.Clone()
		out[i] = st
		m := os.FileMode(st.Mode)
		if m.IsDir() || m&os.ModeSymlink != 0 {
			continue
		}
		key := st.Linkname
		if key == "" {
			key = st.Path
		}
		if r, ok := rep[key]; ok {
			st.Linkname = r
		} else {
			rep[key] = st.Path
			st.Linkname = ""
		}
	}
	return out
}

// shortReadFS: the view's files are read through readers that return at most n bytes per call.
type shortReadFS struct {
	fsutil.FS
	n int
}

func (s shortReadFS) Open(p string) (io.ReadCloser, error) {
	rc, err := s.FS.Open(p)
	if err != nil {
		return nil, err
	}
	return &shortReader{rc, s.n}, nil
}

type shortReader struct {
	io.ReadCloser
	n int
}

func (r *shortReader) Read(b []byte) (int, error) {
	if len(b) > r.n {
		b = b[:r.n]
	}
	return r.ReadCloser.Read(b)
}

// judgeC17 is judgeC17Raw with a panic of the code under test turned into a verdict (never a crash of the check).
func judgeC17(c c11Case) (k, m string) {
	defer func() {
		if r := recover(); r != nil {
			k, m = "panic", fmt.Sprintf("the code under test panicked: %v", r)
		}
	}()
	return judgeC17Raw(c)
}

// goneFS: one path of the view fails to open with a not-exist error.
type goneFS struct {
	fsutil.FS
	gone string
}

func (g goneFS) Open(p string) (io.ReadCloser, error) {
	if filepath.Clean("/"+p) == filepath.Clean("/"+g.gone) {
		return nil, &os.PathError{Op: "open", Path: p, Err: os.ErrNotExist}
	}
	return g.FS.Open(p)
}
