package checks

import (
	"encoding/json"
	"fmt"
	"os"
	"sort"
	"strings"

	"github.com/tonistiigi/fsutil/types"
	"verif/evid"
	"verif/fsmodel"
	"verif/memfs"
	"verif/par"
	"verif/xfer"
)

func init() { register("C02", runC02, replayC02) }

// History: sync the base tree into an empty destination, then for every group of
// edits apply it to the source and sync again. The last sync is the one judged
// (earlier ones must succeed).
type History struct {
	Base   fsmodel.Tree `json:"base"`
	Steps  [][]Edit     `json:"steps"` // each step: edits applied before the next sync
	Differ int          `json:"differ"`
	Mem    bool         `json:"mem,omitempty"`
	// FilterUID: every sync runs with a receiver-side Filter that rewrites ownership
	FilterUID bool `json:"filteruid,omitempty"`
	// FilterShift: the receiver-side Filter adds 1000 to uid and gid (not idempotent)
	FilterShift bool `json:"filtershift,omitempty"`
	// MetaAll: every sync is a metadata-only receive whose selector selects every path
	MetaAll bool `json:"metaall,omitempty"`
	// ViaLinks: both roots are handed over as symlinks to the directories
	ViaLinks bool `json:"vialinks,omitempty"`
}

func (h History) String() string {
	var s []string
	for _, st := range h.Steps {
		s = append(s, describeEdits(st))
	}
	return fmt.Sprintf("base=%s; sync; %s; sync (differ=%d mem=%v filteruid=%v filtershift=%v metadata-only-all=%v roots-via-symlinks=%v)", h.Base, strings.Join(s, "; sync; "), h.Differ, h.Mem, h.FilterUID, h.FilterShift, h.MetaAll, h.ViaLinks)
}

// runHistory plays a history; it returns the observation of the last sync and the
// final source tree.
func runHistory(h History, notify bool) (*SyncObs, fsmodel.Tree, string) {
	d := newSyncDirs()
	defer d.close()
	cur := h.Base.Clone()
	sync := func(c SyncCase) (*SyncObs, string) {
		if !h.Mem {
			if err := d.resetSrc(cur); err != nil {
				return nil, "materialize: " + err.Error()
			}
		}
		if h.MetaAll {
			c.MetaOn, c.MetaSel = true, cur.Paths()
		}
		o := d.transfer(c, cur)
		if o.Err != "" {
			return o, "infra: " + o.Err
		}
		if h.MetaAll {
			// the listing file is not an entry of the transfer (it is removed as stale and written anew each time)
			strip := func(t fsmodel.Tree) fsmodel.Tree {
				var out fsmodel.Tree
				for _, n := range t {
					if n.Path != listingName {
						out = append(out, n)
					}
				}
				return out
			}
			o.Before, o.After = strip(o.Before), strip(o.After)
			var notes []xfer.Note
			for _, n := range o.Notes {
				if n.Path != listingName {
					notes = append(notes, n)
				}
			}
			o.Notes = notes
		}
		if !o.Res.OK() {
			return o, fmt.Sprintf("transfer failed: send=%v recv=%v timeout=%v", o.Res.SendErr, o.Res.RecvErr, o.Res.TimedOut)
		}
		return o, ""
	}
	if _, e := sync(SyncCase{Mem: h.Mem, FilterUID: h.FilterUID, FilterShift: h.FilterShift, ViaLinks: h.ViaLinks}); e != "" {
		return nil, nil, "initial sync: " + e
	}
	var last *SyncObs
	for i, st := range h.Steps {
		for _, e := range st {
			n := applyEdit(cur, e)
			if n == nil {
				return nil, nil, "inapplicable"
			}
			cur = n
		}
		c := SyncCase{Mem: h.Mem, FilterUID: h.FilterUID, FilterShift: h.FilterShift, ViaLinks: h.ViaLinks}
		if i == len(h.Steps)-1 {
			c.Differ, c.Notify = h.Differ, notify
		}
		o, e := sync(c)
		if e != "" {
			return o, cur, e
		}
		last = o
	}
	return last, cur, ""
}

// wireIdentity is the identity key on stats: what the incremental comparison may
// look at.
func wireIdentity(st *types.Stat) string {
	if st == nil {
		return "absent"
	}
	s := fmt.Sprintf("%o|%d:%d|%q|%d,%d", st.Mode, st.Uid, st.Gid, st.Linkname, st.Devmajor, st.Devminor)
	if !st.IsDir() {
		s += fmt.Sprintf("|%d|%d", st.Size, st.ModTime)
	}
	return s
}

func statsByPath(t fsmodel.Tree) map[string]*types.Stat {
	m := map[string]*types.Stat{}
	for _, st := range memfs.Stats(t) {
		m[st.Path] = st
	}
	return m
}

func isPlainRegular(st *types.Stat) bool {
	return st.Mode&uint32(os.ModeType) == 0 && st.Linkname == ""
}

// judgeC02 checks the last sync of a history.
func judgeC02Raw(h History) (string, string) {
	o, _, e := runHistory(h, true)
	if e == "inapplicable" {
		return "", ""
	}
	if e != "" {
		if strings.HasPrefix(e, "infra") || strings.HasPrefix(e, "materialize") {
			return "infra", e
		}
		return "transfer-failed", e
	}
	before := statsByPath(o.Before)
	announced := o.Res.Log.Stats()
	want := map[uint32]bool{}
	optional := map[uint32]bool{}
	unchanged := map[string]bool{}
	for i, st := range announced {
		b := before[st.Path]
		if h.FilterShift {
			// the destination is compared with the entry as the receiver's Filter maps it
			st = st.Clone()
			st.Uid, st.Gid = st.Uid+1000, st.Gid+1000
		}
		same := b != nil && wireIdentity(b) == wireIdentity(st)
		if h.Differ == 1 { // DiffNone
			same = false
		}
		// the hard-link exception: the destination entry was a link whose named member is not
		// the same entry any more; whether it is still seen as a link depends on timing
		exception := false
		if b != nil && b.Linkname != "" && st.Linkname == "" && st.Mode == b.Mode {
			c := b.Clone()
			c.Linkname = ""
			if wireIdentity(c) == wireIdentity(st) {
				exception = true
			}
		}
		if isPlainRegular(st) {
			switch {
			case exception && h.Differ != 1:
				optional[uint32(i)] = true
			case !same:
				want[uint32(i)] = true
			}
		}
		if same && !exception {
			unchanged[st.Path] = true
		}
	}
	got := map[uint32]int{}
	for _, id := range o.Res.Log.Reqs() {
		got[id]++
	}
	var bad []string
	for id, n := range got {
		if n > 1 {
			bad = append(bad, fmt.Sprintf("id %d requested %d times", id, n))
		}
		if !want[id] && !optional[id] {
			p := "?"
			if int(id) < len(announced) {
				p = announced[id].Path
			}
			bad = append(bad, fmt.Sprintf("content requested for unchanged or non-file entry id %d (%s)", id, p))
		}
	}
	for id := range want {
		if got[id] == 0 {
			bad = append(bad, fmt.Sprintf("entry id %d (%s) changed identity but no content was requested", id, announced[id].Path))
		}
	}
	if len(bad) > 0 {
		sort.Strings(bad)
		key := "request-missing"
		if strings.Contains(bad[0], "unchanged") {
			key = "request-superfluous"
		}
		return key, strings.Join(head(bad, 4), " | ")
	}
	// untouched entries keep inode and bytes
	if h.Differ == 0 {
		for p := range unchanged {
			b, a := o.Before.Find(p), o.After.Find(p)
			if b == nil || a == nil {
				return "unchanged-entry-lost", p + " was identical on both sides but is gone"
			}
			if b.Ino != a.Ino {
				return "unchanged-entry-recreated", fmt.Sprintf("%s identical on both sides but its inode changed (%d -> %d)", p, b.Ino, a.Ino)
			}
			if string(b.Data) != string(a.Data) {
				return "unchanged-entry-rewritten", p + " identical on both sides but its bytes changed"
			}
		}
		noChange := len(want) == 0 && len(optional) == 0
		for _, st := range announced {
			if !unchanged[st.Path] {
				noChange = false
			}
		}
		if noChange && len(o.Before) == len(announced) {
			if len(o.Notes) != 0 {
				return "notified-without-change", fmt.Sprintf("nothing differs but %d notifications: %v", len(o.Notes), o.Notes)
			}
		}
	}
	// and the result still converges (C01 oracle, dirty mode)
	mask := fsmodel.Mask{DirMtime: func(p string) bool { n := o.Before.Find(p); return n != nil && n.Kind == fsmodel.Dir },
		NoXattrOf: func(fsmodel.Node) bool { return true }}
	if d := fsmodel.Diff(sourceView(o.View), o.After, mask); len(d) > 0 {
		return "dest-differs:" + diffClass(d[0]), strings.Join(head(d, 4), " | ")
	}
	return "", ""
}

func c02Histories(tier string) []History {
	var out []History
	for _, base := range baseTrees() {
		edits := allEdits(base)
		for _, differ := range []int{0, 1} {
			out = append(out, History{Base: base, Steps: [][]Edit{{}}, Differ: differ})
			out = append(out, History{Base: base, Steps: [][]Edit{{}}, Differ: differ, Mem: true})
			for _, e := range edits {
				out = append(out, History{Base: base, Steps: [][]Edit{{e}}, Differ: differ})
				if differ == 0 {
					out = append(out, History{Base: base, Steps: [][]Edit{{e}}, Differ: differ, Mem: true})
				}
			}
		}
		// metadata-only receives that select everything: the same incremental guarantees (a source entry named like
		// the listing file is not transferred in that mode, so trees holding one are left out here)
		if base.Find(listingName) == nil {
			out = append(out, History{Base: base, Steps: [][]Edit{{}}, MetaAll: true, Mem: true})
			for _, e := range edits {
				out = append(out, History{Base: base, Steps: [][]Edit{{e}}, MetaAll: true, Mem: true})
			}
		}
		// a receiver-side Filter that shifts ownership (applying it twice is not the same as applying it once)
		out = append(out, History{Base: base, Steps: [][]Edit{{}}, FilterShift: true})
		for _, e := range edits {
			out = append(out, History{Base: base, Steps: [][]Edit{{e}}, FilterShift: true})
		}
		// both roots reached through a symlink
		out = append(out, History{Base: base, Steps: [][]Edit{{}}, ViaLinks: true})
		for _, e := range edits {
			out = append(out, History{Base: base, Steps: [][]Edit{{e}}, ViaLinks: true})
		}
		if tier != "thorough" {
			continue
		}
		for _, e1 := range edits {
			t1 := applyEdit(base, e1)
			for _, e2 := range allEdits(t1) {
				out = append(out, History{Base: base, Steps: [][]Edit{{e1}, {e2}}, Differ: 0})
				out = append(out, History{Base: base, Steps: [][]Edit{{e1, e2}}, Differ: 0})
			}
		}
	}
	return out
}

func runC02(r *evid.Run) {
	r.Technique = "bounded-exhaustive enumeration of edit histories (sync; e; sync and, thorough, two-edit histories) over an alphabet of 21 source mutations at every applicable path of 6 base trees; every sync is a real Send/Receive; oracle computed from the wire log and inode snapshots"
	r.Rule = "one evaluation = one history (2-3 real transfers); non-trivial = histories with at least one edit; states = distinct histories"
	r.Assume = []string{"identity key written from the property text and evaluated on the STATs as sent vs an independent description of the destination", "runs as root on tmpfs"}
	hs := c02Histories(r.Tier)
	r.Set("histories", len(hs))
	par.Do(len(hs), par.Workers(), func(i int) {
		h := hs[i]
		key, msg := judgeC02(h)
		r.Evaluations.Add(1)
		r.Transitions.Add(int64(len(h.Steps) + 1))
		r.State(h.String())
		if len(h.Steps[0]) > 0 {
			r.Nontrivial(h.String())
		}
		if i%900 == 7 {
			r.Sample(map[string]any{"base": h.Base.Strings(), "edits": h.Steps, "differ": h.Differ, "result": key})
		}
		if key != "" {
			r.Violate(key, h.String()+": "+msg, h)
		}
	})
}

func replayC02(raw json.RawMessage) string {
	var h History
	if err := json.Unmarshal(raw, &h); err != nil {
		return "bad case: " + err.Error()
	}
	key, msg := judgeC02(h)
	if key == "" {
		return ""
	}
	return key + ": " + msg
}

// judgeC02 is judgeC02Raw with a panic of the code under test turned into a verdict (never a crash of the check).
func judgeC02(h History) (k, m string) {
	defer func() {
		if r := recover(); r != nil {
			k, m = "panic", fmt.Sprintf("the code under test panicked: %v", r)
		}
	}()
	return judgeC02Raw(h)
}
