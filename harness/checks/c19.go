package checks

import (
	"encoding/binary"
	"encoding/json"
	"fmt"
	"os"
	"path/filepath"
	"runtime"
	"runtime/debug"
	"sort"
	"strings"

	"github.com/tonistiigi/fsutil"
	"github.com/tonistiigi/fsutil/types"
	"verif/evid"
	"verif/fsmodel"
	"verif/memfs"
	"verif/par"
	"verif/scratch"
	"verif/xfer"
)

func init() { register("C19", runC19, replayC19) }

const listingName = ".fsutil-metadata"

type c19Case struct {
	Src    fsmodel.Tree `json:"src"`
	Select []string     `json:"select"`
	Prior  string       `json:"prior"` // empty | copy | listing | symlink | stale
	Mem    bool         `json:"mem,omitempty"`
	// Grow: the (in-memory) source's files deliver this many bytes more than their stat announces
	Grow  int  `json:"grow,omitempty"`
	Big   int  `json:"big,omitempty"`   // xattr value length injected into one entry (framing sweep)
	BigAt int  `json:"bigat,omitempty"` // index of that entry in path order
	Merge bool `json:"merge,omitempty"`
	// FailFirst: before the judged transfer, another metadata-only receive (other tree, other destination) is
	// aborted by this stream failure in the same process
	FailFirst *xfer.Fault `json:"failfirst,omitempty"`
	// Scribble: the selector rewrites the stat it is handed (it is a FilterFunc); only the listing is judged then:
	// its records are the stats as announced
	Scribble bool `json:"scribble,omitempty"`
}

func (c c19Case) String() string {
	s := fmt.Sprintf("src=%s select=%v prior=%s mem=%v big=%d@%d merge=%v grow=%d", c.Src, c.Select, c.Prior, c.Mem, c.Big, c.BigAt, c.Merge, c.Grow)
	if c.Scribble {
		s += " selector-rewrites-stat"
	}
	if c.FailFirst != nil {
		s += fmt.Sprintf(" after-aborted-receive(%s@%d)", c.FailFirst.End, c.FailFirst.K)
	}
	return s
}

func parseListing(b []byte) ([]*types.Stat, error) {
	var out []*types.Stat
	for len(b) > 0 {
		if len(b) < 4 {
			return out, fmt.Errorf("truncated length prefix (%d bytes left)", len(b))
		}
		n := int(binary.LittleEndian.Uint32(b))
		b = b[4:]
		if n > len(b) {
			return out, fmt.Errorf("record of %d bytes but only %d left", n, len(b))
		}
		st := &types.Stat{}
		if err := st.UnmarshalVT(b[:n]); err != nil {
			return out, fmt.Errorf("record %d: %v", len(out), err)
		}
		out = append(out, st)
		b = b[n:]
	}
	return out, nil
}

func judgeC19Raw(c c19Case) (string, string) {
	root := scratch.Dir("meta")
	defer scratch.Remove(root)
	srcDir, dst, outside := filepath.Join(root, "src"), filepath.Join(root, "dst"), filepath.Join(root, "outside")
	os.Mkdir(srcDir, 0755)
	os.Mkdir(dst, 0755)
	os.WriteFile(outside, []byte("sentinel"), 0644)
	src := c.Src.Clone()
	src.Sort()
	if c.Big > 0 && len(src) > c.BigAt {
		src[c.BigAt].Xattrs = map[string]string{"user.big": strings.Repeat("x", c.Big)}
	}
	var sfs fsutil.FS
	if c.Mem || c.Big > 0 {
		m := memfs.New(src)
		if c.Grow != 0 {
			m.Resize = func(_ string, data []byte) []byte { return ResizeBytes(data, c.Grow) }
		}
		sfs = m
	} else {
		if err := fsmodel.Materialize(src, srcDir); err != nil {
			return "infra", err.Error()
		}
		d, err := fsutil.NewFS(srcDir)
		if err != nil {
			return "infra", err.Error()
		}
		sfs = d
	}
	sel := map[string]bool{}
	for _, p := range c.Select {
		sel[p] = true
	}
	var prior fsmodel.Tree
	switch c.Prior {
	case "copy":
		for _, n := range src {
			if n.Path != listingName && !strings.HasPrefix(n.Path, listingName+"/") {
				prior = append(prior, n)
			}
		}
	case "listing":
		prior = fsmodel.Tree{{Path: listingName, Kind: fsmodel.File, Perm: 0600, Mtime: fsmodel.T0, Data: []byte("old listing, longer than the new one will be ..........................................................")}}
	case "symlink":
		prior = fsmodel.Tree{{Path: listingName, Kind: fsmodel.Symlink, Perm: 0777, Mtime: fsmodel.T0, Link: outside}}
	case "copy-older":
		// what an earlier receive of an earlier version of the source left: every regular file has the size it has now,
		// other bytes, and a modification time in the same second but on the second (an unpacked archive)
		for _, n := range src {
			if n.Path != listingName && !strings.HasPrefix(n.Path, listingName+"/") {
				if n.Kind == fsmodel.File && n.HL == 0 {
					n.Data = fsmodel.Content(200+len(n.Path), len(n.Data))
					n.Mtime = n.Mtime / 1e9 * 1e9
				}
				prior = append(prior, n)
			}
		}
	case "stale-tmp":
		// stale entries that carry the names the disk writer gives its temporaries (left by a killed receive, or simply
		// files of an earlier source)
		prior = fsmodel.Tree{{Path: ".tmp.482913377", Kind: fsmodel.File, Perm: 0600, Mtime: fsmodel.T0, Data: []byte("orphan")},
			{Path: ".tmp.gen", Kind: fsmodel.Dir, Perm: 0755, Mtime: fsmodel.T0}, {Path: ".tmp.gen/.tmp.x", Kind: fsmodel.File, Perm: 0644, Mtime: fsmodel.T0, Data: []byte("x")}}
	case "linked":
		// an earlier receive of an earlier source: every regular file of the source is there, but all of them are names of
		// ONE inode that carries the first file's bytes and metadata (the source has split the group since)
		first := -1
		for _, n := range src {
			if n.Path == listingName || strings.HasPrefix(n.Path, listingName+"/") {
				continue
			}
			if n.Kind == fsmodel.File {
				if first < 0 {
					first = len(prior)
				} else {
					f := prior[first]
					n.Data, n.Perm, n.UID, n.GID, n.Mtime, n.Xattrs = f.Data, f.Perm, f.UID, f.GID, f.Mtime, f.Xattrs
				}
				n.HL = 77
			}
			prior = append(prior, n)
		}
		if first >= 0 {
			prior[first].HL = 77
		}
		prior = fixGroups(prior)
	case "stale":
		prior = fsmodel.Tree{{Path: "stale", Kind: fsmodel.Dir, Perm: 0755, Mtime: fsmodel.T0}, {Path: "stale/f", Kind: fsmodel.File, Perm: 0644, Mtime: fsmodel.T0, Data: []byte("s")},
			{Path: "a", Kind: fsmodel.Symlink, Perm: 0777, Mtime: fsmodel.T0, Link: "nowhere"}}
	}
	if err := fsmodel.Materialize(prior, dst); err != nil {
		return "infra", err.Error()
	}
	priorSnap, _ := fsmodel.Snapshot(dst)
	if c.FailFirst != nil {
		lost := fsmodel.Tree{{Path: "lost1", Kind: fsmodel.File, Perm: 0644, Mtime: fsmodel.T0, Data: []byte("1")}, {Path: "lost2", Kind: fsmodel.Dir, Perm: 0755, Mtime: fsmodel.T0},
			{Path: "lost2/x", Kind: fsmodel.File, Perm: 0644, Mtime: fsmodel.T0, Data: fsmodel.Content(3, 40000)}, {Path: "lost3", Kind: fsmodel.File, Perm: 0644, Mtime: fsmodel.T0, Data: []byte("3")}}
		other := filepath.Join(root, "other")
		os.Mkdir(other, 0755)
		xfer.RunFault(memfs.New(lost), other, fsutil.ReceiveOpt{MetadataOnly: func(string, *types.Stat) bool { return true }}, nil, *c.FailFirst)
	}
	opt := fsutil.ReceiveOpt{Merge: c.Merge, MetadataOnly: func(p string, st *types.Stat) bool {
		if c.Scribble {
			st.ModTime, st.Uid, st.Mode = 1, 0, st.Mode&^uint32(os.ModeSetuid)|0o200
		}
		return sel[p]
	}}
	// the change callback sees what the disk writer is handed: every selected entry and needed ancestor once
	notes := &xfer.Notes{}
	opt.NotifyHashed, opt.ContentHasher = notes.Handle, xfer.Hasher
	res := xfer.Run(sfs, dst, opt, nil)
	if res.TimedOut {
		return "timeout", "transfer timed out"
	}
	if res.SendErr == nil && res.RecvErr == nil {
		seen := map[string]int{}
		for _, n := range notes.List {
			if n.Kind != fsutil.ChangeKindDelete && n.Path != listingName {
				seen[n.Path]++
			}
		}
		for p, k := range seen {
			if k > 1 {
				return "applied-twice", fmt.Sprintf("%s was handed to the disk writer (and reported) %d times", p, k)
			}
		}
	}
	if res.SendErr != nil || res.RecvErr != nil {
		// known finding: the top-level source entry named like the listing file is dropped before the stream validators
		// see it, what depends on it (entries below it, a later hard link to it) is not - the validators then reject a
		// stream that is valid
		dependents := false
		if ln := src.Find(listingName); ln != nil {
			for _, n := range src {
				if strings.HasPrefix(n.Path, listingName+"/") || (n.Path != listingName && ln.HL != 0 && n.HL == ln.HL) {
					dependents = true
				}
			}
		}
		if dependents && res.RecvErr != nil && (strings.Contains(res.RecvErr.Error(), "changes out of order") || strings.Contains(res.RecvErr.Error(), "invalid link")) {
			return "transfer-failed:dependents-of-listing-named-entry", fmt.Sprintf("send=%v recv=%v", res.SendErr, res.RecvErr)
		}
		return "transfer-failed", fmt.Sprintf("send=%v recv=%v", res.SendErr, res.RecvErr)
	}
	if b, _ := os.ReadFile(outside); string(b) != "sentinel" {
		return "listing-written-through-symlink", "the file a pre-existing symlink named like the listing points to was overwritten"
	}
	after, err := fsmodel.Snapshot(dst)
	if err != nil {
		return "infra", err.Error()
	}
	// listing
	ln := after.Find(listingName)
	if ln == nil || ln.Kind != fsmodel.File {
		return "listing-missing", "no regular listing file in the destination"
	}
	recs, err := parseListing(ln.Data)
	if err != nil {
		return "listing-corrupt", err.Error()
	}
	var announced []*types.Stat
	for _, st := range res.Log.Stats() {
		if st.Path != listingName {
			announced = append(announced, st)
		}
	}
	if len(recs) != len(announced) {
		return "listing-count", fmt.Sprintf("%d records for %d announced entries", len(recs), len(announced))
	}
	for i := range recs {
		if !recs[i].EqualVT(announced[i]) && !(statEqNoX(recs[i], announced[i]) && xEq(recs[i].Xattrs, announced[i].Xattrs)) {
			return "listing-record", fmt.Sprintf("record %d is %s, announced %s", i, statString(recs[i]), statString(announced[i]))
		}
	}
	if c.Scribble {
		return "", "" // what the selector did to the entries it selected is its own business
	}
	// destination = selected entries + the ancestors they need
	var want fsmodel.Tree
	need := map[string]bool{}
	for _, n := range src {
		if sel[n.Path] && n.Path != listingName {
			for q := n.Path; q != ""; q = parentOf(q) {
				need[q] = true
			}
		}
	}
	for _, n := range src {
		if need[n.Path] && n.Path != listingName {
			if c.Grow != 0 && n.Kind == fsmodel.File && n.HL == 0 && sel[n.Path] {
				n.Data = ResizeBytes(n.Data, c.Grow) // what the source delivered is what is stored
			}
			want = append(want, n)
		}
	}
	if c.Merge {
		// nothing of the old destination is removed unless the source replaces it
		var keep fsmodel.Tree
		for _, n := range priorSnap {
			if n.Path != listingName {
				keep = append(keep, n)
			}
		}
		want = overlay(keep, want)
	}
	var got fsmodel.Tree
	for _, n := range after {
		if n.Path != listingName {
			got = append(got, n)
		}
	}
	mask := fsmodel.Mask{DirMtime: func(p string) bool { n := priorSnap.Find(p); return n != nil && n.Kind == fsmodel.Dir },
		NoXattrOf: func(n fsmodel.Node) bool {
			if n.Kind != fsmodel.File && n.Kind != fsmodel.Dir {
				return true
			}
			return priorSnap.Find(n.Path) != nil
		}}
	if d := fsmodel.Diff(sourceView(want), got, mask); len(d) > 0 {
		return "dest-differs:" + diffClass(d[0]), strings.Join(head(d, 5), " | ")
	}
	// requests only for selected regular files (by the sender's numbering)
	all := res.Log.Stats()
	for _, id := range res.Log.Reqs() {
		if int(id) >= len(all) {
			return "req-unknown-id", fmt.Sprintf("REQ %d of %d", id, len(all))
		}
		st := all[id]
		if !sel[st.Path] || !isPlainRegular(st) {
			return "req-unselected", fmt.Sprintf("content requested for id %d (%s), which is not a selected regular file", id, st.Path)
		}
	}
	reqd := map[string]bool{}
	for _, id := range res.Log.Reqs() {
		reqd[all[id].Path] = true
	}
	priorStats := statsByPath(priorSnap)
	for _, st := range all {
		if sel[st.Path] && st.Path != listingName && isPlainRegular(st) && !reqd[st.Path] {
			if b := priorStats[st.Path]; b == nil || wireIdentity(b) != wireIdentity(st) {
				return "selected-not-requested", st.Path + " is selected and differs from the destination but no content was requested"
			}
		}
	}
	return "", ""
}

func c19Cases(tier string) []c19Case {
	var out []c19Case
	uni := []string{"a", "a/b", "a-b", "ab"}
	if tier == "thorough" {
		uni = []string{"a", "a/b", "a/c", "a-b", "ab", "ab/c"}
	}
	kinds := fsmodel.StdKinds(1)
	kinds = []fsmodel.EntryKind{kinds[0], kinds[1], kinds[2], kinds[4]}
	shapes := fsmodel.Shapes(uni, kinds)
	metaVariants := []fsmodel.Tree{nil,
		{{Path: listingName, Kind: fsmodel.File, Perm: 0644, Mtime: fsmodel.T0 + 5, Data: []byte("i am a source file")}},
		{{Path: listingName, Kind: fsmodel.Dir, Perm: 0755, Mtime: fsmodel.T0 + 5}},
		// ... a directory of that name with something below it; a file of that name that has a second name further on
		{{Path: listingName, Kind: fsmodel.Dir, Perm: 0755, Mtime: fsmodel.T0 + 5}, {Path: listingName + "/x", Kind: fsmodel.File, Perm: 0644, Mtime: fsmodel.T0 + 6, Data: []byte("below")}},
		{{Path: listingName, Kind: fsmodel.File, Perm: 0644, Mtime: fsmodel.T0 + 5, Data: []byte("two names"), HL: 9}, {Path: "zz-link", Kind: fsmodel.File, Perm: 0644, Mtime: fsmodel.T0 + 5, Data: []byte("two names"), HL: 9}}}
	for _, sh := range shapes {
		for mi, mv := range metaVariants {
			t := append(sh.Clone(), mv...)
			t.Sort()
			// the empty tree too: a listing with zero records is still a listing
			paths := sh.Paths()
			for mask := 0; mask < 1<<len(paths); mask++ {
				var sel []string
				for i, p := range paths {
					if mask&(1<<i) != 0 {
						sel = append(sel, p)
					}
				}
				priors := []string{"empty"}
				if mi == 0 || mask == (1<<len(paths))-1 || mask == 0 {
					priors = []string{"empty", "copy", "listing", "symlink", "stale", "stale-tmp", "linked", "copy-older"}
				}
				for _, pr := range priors {
					if pr != "empty" && pr != "copy" && pr != "linked" && pr != "copy-older" {
						out = append(out, c19Case{Src: t, Select: sel, Prior: pr, Merge: true})
					}
					out = append(out, c19Case{Src: t, Select: sel, Prior: pr})
					if pr == "empty" && mi == 0 {
						out = append(out, c19Case{Src: t, Select: sel, Prior: pr, Mem: true})
					}
				}
			}
		}
	}
	// selections under unselected directories, several levels, siblings before and after: every selector subset
	nest := fsmodel.Tree{{Path: "x", Kind: fsmodel.Dir, Perm: 0755, Mtime: fsmodel.T0}, {Path: "x/a", Kind: fsmodel.File, Perm: 0644, Mtime: fsmodel.T0 + 1, Data: []byte("a")},
		{Path: "x/m", Kind: fsmodel.Dir, Perm: 0755, Mtime: fsmodel.T0 + 2}, {Path: "x/m/q", Kind: fsmodel.File, Perm: 0644, Mtime: fsmodel.T0 + 3, Data: []byte("q")},
		{Path: "x/n", Kind: fsmodel.Dir, Perm: 0755, Mtime: fsmodel.T0 + 4}, {Path: "x/n/f", Kind: fsmodel.File, Perm: 0644, Mtime: fsmodel.T0 + 5, Data: []byte("f")},
		{Path: "y", Kind: fsmodel.Dir, Perm: 0755, Mtime: fsmodel.T0 + 6}, {Path: "y/z", Kind: fsmodel.File, Perm: 04755, UID: 5, Mtime: fsmodel.T0 + 7, Data: []byte("z")}}
	np := nest.Paths()
	for mask := 0; mask < 1<<len(np); mask++ {
		var sel []string
		for i, p := range np {
			if mask&(1<<i) != 0 {
				sel = append(sel, p)
			}
		}
		out = append(out, c19Case{Src: nest, Select: sel, Prior: "empty", Mem: mask%2 == 0})
		if mask%5 == 0 {
			out = append(out, c19Case{Src: nest, Select: sel, Prior: "empty", Mem: true, Scribble: true})
		}
	}
	// hard links: selectors closed under "link source of a selected link"
	hl := fsmodel.Tree{{Path: "a", Kind: fsmodel.File, Perm: 0644, Mtime: fsmodel.T0 + 1, Data: []byte("abcdef"), HL: 1}, {Path: "d", Kind: fsmodel.Dir, Perm: 0755, Mtime: fsmodel.T0},
		{Path: "d/h", Kind: fsmodel.File, Perm: 0644, Mtime: fsmodel.T0 + 1, Data: []byte("abcdef"), HL: 1}, {Path: "z", Kind: fsmodel.File, Perm: 0644, Mtime: fsmodel.T0 + 1, Data: []byte("abcdef"), HL: 1}}
	for _, sel := range [][]string{{"a"}, {"a", "d/h"}, {"a", "z"}, {"a", "d", "d/h", "z"}, {"d"}, {}} {
		for _, mem := range []bool{false, true} {
			out = append(out, c19Case{Src: hl, Select: sel, Prior: "empty", Mem: mem})
		}
	}
	// record framing: a record boundary meets the 32KiB buffer chunk boundary at every alignment,
	// single records larger than a chunk, listings of several chunks
	base := fsmodel.Tree{{Path: "a", Kind: fsmodel.File, Perm: 0644, Mtime: fsmodel.T0, Data: []byte("1")}, {Path: "b", Kind: fsmodel.File, Perm: 0644, Mtime: fsmodel.T0, Data: []byte("22")},
		{Path: "c", Kind: fsmodel.Dir, Perm: 0755, Mtime: fsmodel.T0}, {Path: "c/d", Kind: fsmodel.File, Perm: 0644, Mtime: fsmodel.T0, Data: []byte("333")}}
	lo, hi := 32640, 32790
	if tier == "thorough" {
		lo, hi = 32500, 32900
	}
	for big := lo; big <= hi; big++ {
		out = append(out, c19Case{Src: base, Select: []string{"b", "c/d"}, Prior: "empty", Big: big})
	}
	// an oversized record that is not the first one, arriving while a chunk is partly filled
	for _, big := range []int{32760, 32769, 40000, 70000} {
		for at := 1; at < 4; at++ {
			out = append(out, c19Case{Src: base, Select: []string{"a"}, Prior: "empty", Big: big, BigAt: at})
		}
	}
	for _, big := range []int{1, 70000, 200000} {
		out = append(out, c19Case{Src: base, Select: []string{"b"}, Prior: "empty", Big: big}) // the oversized xattr itself cannot be stored on disk
	}
	// files that deliver more than their stat announces, among them files announced as empty
	{
		g := fsmodel.Tree{{Path: "Dockerfile", Kind: fsmodel.File, Perm: 0644, Mtime: fsmodel.T0 + 1}, {Path: "d", Kind: fsmodel.Dir, Perm: 0755, Mtime: fsmodel.T0 + 2},
			{Path: "d/gen", Kind: fsmodel.File, Perm: 0644, Mtime: fsmodel.T0 + 3}, {Path: "d/five", Kind: fsmodel.File, Perm: 0644, Mtime: fsmodel.T0 + 4, Data: []byte("12345")}}
		for _, grow := range []int{7, 40000} {
			for _, sel := range [][]string{{"Dockerfile"}, {"d/gen", "d/five"}, {"Dockerfile", "d", "d/gen", "d/five"}} {
				out = append(out, c19Case{Src: g, Select: sel, Prior: "empty", Mem: true, Grow: grow})
			}
		}
	}
	var many fsmodel.Tree
	for i := 0; i < 900; i++ {
		many = append(many, fsmodel.Node{Path: fmt.Sprintf("f%04d%s", i, strings.Repeat("n", i%200)), Kind: fsmodel.File, Perm: 0644, Mtime: fsmodel.T0 + int64(i), Data: []byte{byte(i)}})
	}
	many.Sort()
	out = append(out, c19Case{Src: many, Select: []string{many[3].Path, many[600].Path}, Prior: "empty", Mem: true})
	for l := 1; l <= 255; l += 2 {
		t := fsmodel.Tree{{Path: strings.Repeat("p", l), Kind: fsmodel.File, Perm: 0644, Mtime: fsmodel.T0, Data: []byte("x")}, {Path: "z", Kind: fsmodel.File, Perm: 0644, Mtime: fsmodel.T0, Data: []byte("y")}}
		out = append(out, c19Case{Src: t, Select: []string{"z"}, Prior: "empty", Big: 32700 - l})
	}
	return out
}

func runC19(r *evid.Run) {
	r.Technique = "bounded-exhaustive enumeration of (tree, selector subset, prior destination) plus a sweep of record sizes across the 32KiB buffer-chunk boundary; every case one real metadata-only Receive; oracle = independent parse of the listing file vs the wire log, projection model of the destination, REQ log"
	r.Rule = "one evaluation = one metadata-only transfer; selectors = every subset of the tree's paths; non-trivial = cases with a non-empty tree; states = distinct cases"
	r.Assume = []string{"a source directory named like the listing file is skipped like a file of that name", "runs as root on tmpfs"}
	cases := c19Cases(r.Tier)
	// histories through an error path: a metadata-only receive aborted at every stream call, then a healthy one in
	// the same process. Run one after the other on a single P with the collector off, so that whatever the aborted
	// call left in process-wide state (pools included) is what the next call finds.
	base := fsmodel.Tree{{Path: "d", Kind: fsmodel.Dir, Perm: 0755, Mtime: fsmodel.T0}, {Path: "d/f2", Kind: fsmodel.File, Perm: 0644, Mtime: fsmodel.T0, Data: []byte("22")},
		{Path: "f1", Kind: fsmodel.File, Perm: 0644, Mtime: fsmodel.T0, Data: []byte("1")}}
	var hist []c19Case
	for _, end := range []string{"R.recv", "S.send", "R.send"} {
		for k := 0; k < 10; k++ {
			hist = append(hist, c19Case{Src: base, Select: []string{"f1"}, Prior: "empty", Mem: true, FailFirst: &xfer.Fault{End: end, K: k}})
		}
	}
	oldP, oldGC := runtime.GOMAXPROCS(1), debug.SetGCPercent(-1)
	for _, c := range hist {
		key, msg := judgeC19(c)
		r.Evaluations.Add(1)
		r.State(c.String())
		r.Nontrivial(c.String())
		if key != "" {
			r.Violate("history:"+key, c.String()+": "+msg, c)
		}
	}
	runtime.GOMAXPROCS(oldP)
	debug.SetGCPercent(oldGC)
	r.Set("history_cases", len(hist))
	r.Set("cases", len(cases))
	fails := map[string]int{}
	par.Do(len(cases), par.Workers(), func(i int) {
		c := cases[i]
		key, msg := judgeC19(c)
		r.Evaluations.Add(1)
		r.State(c.String())
		r.Nontrivial(c.String())
		if i%2500 == 5 {
			r.Sample(map[string]any{"src": c.Src.Strings(), "select": c.Select, "prior": c.Prior, "result": key})
		}
		if key != "" {
			r.Violate(key, c.String()+": "+msg, c)
		}
	})
	_ = fails
	_ = sort.Strings
}

func replayC19(raw json.RawMessage) string {
	var c c19Case
	if err := json.Unmarshal(raw, &c); err != nil {
		return "bad case: " + err.Error()
	}
	if c.FailFirst != nil {
		defer debug.SetGCPercent(debug.SetGCPercent(-1))
		defer runtime.GOMAXPROCS(runtime.GOMAXPROCS(1))
	}
	k, m := judgeC19(c)
	if k == "" {
		return ""
	}
	return k + ": " + m
}

// judgeC19 is judgeC19Raw with a panic of the code under test turned into a verdict (never a crash of the check).
func judgeC19(c c19Case) (k, m string) {
	defer func() {
		if r := recover(); r != nil {
			k, m = "panic", fmt.Sprintf("the code under test panicked: %v", r)
		}
	}()
	return judgeC19Raw(c)
}
