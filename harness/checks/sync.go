package checks

import (
	"bytes"
	"fmt"
	"os"
	"path/filepath"
	"strings"
	"verif/evid"

	"github.com/tonistiigi/fsutil"
	"github.com/tonistiigi/fsutil/types"
	"verif/fsmodel"
	"verif/memfs"
	"verif/scratch"
	"verif/xfer"
)

// SyncCase is one transfer: a source tree, a prior destination, a mode.
type SyncCase struct {
	Src       fsmodel.Tree `json:"src"`
	Dst       fsmodel.Tree `json:"dst"`
	Merge     bool         `json:"merge,omitempty"`
	Mem       bool         `json:"mem,omitempty"`    // synthetic in-memory source instead of NewFS
	Differ    int          `json:"differ,omitempty"` // fsutil.DiffType
	Notify    bool         `json:"notify,omitempty"`
	Unpriv    bool         `json:"unpriv,omitempty"`    // receiver (and whole transfer) runs as uid 1000
	FilterUID bool         `json:"filteruid,omitempty"` // source owned by 4242:4242, receiver Filter maps ownership to 0:0
	// FilterShift: source owned by 7:8, receiver Filter ADDS 1000 to both ids (a filter that is not idempotent)
	FilterShift bool `json:"filtershift,omitempty"`
	// FilterXattr: the receiver's Filter edits the xattr map of the stat it is handed in place (drops user.k, adds user.f)
	FilterXattr bool `json:"filterxattr,omitempty"`
	MemEOF      bool `json:"memeof,omitempty"`   // in-memory source whose readers return the last bytes together with io.EOF
	MemShort    int  `json:"memshort,omitempty"` // in-memory source whose readers deliver at most this many bytes per call
	// MemResize: in-memory source whose files changed size between listing and reading: readers deliver
	// len+MemResize bytes (negative: the tail is missing; -1<<30: nothing at all)
	MemResize int `json:"memresize,omitempty"`
	// AbortFirst: before the judged transfer, the same transfer is run once with this stream failure injected; the
	// judged transfer then meets whatever the aborted run left behind
	AbortFirst *xfer.Fault `json:"abortfirst,omitempty"`
	// MetaOn: metadata-only receive selecting exactly the paths in MetaSel
	MetaOn  bool     `json:"metaon,omitempty"`
	MetaSel []string `json:"metasel,omitempty"`
	// ViaLinks: the source root handed to NewFS and the destination handed to Receive are symlinks to the
	// directories (a versioned "current -> releases/7" layout)
	ViaLinks bool `json:"vialinks,omitempty"`
}

func (c SyncCase) String() string {
	s := fmt.Sprintf("src=%s dst=%s merge=%v mem=%v differ=%d", c.Src, c.Dst, c.Merge, c.Mem, c.Differ)
	if c.MemResize != 0 {
		s += fmt.Sprintf(" source-files-resized-by=%d", c.MemResize)
	}
	if c.MetaOn {
		s += fmt.Sprintf(" metadata-only select=%q", c.MetaSel)
	}
	if c.AbortFirst != nil {
		s += fmt.Sprintf(" after-a-run-aborted-by(%s@%d)", c.AbortFirst.End, c.AbortFirst.K)
	}
	if c.ViaLinks {
		s += " roots-reached-through-symlinks"
	}
	if c.MemShort > 0 {
		s += fmt.Sprintf(" source-readers-deliver-at-most=%dB", c.MemShort)
	}
	if c.FilterXattr {
		s += " filter-edits-xattrs-in-place"
	}
	if c.Notify || c.FilterShift || c.FilterUID {
		s += fmt.Sprintf(" notify=%v filter-shift=%v filter-uid=%v", c.Notify, c.FilterShift, c.FilterUID)
	}
	return s
}

// SyncObs is everything observable about one transfer.
type SyncObs struct {
	Merge  bool // the transfer ran in merge mode (no comparison with the old destination)
	Filter bool // a receiver-side Filter rewrote ownership: what is stored differs from what was announced by design
	Res    xfer.Result
	View   fsmodel.Tree // what the source looks like (independent snapshot)
	Before fsmodel.Tree
	After  fsmodel.Tree
	Notes  []xfer.Note
	Err    string
}

// syncDirs holds the directories of a (possibly multi-step) history.
type syncDirs struct{ root, src, dst string }

func newSyncDirs() *syncDirs {
	root := scratch.Dir("sync")
	d := &syncDirs{root: root, src: filepath.Join(root, "src"), dst: filepath.Join(root, "dst")}
	os.Mkdir(d.src, 0755)
	os.Mkdir(d.dst, 0755)
	os.Symlink("src", d.src+".lnk")
	os.Symlink(d.dst, d.dst+".lnk")
	// ... and a symlinked ANCESTOR of both (a state directory behind /var/run -> /run)
	os.Symlink(filepath.Base(root), root+".up")
	return d
}

func (d *syncDirs) close() { scratch.Remove(d.root); os.Remove(d.root + ".up") }

// resetSrc replaces the on-disk source by the tree.
func (d *syncDirs) resetSrc(t fsmodel.Tree) error {
	scratch.Remove(d.src)
	if err := os.Mkdir(d.src, 0755); err != nil {
		return err
	}
	return fsmodel.Materialize(t, d.src)
}

func (d *syncDirs) resetDst(t fsmodel.Tree) error {
	scratch.Remove(d.dst)
	if err := os.Mkdir(d.dst, 0755); err != nil {
		return err
	}
	return fsmodel.Materialize(t, d.dst)
}

// transfer runs one Send/Receive of the current source into the current dest.
func (d *syncDirs) transfer(c SyncCase, srcTree fsmodel.Tree) *SyncObs {
	return d.transferFault(c, srcTree, xfer.Fault{})
}

func (d *syncDirs) transferFault(c SyncCase, srcTree fsmodel.Tree, fault xfer.Fault) *SyncObs {
	o := &SyncObs{Merge: c.Merge, Filter: c.FilterUID || c.FilterShift}
	var err error
	if o.Before, err = fsmodel.Snapshot(d.dst); err != nil {
		o.Err = err.Error()
		return o
	}
	var src fsutil.FS
	if c.FilterUID {
		// what is sent belongs to 4242:4242; the destination is compared with ownership mapped back
		srcTree = srcTree.Clone()
		for i := range srcTree {
			srcTree[i].UID, srcTree[i].GID = 4242, 4242
		}
		c.Mem = true
	}
	if c.FilterShift {
		srcTree = srcTree.Clone()
		for i := range srcTree {
			srcTree[i].UID, srcTree[i].GID = 7, 8
		}
		c.Mem = true
	}
	if c.Mem {
		m := memfs.New(srcTree)
		m.EOFWithData = c.MemEOF
		m.MaxRead = c.MemShort
		if c.MemResize != 0 {
			m.Resize = func(_ string, data []byte) []byte { return ResizeBytes(data, c.MemResize) }
		}
		src = m
		o.View = srcTree.Clone()
		o.View.Sort()
		if c.FilterUID {
			for i := range o.View {
				o.View[i].UID, o.View[i].GID = 0, 0
			}
		}
		if c.FilterShift {
			for i := range o.View {
				o.View[i].UID, o.View[i].GID = 1007, 1008
			}
		}
	} else {
		srcArg := d.src
		if c.ViaLinks {
			srcArg += ".lnk"
		}
		if src, err = fsutil.NewFS(srcArg); err != nil {
			o.Err = err.Error()
			return o
		}
		if o.View, err = fsmodel.Snapshot(d.src); err != nil {
			o.Err = err.Error()
			return o
		}
	}
	opt := fsutil.ReceiveOpt{Merge: c.Merge, Differ: fsutil.DiffType(c.Differ)}
	if c.FilterUID {
		opt.Filter = func(p string, st *types.Stat) bool {
			st.Uid, st.Gid = 0, 0
			return true
		}
	}
	if c.MetaOn {
		sel := map[string]bool{}
		for _, p := range c.MetaSel {
			sel[p] = true
		}
		opt.MetadataOnly = func(p string, _ *types.Stat) bool { return sel[p] }
	}
	if c.FilterShift {
		opt.Filter = func(p string, st *types.Stat) bool {
			st.Uid, st.Gid = st.Uid+1000, st.Gid+1000
			return true
		}
	}
	if c.FilterXattr {
		opt.Filter = func(p string, st *types.Stat) bool {
			if st.Xattrs != nil {
				delete(st.Xattrs, "user.k")
				st.Xattrs["user.f"] = []byte("set by the filter")
				for k := range st.Xattrs {
					if len(st.Xattrs[k]) > 0 {
						st.Xattrs[k][0] ^= 0x20 // ... and scribbles on a value it was handed
					}
				}
			}
			return true
		}
	}
	notes := &xfer.Notes{}
	if c.Notify {
		opt.NotifyHashed = notes.Handle
		opt.ContentHasher = xfer.Hasher
	}
	dstArg := d.dst
	if c.ViaLinks {
		dstArg += ".lnk"
		if evid.H(c.String())%2 == 1 {
			dstArg = filepath.Join(d.root+".up", "dst") // the link is an ancestor, the last component a real directory
		}
	}
	o.Res = xfer.RunFault(src, dstArg, opt, nil, fault)
	o.Notes = notes.List
	if o.After, err = fsmodel.Snapshot(d.dst); err != nil {
		o.Err = err.Error()
	}
	return o
}

// identity is the per-entry key of the incremental comparison (C02): type and
// mode, owner, link target, device numbers and, for non-directories, size and mtime.
func identity(n *fsmodel.Node) string {
	if n == nil {
		return "absent"
	}
	s := fmt.Sprintf("%s|%o|%d:%d|%q|%d,%d", n.Kind, n.Perm, n.UID, n.GID, n.Link, n.Major, n.Minor)
	if n.Kind == fsmodel.Socket {
		// sockets travel as plain files (the socket bit is cleared by the walker)
		s = fmt.Sprintf("%s|%o|%d:%d|%q|%d,%d", fsmodel.File, n.Perm, n.UID, n.GID, n.Link, n.Major, n.Minor)
	}
	if n.Kind != fsmodel.Dir {
		sz := len(n.Data)
		if n.Kind == fsmodel.Symlink {
			sz = len(n.Link)
		}
		s += fmt.Sprintf("|%d|%d", sz, n.Mtime)
	}
	return s
}

// sourceView turns a snapshot of the source into what a receiver can reproduce:
// sockets become empty regular files (documented behaviour of the walker).
func sourceView(t fsmodel.Tree) fsmodel.Tree {
	out := t.Clone()
	for i := range out {
		if out[i].Kind == fsmodel.Socket {
			out[i].Kind = fsmodel.File
			out[i].Data = nil
		}
		if out[i].Kind == fsmodel.Symlink {
			// the protocol's link-name field carries a symlink's target; names of one symlink inode arrive as
			// separate, equal symlinks
			out[i].HL = 0
		}
	}
	return fixGroups(out)
}

// overlay is the merge-mode expectation: the source laid over the old
// destination, nothing removed that the source does not replace.
func overlay(old, src fsmodel.Tree) fsmodel.Tree {
	res := old.Clone()
	s := src.Clone()
	s.Sort()
	for _, n := range s {
		cur := res.Find(n.Path)
		if cur != nil && cur.Kind == fsmodel.Dir && n.Kind == fsmodel.Dir {
			*cur = n
			continue
		}
		var keep fsmodel.Tree
		for _, e := range res {
			if e.Path == n.Path || strings.HasPrefix(e.Path, n.Path+"/") {
				continue
			}
			keep = append(keep, e)
		}
		res = append(keep, n)
	}
	res.Sort()
	return res
}

func statString(st *types.Stat) string {
	if st == nil {
		return "nil"
	}
	return fmt.Sprintf("%s mode=%o %d:%d size=%d mtime=%d link=%q dev=%d,%d", st.Path, st.Mode, st.Uid, st.Gid, st.Size, st.ModTime, st.Linkname, st.Devmajor, st.Devminor)
}

// ResizeBytes: what a reader delivers of a file that changed size by delta after it was listed.
func ResizeBytes(data []byte, delta int) []byte {
	if delta < 0 {
		if -delta >= len(data) {
			return nil
		}
		return data[:len(data)+delta]
	}
	return append(append([]byte{}, data...), bytes.Repeat([]byte{0x5a}, delta)...)
}
