package checks

import (
	"context"
	"encoding/json"
	"fmt"
	gofs "io/fs"
	"os"
	"path/filepath"
	"strings"

	"github.com/moby/patternmatcher"
	"github.com/tonistiigi/fsutil"
	"github.com/tonistiigi/fsutil/types"
	"verif/evid"
	"verif/fsmodel"
	"verif/memfs"
	"verif/par"
	"verif/scratch"
)

func init() { register("C10", runC10, replayC10) }

type c10Case struct {
	Tree    fsmodel.Tree `json:"tree"`
	Include []string     `json:"include,omitempty"`
	Exclude []string     `json:"exclude,omitempty"`
	MapOp   string       `json:"mapop,omitempty"` // "", identity, exclude, skipdir, rewrite
	MapPath string       `json:"mappath,omitempty"`
	Disk    bool         `json:"disk,omitempty"`
	Reuse   bool         `json:"reuse,omitempty"`  // one filtered FS value walked repeatedly and re-entrantly
	Follow  []string     `json:"follow,omitempty"` // FollowPaths (the trees have no symlinks: each path stands for itself)
	Multi   bool         `json:"multi,omitempty"`  // the filter sits on a composite whose sub-roots are the tree's top-level directories
	// FollowEmpty: FollowPaths is present but empty ([]string{}): nothing is followed, the include list stays as it is
	FollowEmpty bool `json:"followempty,omitempty"`
}

func (c c10Case) String() string {
	s := fmt.Sprintf("tree=%v include=%q exclude=%q", c.Tree.Paths(), c.Include, c.Exclude)
	if c.MapOp != "" {
		s += fmt.Sprintf(" map=%s@%s", c.MapOp, c.MapPath)
	}
	if c.Disk {
		s += " disk"
	}
	if c.Reuse {
		s += " reuse"
	}
	if len(c.Follow) > 0 {
		s += fmt.Sprintf(" follow=%q", c.Follow)
	}
	if c.Multi {
		s += " over-a-composite-of-sub-roots"
	}
	if c.FollowEmpty {
		s += " follow=[](empty, not nil)"
	}
	return s
}

var c10Patterns = []string{"a", "a/b", "a/*", "a/**", "*", "**", "a*", "?b", "*/b", "**/b", "a/b/", "[a]b", "a/b*", "b", "!a", "!a/b", "!a/b*", "!**/c", "ab"}

// literal prefixes of increasing depth, negated and not, and trailing globs
var c10DeepPatterns = []string{"a", "a/b", "a/b/c", "a/b/c/b", "!a", "!a/b", "!a/b/c", "b/a", "!b/a", "a/*", "a/b/**", "!a/b/*", "!a/b/**", "!a/bc"}

// patterns whose tail is more than one wildcard component (used in single-pattern and pair cases)
var c10TailPatterns = []string{"a/*/**", "*/*", "a/*/*", "!a/*/*", "!a/*/**", "*/*/**"}

// names with pattern metacharacters, selected by escaped patterns
var c10EscPatterns = []string{`a\[1\]/b/c`, `a\[1\]`, `a\[1\]/b`, `a[[]1]/b/c`, `x`, `!a\[1\]/b`, `*/d`, `a\[1\]/*/c`, `q\?/r`}

func c10EscTree() fsmodel.Tree {
	var t fsmodel.Tree
	for i, p := range []string{"a[1]", "a[1]/b", "q?", "x"} {
		t = append(t, fsmodel.Node{Path: p, Kind: fsmodel.Dir, Perm: 0755, Mtime: fsmodel.T0 + int64(i)})
	}
	for i, p := range []string{"a[1]/b/c", "a[1]/d", "q?/r", "x/y"} {
		t = append(t, fsmodel.Node{Path: p, Kind: fsmodel.File, Perm: 0644, Mtime: fsmodel.T0 + int64(i+20), Data: fsmodel.Content(i, 3)})
	}
	t.Sort()
	return t
}

func patternLists(maxLen int, pats []string) [][]string {
	out := [][]string{nil}
	var rec func(cur []string)
	rec = func(cur []string) {
		if len(cur) > 0 {
			out = append(out, append([]string{}, cur...))
		}
		if len(cur) == maxLen {
			return
		}
		for _, p := range pats {
			rec(append(cur, p))
		}
	}
	rec(nil)
	return out
}

func parentOf(p string) string {
	if i := strings.LastIndexByte(p, '/'); i >= 0 {
		return p[:i]
	}
	return ""
}

// naiveKept evaluates every entry of the full tree against the pattern lists with
// the non-incremental entry point of the matcher.
func naiveKept(t fsmodel.Tree, inc, exc []string) (map[string]bool, error) {
	var im, em *patternmatcher.PatternMatcher
	var err error
	if len(inc) > 0 {
		if im, err = patternmatcher.New(inc); err != nil {
			return nil, err
		}
	}
	if len(exc) > 0 {
		if em, err = patternmatcher.New(exc); err != nil {
			return nil, err
		}
	}
	kept := map[string]bool{}
	for _, n := range t {
		ok := true
		if im != nil {
			if ok, err = im.MatchesOrParentMatches(n.Path); err != nil {
				return nil, err
			}
		}
		if ok && em != nil {
			x, err := em.MatchesOrParentMatches(n.Path)
			if err != nil {
				return nil, err
			}
			ok = !x
		}
		if ok {
			kept[n.Path] = true
		}
	}
	return kept, nil
}

// chainKept is an independent unpruned walk that chains the incremental matcher
// entry point with the parent directory's match info (what fsutil's walker and
// copier are documented to do), without pruning or lazy emission.
func chainKept(t fsmodel.Tree, inc, exc []string) (map[string]bool, error) {
	var im, em *patternmatcher.PatternMatcher
	var err error
	if len(inc) > 0 {
		if im, err = patternmatcher.New(inc); err != nil {
			return nil, err
		}
	}
	if len(exc) > 0 {
		if em, err = patternmatcher.New(exc); err != nil {
			return nil, err
		}
	}
	type info struct{ i, e patternmatcher.MatchInfo }
	infos := map[string]info{}
	kept := map[string]bool{}
	s := t.Clone()
	s.Sort()
	for _, n := range s {
		var pi info
		if p := parentOf(n.Path); p != "" {
			pi = infos[p]
		}
		ok := true
		var mi, me patternmatcher.MatchInfo
		if im != nil {
			if ok, mi, err = im.MatchesUsingParentResults(n.Path, pi.i); err != nil {
				return nil, err
			}
		}
		if em != nil {
			var x bool
			if x, me, err = em.MatchesUsingParentResults(n.Path, pi.e); err != nil {
				return nil, err
			}
			if x {
				ok = false
			}
		}
		if n.Kind == fsmodel.Dir {
			infos[n.Path] = info{mi, me}
		}
		if ok {
			kept[n.Path] = true
		}
	}
	return kept, nil
}

// closure adds the ancestors of kept entries and returns the list in walk order.
func closure(t fsmodel.Tree, kept map[string]bool) []string {
	all := map[string]bool{}
	for p := range kept {
		for q := p; q != ""; q = parentOf(q) {
			all[q] = true
		}
	}
	s := t.Clone()
	s.Sort()
	var out []string
	for _, n := range s {
		if all[n.Path] {
			out = append(out, n.Path)
		}
	}
	return out
}

// applyMap transforms the kept set according to a single-path map assignment.
func applyMap(t fsmodel.Tree, kept map[string]bool, op, at string) []string {
	s := t.Clone()
	s.Sort()
	base := closure(t, kept)
	inBase := false
	for _, p := range base {
		if p == at {
			inBase = true
		}
	}
	if !inBase || op == "" || op == "identity" || op == "rewrite" {
		return base
	}
	removed := map[string]bool{at: true}
	n := t.Find(at)
	if op == "skipdir" {
		if n.Kind == fsmodel.Dir {
			for _, m := range s {
				if strings.HasPrefix(m.Path, at+"/") {
					removed[m.Path] = true
				}
			}
		} else {
			par := parentOf(at)
			after := false
			for _, m := range s {
				if m.Path == at {
					after = true
					continue
				}
				if after && (par == "" || strings.HasPrefix(m.Path, par+"/")) {
					removed[m.Path] = true
				}
			}
		}
	}
	k2 := map[string]bool{}
	for p := range kept {
		if !removed[p] {
			k2[p] = true
		}
	}
	var out []string
	for _, p := range closure(t, k2) {
		if p != at {
			out = append(out, p)
		}
	}
	return out
}

type c10Result struct {
	paths   []string
	stats   map[string]*types.Stat
	mapped  map[string]bool
	unmapCB string // a callback for a path the map function was not consulted on
}

func walkFiltered(c c10Case, under fsutil.FS) (*c10Result, error) {
	res := &c10Result{stats: map[string]*types.Stat{}, mapped: map[string]bool{}}
	opt := &fsutil.FilterOpt{IncludePatterns: c.Include, ExcludePatterns: c.Exclude, FollowPaths: c.Follow}
	if c.FollowEmpty {
		opt.FollowPaths = []string{}
	}
	if c.MapOp != "" {
		opt.Map = func(p string, st *types.Stat) fsutil.MapResult {
			res.mapped[p] = true
			if p == c.MapPath {
				switch c.MapOp {
				case "exclude":
					return fsutil.MapResultExclude
				case "skipdir":
					return fsutil.MapResultSkipDir
				case "rewrite":
					st.Uid = 4242
					st.Mode = st.Mode&^0777 | 0751
				}
			}
			return fsutil.MapResultKeep
		}
	}
	ffs, err := newFilterFSReusedOpt(under, opt)
	if err != nil {
		return nil, err
	}
	err = ffs.Walk(context.Background(), "/", func(p string, e gofs.DirEntry, err error) error {
		if err != nil {
			return err
		}
		fi, err := e.Info()
		if err != nil {
			return err
		}
		if c.MapOp != "" && !res.mapped[p] && res.unmapCB == "" {
			res.unmapCB = p
		}
		res.paths = append(res.paths, p)
		res.stats[p] = fi.Sys().(*types.Stat)
		return nil
	})
	return res, err
}

// judgeC10Reuse: what a filtered FS value reports does not depend on what else the value has done or is doing:
// walked again after a walk, and with a second complete walk running inside each callback of a walk in turn.
func judgeC10Reuse(c c10Case, under fsutil.FS) (string, string) {
	ffs, err := fsutil.NewFilterFS(under, &fsutil.FilterOpt{IncludePatterns: c.Include, ExcludePatterns: c.Exclude})
	if err != nil {
		return "walk-failed", err.Error()
	}
	ctx := context.Background()
	paths := func(hook func(i int)) (string, error) {
		var out []string
		err := ffs.Walk(ctx, "/", func(p string, e gofs.DirEntry, err error) error {
			if err != nil {
				return err
			}
			if hook != nil {
				hook(len(out))
			}
			out = append(out, p)
			return nil
		})
		return strings.Join(out, " "), err
	}
	first, err := paths(nil)
	if err != nil {
		return "walk-failed", err.Error()
	}
	if again, err := paths(nil); err != nil || again != first {
		return "history-differs", fmt.Sprintf("second walk of the same filtered FS reports [%s] (%v), the first reported [%s]", again, err, first)
	}
	n := len(strings.Fields(first))
	for i := 0; i < n; i++ {
		var inner string
		var innerErr error
		outer, err := paths(func(k int) {
			if k == i {
				inner, innerErr = paths(nil)
			}
		})
		if err != nil || innerErr != nil {
			return "walk-failed", fmt.Sprintf("re-entrant walk at callback %d: %v %v", i, err, innerErr)
		}
		if outer != first {
			return "reentrant-differs", fmt.Sprintf("a walk reports [%s] when another walk of the same filtered FS runs inside its callback #%d; alone it reports [%s]", outer, i, first)
		}
		if inner != first {
			return "reentrant-differs", fmt.Sprintf("a walk started inside callback #%d of another walk of the same filtered FS reports [%s]; alone it reports [%s]", i, inner, first)
		}
	}
	return "", ""
}

func judgeC10Raw(c c10Case) (string, string) {
	var under fsutil.FS = memfs.New(c.Tree)
	if c.Disk {
		dir := scratch.Dir("filt")
		defer scratch.Remove(dir)
		if err := fsmodel.Materialize(c.Tree, dir); err != nil {
			return "infra", err.Error()
		}
		// every other on-disk case reaches its root through a symlink (/tmp -> private/tmp, current -> releases/7)
		arg := dir
		if evid.H(c.String())%2 == 1 {
			lnk := dir + ".lnk"
			os.Remove(lnk)
			if err := os.Symlink(filepath.Base(dir), lnk); err == nil {
				defer os.Remove(lnk)
				arg = lnk
			}
		}
		d, err := fsutil.NewFS(arg)
		if err != nil {
			return "infra", err.Error()
		}
		under = d
	}
	if c.Multi {
		// the sub-roots are handed over in an order that depends on the case: the constructor sorts them
		comp, err := compositeOf(c.Tree, int(evid.H(c.String())%6))
		if err != nil {
			return "infra", err.Error()
		}
		under = comp
	}
	if c.Reuse {
		return judgeC10Reuse(c, under)
	}
	res, err := walkFiltered(c, under)
	if err != nil {
		return "walk-failed", err.Error()
	}
	// structural properties of the callback sequence
	seen := map[string]bool{}
	for i, p := range res.paths {
		if seen[p] {
			return "reported-twice", p
		}
		seen[p] = true
		if i > 0 && fsmodel.ComparePaths(res.paths[i-1], p) >= 0 {
			return "order", fmt.Sprintf("%q reported before %q", res.paths[i-1], p)
		}
		if par := parentOf(p); par != "" && !seen[par] && !(c.MapOp == "exclude" && c.MapPath == par) {
			return "child-before-parent", fmt.Sprintf("%q reported but its directory %q was not reported before it", p, par)
		}
	}
	if res.unmapCB != "" {
		return "callback-without-map", fmt.Sprintf("%q reported although the map function was not consulted for it", res.unmapCB)
	}
	// directory-skipping shortcuts never change the result - what is reported, and as what: the same configuration
	// with one more pattern that matches nothing but switches the shortcuts off reports the same entries with the
	// same stats (link names in particular: whether a hidden name of an inode counts as "seen" must not depend on
	// whether its directory was walked or skipped)
	if c.Disk && c.MapOp == "" && len(c.Follow) == 0 && !c.FollowEmpty && (len(c.Include) > 0 || len(c.Exclude) > 0) {
		c2 := c
		if len(c.Exclude) > 0 {
			c2.Exclude = append(append([]string{}, c.Exclude...), "!nothing*/here?")
		}
		if len(c.Include) > 0 {
			c2.Include = append(append([]string{}, c.Include...), "nothing*/here?")
		}
		res2, err := walkFiltered(c2, under)
		if err != nil {
			return "walk-failed", "with a no-op pattern added: " + err.Error()
		}
		if strings.Join(res.paths, " ") == strings.Join(res2.paths, " ") {
			for _, p := range res.paths {
				if d := statDiff(res2.stats[p], res.stats[p]); d != "" {
					return "shortcut-changes-stat", fmt.Sprintf("%q is reported differently once a pattern that matches nothing (%q / %q) switches directory skipping off: %s", p, c2.Include, c2.Exclude, d)
				}
			}
		}
	}
	if c.MapOp == "rewrite" {
		if st := res.stats[c.MapPath]; st != nil && (st.Uid != 4242 || st.Mode&0777 != 0751) {
			return "map-rewrite-lost", fmt.Sprintf("%q reported with uid=%d mode=%o, the map function set uid=4242 mode=0751", c.MapPath, st.Uid, st.Mode&0777)
		}
	}
	// follow paths are include patterns appended after the caller's (so they override earlier exceptions); paths
	// nested in another followed path are redundant
	inc := c.Include
	if len(c.Follow) > 0 {
		inc = append([]string{}, c.Include...)
		fl := append([]string{}, c.Follow...)
		sortStrings(fl)
		for _, f := range fl {
			nested := false
			for _, g := range fl {
				if g != f && strings.HasPrefix(f, g+"/") {
					nested = true
				}
			}
			if !nested {
				inc = append(inc, f)
			}
		}
	}
	kept, err := naiveKept(c.Tree, inc, c.Exclude)
	if err != nil {
		return "infra", err.Error()
	}
	want := applyMap(c.Tree, kept, c.MapOp, c.MapPath)
	got := strings.Join(res.paths, " ")
	if got == strings.Join(want, " ") {
		return "", ""
	}
	// three-way verdict: is the disagreement the incremental matcher's?
	ck, err := chainKept(c.Tree, inc, c.Exclude)
	if err != nil {
		return "infra", err.Error()
	}
	cw := applyMap(c.Tree, ck, c.MapOp, c.MapPath)
	if got == strings.Join(cw, " ") {
		return "pm-incremental", fmt.Sprintf("walk reports [%s], naive evaluation gives [%s]; an unpruned chain of MatchesUsingParentResults gives the walk's result (dependency moby/patternmatcher)", got, strings.Join(want, " "))
	}
	return "differs-from-reference", fmt.Sprintf("walk reports [%s], naive evaluation gives [%s], unpruned incremental chain gives [%s]", got, strings.Join(want, " "), strings.Join(cw, " "))
}

func c10Trees(tier string) []fsmodel.Tree {
	mk := func(dirs, files []string) fsmodel.Tree {
		var t fsmodel.Tree
		for i, p := range dirs {
			t = append(t, fsmodel.Node{Path: p, Kind: fsmodel.Dir, Perm: 0755, Mtime: fsmodel.T0 + int64(i)})
		}
		for i, p := range files {
			t = append(t, fsmodel.Node{Path: p, Kind: fsmodel.File, Perm: 0644, Mtime: fsmodel.T0 + int64(i+20), Data: fsmodel.Content(i, 3)})
		}
		t.Sort()
		return t
	}
	trees := []fsmodel.Tree{
		mk([]string{"a", "a/b", "ab", "b"}, []string{"a/bc", "a/b/c", "ab/c", "b/a"}),
		mk([]string{"a", "ab"}, []string{"a/b", "a/bc", "ab/c", "b"}),
		mk([]string{"a", "a/b", "b"}, []string{"a/b/c", "ab", "b/a"}),
		mk([]string{"a", "a/b", "a/b/c", "b", "b/a"}, []string{"a/b/c/b", "b/a/b", "ab"}),
		mk(nil, []string{"a", "ab", "b"}),
		mk([]string{"ab", "b"}, []string{"a", "ab/c", "b/a"}),
		mk([]string{"a", "a/bc", "ab"}, []string{"a/b", "a/bc/c", "ab/c"}),
		mk([]string{"a", "a/b", "b", "b/a", "c"}, []string{"a/b/b", "b/a/c", "c/b"}),
	}
	if tier != "thorough" {
		return trees
	}
	trees = append(trees,
		mk([]string{"a", "a/b", "a/b/c"}, []string{"a/b/c/b", "a/b/c/c"}),
		mk([]string{"a", "a-b", "a-b/b"}, []string{"a/b", "a-b/b/c", "a.b"}),
		mk([]string{"a", "a/b", "a/bc", "ab", "ab/c", "b", "b/a"}, nil),
		mk([]string{"b", "b/b", "b/b/b"}, []string{"a", "b/a", "b/b/a", "b/b/b/b", "b/b/b/c"}),
	)
	return trees
}

func runC10(r *evid.Run) {
	r.Technique = "bounded-exhaustive enumeration of (tree, include list, exclude list, map assignment); every case one real filtered Walk; oracle = naive per-entry evaluation with the non-incremental matcher entry point, plus an independent unpruned incremental chain to attribute disagreements"
	r.Rule = "one evaluation = one filtered walk; include and exclude lists are all lists of length <=2 over 19 patterns, independently; non-trivial = cases with at least one pattern where the filter hides at least one entry; states = distinct cases"
	r.Assume = []string{"moby/patternmatcher's MatchesOrParentMatches on a fresh matcher is the reference semantics of a pattern list", "a map function that drops a directory drops only that entry (its contents are still visited), as documented"}
	trees := c10Trees(r.Tier)
	lists := patternLists(2, c10Patterns)
	var cases []c10Case
	for _, t := range trees {
		for _, inc := range lists {
			for _, exc := range lists {
				cases = append(cases, c10Case{Tree: t, Include: inc, Exclude: exc})
			}
		}
	}
	// multi-component wildcard tails, alone and combined with every other pattern
	for _, t := range trees {
		for _, tp := range c10TailPatterns {
			cases = append(cases, c10Case{Tree: t, Include: []string{tp}}, c10Case{Tree: t, Exclude: []string{tp}})
			for _, q := range c10Patterns {
				cases = append(cases, c10Case{Tree: t, Include: []string{q, tp}}, c10Case{Tree: t, Include: []string{tp, q}},
					c10Case{Tree: t, Exclude: []string{q, tp}}, c10Case{Tree: t, Exclude: []string{tp, q}}, c10Case{Tree: t, Include: []string{tp}, Exclude: []string{q}})
			}
		}
	}
	// a pattern repeated after another one (p, q, p): the repetition is not redundant when q has the
	// opposite polarity
	for _, t := range trees {
		for _, p1 := range c10Patterns {
			for _, q := range c10Patterns {
				if p1 == q {
					continue
				}
				cases = append(cases, c10Case{Tree: t, Include: []string{p1, q, p1}}, c10Case{Tree: t, Exclude: []string{p1, q, p1}})
			}
		}
	}
	// literal prefixes down to depth 4 with negations in between: every list of three, as include and as exclude
	// list (the lists the directory-pruning shortcut applies to)
	for _, l := range patternLists(3, c10DeepPatterns) {
		if len(l) != 3 {
			continue
		}
		for _, t := range trees {
			cases = append(cases, c10Case{Tree: t, Include: l}, c10Case{Tree: t, Exclude: l})
		}
	}
	// an excluded directory with TWO exceptions, one with a wildcard in a middle component and one literal, in both
	// orders (round 12: whether directories may be pruned must not depend on which exception comes last)
	{
		exc := []string{"!a/*/c", "!a/*", "!*/b/c", "!a/b", "!a/b/c", "!a/bc", "!a/?/c", "!a/b/**", "!a/*/c/b"}
		for _, base := range []string{"a", "a/b", "*"} {
			for _, e1 := range exc {
				for _, e2 := range exc {
					if e1 == e2 {
						continue
					}
					for _, t := range trees {
						cases = append(cases, c10Case{Tree: t, Exclude: []string{base, e1, e2}})
					}
				}
			}
		}
	}
	// the filter on top of a composite of sub-roots: lists that prune one sub-root, map functions that skip one
	{
		multi := c11MultiTree()
		mp := []string{"p", "p1", "r", "p1/a", "p/a/x", "*/y", "!p1", "r/z", "**/x", "p1/a/x"}
		for _, inc := range patternLists(2, mp) {
			for _, exc := range patternLists(1, mp) {
				cases = append(cases, c10Case{Tree: multi, Include: inc, Exclude: exc, Multi: true})
			}
		}
		for _, n := range multi {
			for _, op := range []string{"exclude", "skipdir"} {
				cases = append(cases, c10Case{Tree: multi, MapOp: op, MapPath: n.Path, Multi: true}, c10Case{Tree: multi, Include: []string{"*/a"}, MapOp: op, MapPath: n.Path, Multi: true})
			}
		}
	}
	// an empty (but present) follow list next to include and exclude lists
	for _, t := range trees {
		for _, inc := range patternLists(1, c10Patterns) {
			for _, exc := range patternLists(1, c10Patterns) {
				cases = append(cases, c10Case{Tree: t, Include: inc, Exclude: exc, FollowEmpty: true})
			}
		}
	}
	// patterns spelled with a leading separator or leading "..": they name nothing inside the tree
	odd := []string{"/a", "../a", "!/a/b", "/a/b", "a", "!a/b", "a/../b", "./a/b", "", " "}
	for _, t := range trees[:4] {
		for _, inc := range patternLists(2, odd) {
			for _, exc := range patternLists(1, odd) {
				cases = append(cases, c10Case{Tree: t, Include: inc, Exclude: exc}, c10Case{Tree: t, Include: exc, Exclude: inc})
			}
		}
	}
	// escaped metacharacters in patterns, names that contain them
	for _, inc := range patternLists(2, c10EscPatterns) {
		for _, exc := range patternLists(1, c10EscPatterns) {
			cases = append(cases, c10Case{Tree: c10EscTree(), Include: inc, Exclude: exc}, c10Case{Tree: c10EscTree(), Include: exc, Exclude: inc})
		}
	}
	// follow paths together with include lists (exceptions included): the followed paths are appended to the list
	for _, t := range trees {
		for _, fl := range [][]string{{"a/b/c"}, {"a/b"}, {"b/a"}, {"ab/c", "a/b/c"}, {"a", "a/b"}, {"nope"}} {
			for _, inc := range lists {
				cases = append(cases, c10Case{Tree: t, Include: inc, Follow: fl})
			}
			for _, exc := range patternLists(1, c10Patterns) {
				cases = append(cases, c10Case{Tree: t, Exclude: exc, Follow: fl}, c10Case{Tree: t, Include: []string{"b"}, Exclude: exc, Follow: fl})
			}
		}
	}
	// on disk (lazy stats): lists of length <=1 on both sides, every tree
	short := patternLists(1, c10Patterns)
	// one filtered FS value walked again and re-entrantly at every callback position
	for _, t := range trees {
		for _, inc := range short {
			for _, exc := range short {
				cases = append(cases, c10Case{Tree: t, Include: inc, Exclude: exc, Reuse: true})
			}
		}
		for _, disk := range []bool{false, true} {
			for _, l := range [][]string{{"a/b/c"}, {"**/c"}, {"a/b/c/b", "b/a/b"}, {"*/b", "!a/b"}} {
				cases = append(cases, c10Case{Tree: t, Include: l, Reuse: true, Disk: disk}, c10Case{Tree: t, Exclude: l, Reuse: true, Disk: disk})
			}
		}
	}
	for _, t := range trees {
		for _, inc := range short {
			for _, exc := range short {
				cases = append(cases, c10Case{Tree: t, Include: inc, Exclude: exc, Disk: true})
			}
		}
	}
	// include lists of length 3 against exclude lists of length <=1 (thorough)
	if r.Tier == "thorough" {
		l3 := patternLists(3, c10Patterns)
		for _, t := range trees[:4] {
			for _, inc := range l3 {
				if len(inc) < 3 {
					continue
				}
				for _, exc := range short {
					cases = append(cases, c10Case{Tree: t, Include: inc, Exclude: exc})
				}
			}
		}
	}
	// map functions: every single-path assignment, with pattern lists of length <=1 (quick) / <=2 (thorough)
	ml := short
	if r.Tier == "thorough" {
		ml = lists
	}
	for ti, t := range trees {
		if r.Tier != "thorough" && ti >= 4 {
			break
		}
		for _, inc := range ml {
			for _, exc := range short {
				cases = append(cases, c10Case{Tree: t, Include: inc, Exclude: exc, MapOp: "identity"})
				for _, n := range t {
					for _, op := range []string{"exclude", "skipdir", "rewrite"} {
						cases = append(cases, c10Case{Tree: t, Include: inc, Exclude: exc, MapOp: op, MapPath: n.Path})
					}
				}
			}
		}
	}
	// hard-link groups spread over kept and hidden names, on disk (the walker's inode table): every partition of the four
	// files of the first tree into groups
	for _, lab := range fsmodel.Partitions(4) {
		t := trees[0].Clone()
		fi := 0
		for i := range t {
			if t[i].Kind != fsmodel.File {
				continue
			}
			if lab[fi] > 0 {
				t[i].HL, t[i].Data, t[i].Mtime = lab[fi], fsmodel.Content(50+lab[fi], 3), fsmodel.T0+int64(50+lab[fi])
			}
			fi++
		}
		t = fixGroups(t)
		for _, l := range short {
			if l == nil {
				continue
			}
			cases = append(cases, c10Case{Tree: t, Include: l, Disk: true}, c10Case{Tree: t, Exclude: l, Disk: true})
		}
	}
	// ... and over the on-disk walker (lazy stats, its own translation of errors into SkipDir): every single-path
	// assignment with one pattern list
	for ti, t := range trees {
		if ti >= 3 {
			break
		}
		for _, l := range short {
			for _, side := range []int{0, 1} {
				inc, exc := l, []string(nil)
				if side == 1 {
					inc, exc = nil, l
					if l == nil {
						continue
					}
				}
				for _, n := range t {
					for _, op := range []string{"exclude", "skipdir", "rewrite"} {
						cases = append(cases, c10Case{Tree: t, Include: inc, Exclude: exc, MapOp: op, MapPath: n.Path, Disk: true})
					}
				}
			}
		}
	}
	r.Set("cases", len(cases))
	r.Set("pattern_lists", len(lists))
	par.Do(len(cases), par.Workers(), func(i int) {
		c := cases[i]
		key, msg := judgeC10(c)
		r.Evaluations.Add(1)
		r.Transitions.Add(int64(len(c.Tree)))
		r.StateH(evid.H(c.String()))
		if len(c.Include)+len(c.Exclude) > 0 {
			r.Nontrivial(c.String())
		}
		if i%200000 == 77 {
			r.Sample(map[string]any{"case": c.String(), "result": key})
		}
		if key != "" {
			r.Violate(key, c.String()+": "+msg, c)
		}
	})
}

func replayC10(raw json.RawMessage) string {
	var c c10Case
	if err := json.Unmarshal(raw, &c); err != nil {
		return "bad case: " + err.Error()
	}
	k, m := judgeC10(c)
	if k == "" {
		return ""
	}
	return k + ": " + m
}

// errOptMutated: NewFilterFS changed the option struct its caller handed in.
type errOptMutated struct{ what string }

func (e errOptMutated) Error() string { return "NewFilterFS rewrote its caller's options: " + e.what }

// newFilterFSReusedOpt is NewFilterFS called the way a caller that keeps and re-uses its option struct calls it: the
// lists have spare capacity (built with append), and once the view exists the caller goes on using the struct -
// every pattern is overwritten, the spare capacity is written to, the map function is replaced by one that drops
// everything. The view must have taken what it needs at construction; the caller's struct must come back unchanged.
func newFilterFSReusedOpt(under fsutil.FS, o *fsutil.FilterOpt) (fsutil.FS, error) {
	spare := func(l []string) []string {
		if l == nil {
			return nil
		}
		out := append(make([]string, 0, len(l)+8), l...)
		for i := len(l); i < cap(out); i++ {
			out[:cap(out)][i] = "spare-capacity"
		}
		return out
	}
	opt := &fsutil.FilterOpt{IncludePatterns: spare(o.IncludePatterns), ExcludePatterns: spare(o.ExcludePatterns), FollowPaths: spare(o.FollowPaths), Map: o.Map}
	v, err := fsutil.NewFilterFS(under, opt)
	if err != nil {
		return nil, err
	}
	same := func(name string, got, want []string) error {
		if len(got) != len(want) || (got == nil) != (want == nil) {
			return errOptMutated{fmt.Sprintf("%s is %q, was %q", name, got, want)}
		}
		for i := range want {
			if got[i] != want[i] {
				return errOptMutated{fmt.Sprintf("%s is %q, was %q", name, got, want)}
			}
		}
		for i := len(got); i < cap(got); i++ {
			if got[:cap(got)][i] != "spare-capacity" {
				return errOptMutated{fmt.Sprintf("%s: the caller's spare capacity holds %q", name, got[:cap(got)][i])}
			}
		}
		return nil
	}
	for _, e := range []error{same("IncludePatterns", opt.IncludePatterns, o.IncludePatterns), same("ExcludePatterns", opt.ExcludePatterns, o.ExcludePatterns), same("FollowPaths", opt.FollowPaths, o.FollowPaths)} {
		if e != nil {
			return nil, e
		}
	}
	for _, l := range [][]string{opt.IncludePatterns, opt.ExcludePatterns, opt.FollowPaths} {
		for i := range l[:cap(l)] {
			l[:cap(l)][i] = "**"
		}
	}
	opt.IncludePatterns, opt.FollowPaths = []string{"scribbled"}, []string{"scribbled"}
	opt.ExcludePatterns = []string{"**"}
	opt.Map = func(string, *types.Stat) fsutil.MapResult { return fsutil.MapResultExclude }
	return v, nil
}

// judgeC10 is judgeC10Raw with a panic of the code under test turned into a verdict (never a crash of the check).
func judgeC10(c c10Case) (k, m string) {
	defer func() {
		if r := recover(); r != nil {
			k, m = "panic", fmt.Sprintf("the code under test panicked: %v", r)
		}
	}()
	return judgeC10Raw(c)
}
