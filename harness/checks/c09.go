package checks

import (
	"context"
	"encoding/json"
	"fmt"
	gofs "io/fs"
	"os"
	"os/exec"
	"path/filepath"
	"strings"

	"github.com/tonistiigi/fsutil"
	"github.com/tonistiigi/fsutil/types"
	"verif/evid"
	"verif/fsmodel"
	"verif/memfs"
	"verif/par"
	"verif/scratch"
)

func init() {
	register("C09", runC09, replayC09)
	Children["c09dot"] = childC09dot
}

// childC09dot: chdir into the directory and walk it as "." (the working directory is per process): prints the reported
// paths as JSON.
func childC09dot(args []string) int {
	if len(args) < 1 {
		return 3
	}
	where := args[0]
	if len(args) > 1 && args[1] == "pwdlink" {
		// the shell got here through a symlink: $PWD is the logical path
		where = args[0] + ".lnk"
		os.Setenv("PWD", where)
	}
	if os.Chdir(where) != nil {
		return 3
	}
	type ent struct{ P, SP, L string }
	var out []ent
	for _, root := range []string{".", "./"} {
		d, err := fsutil.NewFS(root)
		if err != nil {
			fmt.Fprintln(os.Stderr, err)
			return 3
		}
		err = d.Walk(context.Background(), "/", func(p string, e gofs.DirEntry, err error) error {
			if err != nil {
				return err
			}
			fi, err := e.Info()
			if err != nil {
				return err
			}
			st := fi.Sys().(*types.Stat)
			out = append(out, ent{p, st.Path, st.Linkname})
			return nil
		})
		if err != nil {
			fmt.Fprintln(os.Stderr, err)
			return 3
		}
		out = append(out, ent{P: "--"})
	}
	json.NewEncoder(os.Stdout).Encode(out)
	return 0
}

type c09Case struct {
	Tree fsmodel.Tree `json:"tree"`
	Sub  []string     `json:"sub,omitempty"` // names of SubDirFS roots (each holding Tree)
}

func (c c09Case) String() string { return fmt.Sprintf("tree=%s sub=%v", c.Tree, c.Sub) }

func statDiff(got, want *types.Stat) string {
	var d []string
	if got.Path != want.Path {
		d = append(d, fmt.Sprintf("path %q want %q", got.Path, want.Path))
	}
	if got.Mode != want.Mode {
		d = append(d, fmt.Sprintf("mode %o want %o", got.Mode, want.Mode))
	}
	if got.Uid != want.Uid || got.Gid != want.Gid {
		d = append(d, fmt.Sprintf("owner %d:%d want %d:%d", got.Uid, got.Gid, want.Uid, want.Gid))
	}
	if got.ModTime != want.ModTime {
		d = append(d, fmt.Sprintf("mtime %d want %d", got.ModTime, want.ModTime))
	}
	if got.Linkname != want.Linkname {
		d = append(d, fmt.Sprintf("linkname %q want %q", got.Linkname, want.Linkname))
	}
	if got.Devmajor != want.Devmajor || got.Devminor != want.Devminor {
		d = append(d, fmt.Sprintf("dev %d,%d want %d,%d", got.Devmajor, got.Devminor, want.Devmajor, want.Devminor))
	}
	if !want.IsDir() && got.Size != want.Size {
		d = append(d, fmt.Sprintf("size %d want %d", got.Size, want.Size))
	}
	if len(got.Xattrs) != len(want.Xattrs) {
		d = append(d, fmt.Sprintf("xattrs %v want %v", got.Xattrs, want.Xattrs))
	} else {
		for k, v := range want.Xattrs {
			if string(got.Xattrs[k]) != string(v) {
				d = append(d, fmt.Sprintf("xattr %s", k))
			}
		}
	}
	return strings.Join(d, ", ")
}

type walked struct {
	path string
	stat *types.Stat
}

func collect(f func(fn gofs.WalkDirFunc) error) ([]walked, error) {
	var out []walked
	err := f(func(p string, e gofs.DirEntry, err error) error {
		if err != nil {
			return err
		}
		fi, err := e.Info()
		if err != nil {
			return err
		}
		st, ok := fi.Sys().(*types.Stat)
		if !ok {
			return fmt.Errorf("%s: no stat", p)
		}
		// asking an entry twice must give the same answer (layers on top of a walk do ask again)
		if fi2, err := e.Info(); err != nil {
			return fmt.Errorf("%s: second Info(): %w", p, err)
		} else if st2, ok := fi2.Sys().(*types.Stat); !ok || statDiff(st2, st) != "" {
			return fmt.Errorf("%s: second Info() of the same entry differs from the first: %s", p, statDiff(st2, st))
		}
		out = append(out, walked{p, st})
		return nil
	})
	return out, err
}

// scribble overwrites every field of a stat a consumer was handed; what it was handed is
// its own (a map function is documented to rewrite it), so no later walk may see this.
func scribble(st *types.Stat) {
	st.Path, st.Linkname = "scribbled/"+st.Path, "scribbled"
	st.Uid, st.Gid, st.Mode, st.Size, st.ModTime = 4242, 4242, st.Mode^0777, -1, 1
	for k := range st.Xattrs {
		st.Xattrs[k] = []byte("scribbled")
	}
}

// collectScribbling is collect for a consumer that rewrites the stats it receives.
func collectScribbling(f func(fn gofs.WalkDirFunc) error) ([]walked, error) {
	var out []walked
	err := f(func(p string, e gofs.DirEntry, err error) error {
		if err != nil {
			return err
		}
		fi, err := e.Info()
		if err != nil {
			return err
		}
		st, ok := fi.Sys().(*types.Stat)
		if !ok {
			return fmt.Errorf("%s: no stat", p)
		}
		out = append(out, walked{p, st.Clone()})
		scribble(st)
		return nil
	})
	return out, err
}

// reentrantWalks: for every callback position i of a walk of `outer`, a second complete walk of `inner` on the
// same FS value runs inside the i-th callback; both walks must still report what a lone walk reports.
func reentrantWalks(what string, fsv fsutil.FS, outer string, wantOuter []*types.Stat, inner string, wantInner []*types.Stat) (string, string) {
	ctx := context.Background()
	for i := 0; i < len(wantOuter); i++ {
		var in []walked
		var inErr error
		k := 0
		got, err := collect(func(fn gofs.WalkDirFunc) error {
			return fsv.Walk(ctx, outer, func(p string, e gofs.DirEntry, err error) error {
				if k == i {
					in, inErr = collect(func(fn2 gofs.WalkDirFunc) error { return fsv.Walk(ctx, inner, fn2) })
				}
				k++
				return fn(p, e, err)
			})
		})
		if err != nil || inErr != nil {
			return "walk-failed", fmt.Sprintf("%s: walk of %q with a walk of %q inside callback %d: %v %v", what, outer, inner, i, err, inErr)
		}
		if k, m := compareWalk(fmt.Sprintf("%s(%q) while a walk of %q ran inside its callback #%d", what, outer, inner, i), got, wantOuter); k != "" {
			return "reentrant-" + k, m
		}
		if k, m := compareWalk(fmt.Sprintf("%s(%q) run inside callback #%d of a walk of %q", what, inner, i, outer), in, wantInner); k != "" {
			return "reentrant-" + k, m
		}
	}
	return "", ""
}

// skipDirWalks: the callback answers SkipDir at entry i, for every i: a directory's contents are skipped, after a
// non-directory the rest of its directory is skipped (the contract of filepath.WalkDir), everything else is reported.
func skipDirWalks(what string, walk func(fn gofs.WalkDirFunc) error, want []*types.Stat) (string, string) {
	for i := range want {
		var exp []*types.Stat
		at := want[i]
		par := parentOf(at.Path)
		for j, st := range want {
			switch {
			case j <= i:
				exp = append(exp, st)
			case at.IsDir() && strings.HasPrefix(st.Path, at.Path+"/"):
			case !at.IsDir() && (par == "" && !strings.Contains(st.Path, "/") || par != "" && parentOf(st.Path) == par || par != "" && strings.HasPrefix(st.Path, par+"/")):
			case !at.IsDir() && par == "":
				// a non-directory at the top level: the rest of the top level (and what is below it) is skipped
			default:
				exp = append(exp, st)
			}
		}
		// entries that are skipped are never looked at: the first member of a group that IS reported is the file
		exp = rerootLinks(exp)
		k := 0
		got, err := collect(func(fn gofs.WalkDirFunc) error {
			return walk(func(p string, e gofs.DirEntry, err error) error {
				if r := fn(p, e, err); r != nil {
					return r
				}
				k++
				if k-1 == i {
					return filepath.SkipDir
				}
				return nil
			})
		})
		if err != nil {
			return "walk-failed", fmt.Sprintf("%s with SkipDir answered at %q: %v", what, at.Path, err)
		}
		if kk, m := compareWalk(fmt.Sprintf("%s with SkipDir answered at %q", what, at.Path), got, exp); kk != "" {
			return "skipdir-" + kk, m
		}
	}
	return "", ""
}

// compareWalk checks a callback sequence against the expected stats.
func compareWalk(what string, got []walked, want []*types.Stat) (string, string) {
	for i := 1; i < len(got); i++ {
		if fsmodel.ComparePaths(got[i-1].path, got[i].path) >= 0 {
			return "order", fmt.Sprintf("%s: %q reported before %q", what, got[i-1].path, got[i].path)
		}
		if fsutil.ComparePath(got[i-1].path, got[i].path) >= 0 {
			return "order-protocol", fmt.Sprintf("%s: %q then %q is not ascending under ComparePath", what, got[i-1].path, got[i].path)
		}
	}
	for i := 0; i < len(got) || i < len(want); i++ {
		switch {
		case i >= len(want):
			return "extra-entry", fmt.Sprintf("%s: extra entry %q", what, got[i].path)
		case i >= len(got):
			return "missing-entry", fmt.Sprintf("%s: entry %q not reported", what, want[i].Path)
		case got[i].path != want[i].Path:
			if got[i].path == "" || got[i].path == "." {
				return "root-reported", what + ": the root itself was reported"
			}
			return "wrong-entry", fmt.Sprintf("%s: position %d is %q, expected %q", what, i, got[i].path, want[i].Path)
		}
		if d := statDiff(got[i].stat, want[i]); d != "" {
			key := "stat"
			if strings.Contains(d, "linkname") {
				key = "stat-linkname"
			}
			return key, fmt.Sprintf("%s: %s: %s", what, got[i].path, d)
		}
	}
	return "", ""
}

func judgeC09Raw(c c09Case) (string, string) {
	dir := scratch.Dir("walk")
	defer scratch.Remove(dir)
	if err := fsmodel.Materialize(c.Tree, dir); err != nil {
		return "infra", err.Error()
	}
	snap, err := fsmodel.Snapshot(dir)
	if err != nil {
		return "infra", err.Error()
	}
	want := memfs.Stats(snap)
	ctx := context.Background()
	if len(c.Sub) == 0 {
		// package-level Walk / WalkDir
		var got []walked
		err := fsutil.Walk(ctx, dir, nil, func(p string, fi os.FileInfo, err error) error {
			if err != nil {
				return err
			}
			got = append(got, walked{p, fi.Sys().(*types.Stat)})
			return nil
		})
		if err != nil {
			return "walk-failed", err.Error()
		}
		if k, m := compareWalk("Walk", got, want); k != "" {
			return k, m
		}
		got, err = collect(func(fn gofs.WalkDirFunc) error { return fsutil.WalkDir(ctx, dir, nil, fn) })
		if err != nil {
			return "walk-failed", err.Error()
		}
		if k, m := compareWalk("WalkDir", got, want); k != "" {
			return k, m
		}
		// the same directory reached through a symlink as the last path component
		lnk := dir + ".lnk"
		os.Remove(lnk)
		if err := os.Symlink(dir, lnk); err == nil {
			defer os.Remove(lnk)
			got, err = collect(func(fn gofs.WalkDirFunc) error { return fsutil.WalkDir(ctx, lnk, nil, fn) })
			if err != nil {
				return "walk-failed", "through a symlinked root: " + err.Error()
			}
			if k, m := compareWalk("WalkDir(symlink to the root)", got, want); k != "" {
				return "symlinked-root-" + k, m
			}
		}
		// a filter that hides one name of a hard-link group: the first REPORTED member is the file
		for _, n := range snap {
			if n.HL == 0 {
				continue
			}
			got, err = collect(func(fn gofs.WalkDirFunc) error {
				return fsutil.WalkDir(ctx, dir, &fsutil.FilterOpt{ExcludePatterns: []string{n.Path}}, fn)
			})
			if err != nil {
				return "walk-failed", "filtered: " + err.Error()
			}
			var rest []*types.Stat
			for _, st := range want {
				if st.Path != n.Path {
					rest = append(rest, st)
				}
			}
			if k, m := compareWalk(fmt.Sprintf("WalkDir(exclude %q)", n.Path), got, rerootLinks(rest)); k != "" {
				return "filtered-" + k, m
			}
		}
		// FS.Walk of the root and of every sub-target
		fs, err := fsutil.NewFS(dir)
		if err != nil {
			return "infra", err.Error()
		}
		for _, root := range append([]string{"/", ""}, snap.Paths()...) {
			got, err := collect(func(fn gofs.WalkDirFunc) error { return fs.Walk(ctx, root, fn) })
			if err != nil {
				return "walk-failed", fmt.Sprintf("target %q: %v", root, err)
			}
			var sub []*types.Stat
			if root == "/" || root == "" {
				sub = want
			} else {
				// hard-link names are relative to this walk: recompute on the sub-listing
				sub = memfs.Stats(snap.Under(root))
			}
			if k, m := compareWalk(fmt.Sprintf("FS.Walk(%q)", root), got, sub); k != "" {
				return k, m
			}
		}
		// the same FS value again, after a consumer that rewrote every stat it was handed
		if _, err := collectScribbling(func(fn gofs.WalkDirFunc) error { return fs.Walk(ctx, "/", fn) }); err != nil {
			return "walk-failed", err.Error()
		}
		got, err = collect(func(fn gofs.WalkDirFunc) error { return fs.Walk(ctx, "/", fn) })
		if err != nil {
			return "walk-failed", err.Error()
		}
		if k, m := compareWalk("FS.Walk after a consumer rewrote the stats of an earlier walk", got, want); k != "" {
			return "history-" + k, m
		}
		if len(snap) <= 12 {
			if k, m := skipDirWalks("FS.Walk", func(fn gofs.WalkDirFunc) error { return fs.Walk(ctx, "/", fn) }, want); k != "" {
				return k, m
			}
		}
		// two walks of one FS value that overlap: at every callback position; inner walk of the root, and for
		// trees with hard links of every directory as well
		inner := []string{"/"}
		hasHL := false
		for _, n := range snap {
			hasHL = hasHL || n.HL != 0
		}
		if hasHL {
			for _, n := range snap {
				if n.Kind == fsmodel.Dir {
					inner = append(inner, n.Path)
				}
			}
		}
		if len(snap) <= 12 {
			for _, in := range inner {
				wantIn := want
				if in != "/" {
					wantIn = memfs.Stats(snap.Under(in))
				}
				if k, m := reentrantWalks("FS.Walk", fs, "/", want, in, wantIn); k != "" {
					return k, m
				}
			}
		}
		// the same directory walked as "." from inside it (send . / walk . in a checkout): only for trees with a top-level
		// name that begins with a dot, one process per case (the working directory is per process)
		dotTop := false
		for _, n := range snap {
			dotTop = dotTop || (strings.HasPrefix(n.Path, ".") && !strings.Contains(n.Path, "/"))
		}
		for _, how := range []string{"", "pwdlink"} {
			if !dotTop {
				break
			}
			if how == "pwdlink" {
				os.Remove(dir + ".lnk")
				if os.Symlink(filepath.Base(dir), dir+".lnk") != nil {
					break
				}
				defer os.Remove(dir + ".lnk")
			}
			self, _ := os.Executable()
			cmd := exec.Command(self, "child", "c09dot", dir, how)
			var stderr strings.Builder
			cmd.Stderr = &stderr
			b, err := cmd.Output()
			if err != nil {
				return "walk-failed", fmt.Sprintf("walking the directory as \".\" from inside it: %v %s", err, firstLine(stderr.String()))
			}
			var ents []struct{ P, SP, L string }
			if json.Unmarshal(b, &ents) != nil {
				return "infra", "bad child output"
			}
			i := 0
			for _, e := range ents {
				if e.P == "--" {
					if i != len(want) {
						return "dot-root-missing-entry", fmt.Sprintf("walked as \".\": %d entries, walked by its absolute path: %d", i, len(want))
					}
					i = 0
					continue
				}
				if i >= len(want) || e.P != want[i].Path || e.SP != want[i].Path || e.L != want[i].Linkname {
					w := "nothing"
					if i < len(want) {
						w = want[i].Path + " -> " + want[i].Linkname
					}
					return "dot-root-differs", fmt.Sprintf("walked as \".\" entry #%d is %q (stat path %q, link %q); walked by its absolute path it is %s", i, e.P, e.SP, e.L, w)
				}
				i++
			}
		}
		// the caller cancels while the walk is inside the lstat of entry k (where a walk spends its time): the walk then
		// fails with the context's error, or it had already reported everything - never success with a listing cut short
		if len(snap) <= 12 {
			for k := range snap {
				cctx, cancel := context.WithCancel(ctx)
				hooked := &infoHookFS{FS: fs, at: k, hook: cancel}
				ffs, err := fsutil.NewFilterFS(hooked, &fsutil.FilterOpt{ExcludePatterns: []string{"no-such-name-anywhere"}})
				if err != nil {
					cancel()
					return "infra", err.Error()
				}
				got, werr := collect(func(fn gofs.WalkDirFunc) error { return ffs.Walk(cctx, "/", fn) })
				cancel()
				if werr == nil && len(got) != len(want) {
					return "cancelled-walk-truncated", fmt.Sprintf("the context was cancelled during the lstat of entry #%d (%s): the filtered walk returned nil after reporting %d of %d entries", k, snap[k].Path, len(got), len(want))
				}
			}
		}
		// a file gets its second name while the walk is under way: the consumer, handed the file, links it into a
		// directory that is reported later. The later name shares an inode with an entry already reported, so it
		// is a link naming it. (Last part of the case: it changes directory times.)
		if len(snap) <= 12 {
			for _, f := range snap {
				if f.Kind != fsmodel.File || f.HL != 0 {
					continue
				}
				for _, d := range snap {
					if d.Kind != fsmodel.Dir || fsmodel.ComparePaths(d.Path, f.Path) < 0 {
						continue
					}
					added := filepath.Join(dir, d.Path, "zz.late")
					var lerr error
					got, err := collect(func(fn gofs.WalkDirFunc) error {
						return fs.Walk(ctx, "/", func(p string, e gofs.DirEntry, err error) error {
							if rerr := fn(p, e, err); rerr != nil {
								return rerr
							}
							if p == f.Path {
								lerr = os.Link(filepath.Join(dir, f.Path), added)
							}
							return nil
						})
					})
					after, serr := fsmodel.Snapshot(dir)
					os.Remove(added)
					if lerr != nil || serr != nil {
						return "infra", fmt.Sprintf("late link: %v %v", lerr, serr)
					}
					what := fmt.Sprintf("FS.Walk during which %q got a second name %q", f.Path, d.Path+"/zz.late")
					if err != nil {
						return "walk-failed", what + ": " + err.Error()
					}
					if k, m := compareWalk(what, got, memfs.Stats(after)); k != "" {
						return "late-link-" + k, m
					}
				}
			}
		}
		return "", ""
	}
	// composite FS of named sub-roots, each over the same directory
	fs, err := fsutil.NewFS(dir)
	if err != nil {
		return "infra", err.Error()
	}
	var dirs []fsutil.Dir
	for i := len(c.Sub) - 1; i >= 0; i-- { // deliberately handed over in descending order
		dirs = append(dirs, fsutil.Dir{Stat: &types.Stat{Path: c.Sub[i], Mode: uint32(os.ModeDir | 0755), ModTime: 12345}, FS: fs})
	}
	sfs, err := fsutil.SubDirFS(dirs)
	if err != nil {
		return "subdirfs-failed", err.Error()
	}
	names := append([]string{}, c.Sub...)
	sortStrings(names)
	var wantSub []*types.Stat
	for _, name := range names {
		wantSub = append(wantSub, &types.Stat{Path: name, Mode: uint32(os.ModeDir | 0755), ModTime: 12345})
		for _, st := range memfs.Stats(snap) {
			st = st.Clone()
			isSym := os.FileMode(st.Mode)&os.ModeSymlink != 0
			if st.Linkname != "" {
				if isSym {
					if strings.HasPrefix(st.Linkname, "/") {
						st.Linkname = "/" + name + st.Linkname
					}
				} else {
					st.Linkname = name + "/" + st.Linkname
				}
			}
			st.Path = name + "/" + st.Path
			wantSub = append(wantSub, st)
		}
	}
	got, err := collect(func(fn gofs.WalkDirFunc) error { return sfs.Walk(ctx, "/", fn) })
	if err != nil {
		return "walk-failed", err.Error()
	}
	if k, m := compareWalk("SubDirFS.Walk", got, wantSub); k != "" {
		return "subdir-" + k, m
	}
	// a consumer that rewrites what it is handed (directly, and as the Map function of a filter on top), then
	// the composite again: neither the next walk nor the caller's own Dir values may have changed
	if _, err := collectScribbling(func(fn gofs.WalkDirFunc) error { return sfs.Walk(ctx, "/", fn) }); err != nil {
		return "walk-failed", err.Error()
	}
	mfs, err := fsutil.NewFilterFS(sfs, &fsutil.FilterOpt{Map: func(p string, st *types.Stat) fsutil.MapResult {
		st.Uid, st.Gid, st.Mode = 4242, 4242, st.Mode&^0777|0700
		return fsutil.MapResultKeep
	}})
	if err != nil {
		return "infra", err.Error()
	}
	if _, err := collect(func(fn gofs.WalkDirFunc) error { return mfs.Walk(ctx, "/", fn) }); err != nil {
		return "walk-failed", "mapped: " + err.Error()
	}
	got, err = collect(func(fn gofs.WalkDirFunc) error { return sfs.Walk(ctx, "/", fn) })
	if err != nil {
		return "walk-failed", err.Error()
	}
	if k, m := compareWalk("SubDirFS.Walk after consumers rewrote the stats of earlier walks", got, wantSub); k != "" {
		return "subdir-history-" + k, m
	}
	for _, d := range dirs {
		if d.Stat.Uid != 0 || d.Stat.Gid != 0 || d.Stat.Mode != uint32(os.ModeDir|0755) || d.Stat.ModTime != 12345 || strings.Contains(d.Stat.Path, "/") {
			return "subdir-history-caller-stat", fmt.Sprintf("the Dir.Stat the caller passed for %q was modified by walking: %v", d.Stat.Path, d.Stat)
		}
	}
	// the composite as a sub-root of another composite, walked twice
	outer, err := fsutil.SubDirFS([]fsutil.Dir{{Stat: &types.Stat{Path: "o", Mode: uint32(os.ModeDir | 0711), ModTime: 777}, FS: sfs}})
	if err != nil {
		return "subdirfs-failed", err.Error()
	}
	wantOuter := []*types.Stat{{Path: "o", Mode: uint32(os.ModeDir | 0711), ModTime: 777}}
	for _, st := range wantSub {
		st = st.Clone()
		if st.Linkname != "" {
			if os.FileMode(st.Mode)&os.ModeSymlink != 0 {
				if strings.HasPrefix(st.Linkname, "/") {
					st.Linkname = "/o" + st.Linkname
				}
			} else {
				st.Linkname = "o/" + st.Linkname
			}
		}
		st.Path = "o/" + st.Path
		wantOuter = append(wantOuter, st)
	}
	for round := 1; round <= 2; round++ {
		got, err = collect(func(fn gofs.WalkDirFunc) error { return outer.Walk(ctx, "/", fn) })
		if err != nil {
			return "walk-failed", "nested composite: " + err.Error()
		}
		if k, m := compareWalk(fmt.Sprintf("SubDirFS(SubDirFS).Walk, walk %d", round), got, wantOuter); k != "" {
			return "subdir-nested-" + k, m
		}
	}
	got, err = collect(func(fn gofs.WalkDirFunc) error { return sfs.Walk(ctx, "/", fn) })
	if err != nil {
		return "walk-failed", err.Error()
	}
	if k, m := compareWalk("SubDirFS.Walk after it was walked as a sub-root", got, wantSub); k != "" {
		return "subdir-history-" + k, m
	}
	if len(wantSub) <= 24 {
		if k, m := reentrantWalks("SubDirFS.Walk", sfs, "/", wantSub, "/", wantSub); k != "" {
			return "subdir-" + k, m
		}
		if k, m := skipDirWalks("SubDirFS.Walk", func(fn gofs.WalkDirFunc) error { return sfs.Walk(ctx, "/", fn) }, wantSub); k != "" {
			return "subdir-" + k, m
		}
	}
	return "", ""
}

func sortStrings(s []string) {
	for i := range s {
		for j := i + 1; j < len(s); j++ {
			if fsmodel.ComparePaths(s[j], s[i]) < 0 {
				s[i], s[j] = s[j], s[i]
			}
		}
	}
}

func c09Cases(tier string) []c09Case {
	var out []c09Case
	names := []string{"a", "a-b", "a b", "a.", "a0", "ab", "é", "b"}
	maxSub := 4
	if tier == "thorough" {
		maxSub = 6
	}
	// each chosen name: file / empty dir / dir with child b / dir with children a-b, b
	mk := func(name string, k int, idx int) fsmodel.Tree {
		mt := fsmodel.T0 + int64(idx*10)
		switch k {
		case 0:
			return fsmodel.Tree{{Path: name, Kind: fsmodel.File, Perm: 0644, Mtime: mt, Data: fsmodel.Content(idx, 3)}}
		case 1:
			return fsmodel.Tree{{Path: name, Kind: fsmodel.Dir, Perm: 0755, Mtime: mt}}
		case 2:
			return fsmodel.Tree{{Path: name, Kind: fsmodel.Dir, Perm: 0755, Mtime: mt}, {Path: name + "/b", Kind: fsmodel.File, Perm: 0600, Mtime: mt + 1, Data: fsmodel.Content(idx+1, 2)}}
		default:
			return fsmodel.Tree{{Path: name, Kind: fsmodel.Dir, Perm: 0755, Mtime: mt},
				{Path: name + "/a-b", Kind: fsmodel.File, Perm: 0600, Mtime: mt + 1, Data: fsmodel.Content(idx+1, 2)},
				{Path: name + "/b", Kind: fsmodel.Dir, Perm: 0700, Mtime: mt + 2}}
		}
	}
	var rec func(i int, chosen int, cur fsmodel.Tree)
	rec = func(i int, chosen int, cur fsmodel.Tree) {
		if i == len(names) {
			t := cur.Clone()
			t.Sort()
			out = append(out, c09Case{Tree: t})
			return
		}
		rec(i+1, chosen, cur)
		if chosen >= maxSub {
			return
		}
		for k := 0; k < 4; k++ {
			rec(i+1, chosen+1, append(cur.Clone(), mk(names[i], k, i)...))
		}
	}
	rec(0, 0, nil)
	// every entry type at one path, top level and nested
	for _, where := range []string{"x", "d/x"} {
		for _, n := range fsmodel.AttrVariants(where) {
			t := fsmodel.Tree{n}
			if where == "d/x" {
				t = append(t, fsmodel.Node{Path: "d", Kind: fsmodel.Dir, Perm: 0755, Mtime: fsmodel.T0})
			}
			t.Sort()
			out = append(out, c09Case{Tree: t})
		}
	}
	// hard-link layouts: all partitions of 4 (thorough: 5) files over two directories
	files := []string{"a", "d/x", "d/y", "z"}
	if tier == "thorough" {
		files = []string{"a", "d/x", "d/y", "e/x", "z"}
	}
	for _, lab := range fsmodel.Partitions(len(files)) {
		t := fsmodel.Tree{{Path: "d", Kind: fsmodel.Dir, Perm: 0755, Mtime: fsmodel.T0}, {Path: "e", Kind: fsmodel.Dir, Perm: 0755, Mtime: fsmodel.T0}}
		for i, p := range files {
			seed := 10 + i
			if lab[i] > 0 {
				seed = 50 + lab[i]
			}
			n := fsmodel.Node{Path: p, Kind: fsmodel.File, Perm: 0644, Mtime: fsmodel.T0 + int64(seed), Data: fsmodel.Content(seed, 4), HL: lab[i]}
			if lab[i] > 0 {
				// the inode's attributes are reported for every one of its names
				n.Xattrs = map[string]string{"user.group": fmt.Sprint(lab[i]), "trusted.t": "x"}
			}
			t = append(t, n)
		}
		t.Sort()
		out = append(out, c09Case{Tree: t})
		out = append(out, c09Case{Tree: t, Sub: []string{"s1"}})
		out = append(out, c09Case{Tree: t, Sub: []string{"s", "s-1", "s0"}})
		// sub-roots named like directories of the tree they hold
		out = append(out, c09Case{Tree: t, Sub: []string{"d"}}, c09Case{Tree: t, Sub: []string{"d", "e"}})
		// the same layouts with symlink inodes and with fifos that have several names
		for _, kind := range []fsmodel.Kind{fsmodel.Symlink, fsmodel.Fifo} {
			tk := t.Clone()
			for i := range tk {
				if tk[i].Kind == fsmodel.File {
					tk[i].Kind, tk[i].Data = kind, nil
					if tk[i].Xattrs != nil {
						tk[i].Xattrs = map[string]string{"trusted.t": "x"} // user.* is for regular files and directories only
					}
					if kind == fsmodel.Symlink {
						tk[i].Perm, tk[i].Link = 0777, fmt.Sprintf("../t%d", tk[i].Mtime-fsmodel.T0)
					}
				}
			}
			out = append(out, c09Case{Tree: tk}, c09Case{Tree: tk, Sub: []string{"s1"}})
		}
	}
	// names that begin with dots without being "." or ".."
	dots := fsmodel.Tree{{Path: "..data", Kind: fsmodel.Dir, Perm: 0755, Mtime: fsmodel.T0}, {Path: "..data/x", Kind: fsmodel.File, Perm: 0644, Mtime: fsmodel.T0 + 1, Data: []byte("x")},
		{Path: "...", Kind: fsmodel.File, Perm: 0644, Mtime: fsmodel.T0 + 2, Data: []byte("d")}, {Path: ".hidden", Kind: fsmodel.Dir, Perm: 0755, Mtime: fsmodel.T0 + 3},
		{Path: ".hidden/..y", Kind: fsmodel.File, Perm: 0644, Mtime: fsmodel.T0 + 4, Data: []byte("y")}, {Path: "a", Kind: fsmodel.Dir, Perm: 0755, Mtime: fsmodel.T0 + 5},
		{Path: "a/..b", Kind: fsmodel.Symlink, Perm: 0777, Mtime: fsmodel.T0 + 6, Link: "../..data"}}
	dots.Sort()
	out = append(out, c09Case{Tree: dots}, c09Case{Tree: dots, Sub: []string{"s1"}}, c09Case{Tree: dots, Sub: []string{"..s", ".t"}})
	// long names, deep chain, absolute symlinks inside sub-roots
	long := strings.Repeat("L", 255)
	deep := fsmodel.Tree{}
	p := ""
	for i := 0; i < 6; i++ {
		if p != "" {
			p += "/"
		}
		p += fmt.Sprintf("d%d", i)
		deep = append(deep, fsmodel.Node{Path: p, Kind: fsmodel.Dir, Perm: 0755, Mtime: fsmodel.T0 + int64(i)})
	}
	deep = append(deep, fsmodel.Node{Path: p + "/" + long, Kind: fsmodel.File, Perm: 0644, Mtime: fsmodel.T0, Data: []byte("x")})
	deep = append(deep, fsmodel.Node{Path: long, Kind: fsmodel.Symlink, Perm: 0777, Mtime: fsmodel.T0, Link: "/abs/" + long})
	deep = append(deep, fsmodel.Node{Path: "rel", Kind: fsmodel.Symlink, Perm: 0777, Mtime: fsmodel.T0, Link: "../rel/target"})
	deep.Sort()
	out = append(out, c09Case{Tree: deep}, c09Case{Tree: deep, Sub: []string{"s1"}}, c09Case{Tree: deep, Sub: []string{"b", "a-b", "a"}})
	out = append(out, c09Case{Tree: nil}, c09Case{Tree: nil, Sub: []string{"only"}})
	return out
}

func runC09(r *evid.Run) {
	r.Technique = "bounded-exhaustive enumeration of trees (all subsets of <=3/5 of 8 names around '/' x 4 shapes each, every entry type and attribute at one path, all hard-link partitions, deep/long names, composite sub-roots); real Walk/WalkDir/FS.Walk(target)/SubDirFS.Walk vs an independent lstat listing sorted component-wise"
	r.Rule = "one evaluation = one tree walked through every entry point and every sub-target; non-trivial = trees with >=2 entries; states = distinct trees"
	r.Assume = []string{"runs as root on tmpfs"}
	cases := c09Cases(r.Tier)
	r.Set("cases", len(cases))
	par.Do(len(cases), par.Workers(), func(i int) {
		c := cases[i]
		key, msg := judgeC09(c)
		r.Evaluations.Add(1)
		r.Transitions.Add(int64(len(c.Tree) + 3))
		r.State(c.String())
		if len(c.Tree) >= 2 {
			r.Nontrivial(c.String())
		}
		if i%3000 == 11 {
			r.Sample(map[string]any{"tree": c.Tree.Strings(), "subroots": c.Sub, "result": key})
		}
		if key != "" {
			r.Violate(key, c.String()+": "+msg, c)
		}
	})
}

func replayC09(raw json.RawMessage) string {
	var c c09Case
	if err := json.Unmarshal(raw, &c); err != nil {
		return "bad case: " + err.Error()
	}
	k, m := judgeC09(c)
	if k == "" {
		return ""
	}
	return k + ": " + m
}

// judgeC09 is judgeC09Raw with a panic of the code under test turned into a verdict (never a crash of the check).
func judgeC09(c c09Case) (k, m string) {
	defer func() {
		if r := recover(); r != nil {
			k, m = "panic", fmt.Sprintf("the code under test panicked: %v", r)
		}
	}()
	return judgeC09Raw(c)
}

// infoHookFS runs hook when the Info() of the at-th entry of a walk is asked for (before delegating).
type infoHookFS struct {
	fsutil.FS
	at   int
	hook func()
}

type hookedEntry struct {
	gofs.DirEntry
	hook func()
}

func (h hookedEntry) Info() (gofs.FileInfo, error) {
	if h.hook != nil {
		h.hook()
	}
	return h.DirEntry.Info()
}

func (f *infoHookFS) Walk(ctx context.Context, target string, fn gofs.WalkDirFunc) error {
	i := 0
	return f.FS.Walk(ctx, target, func(p string, e gofs.DirEntry, err error) error {
		if err == nil && e != nil {
			if i == f.at {
				e = hookedEntry{e, f.hook}
			}
			i++
		}
		return fn(p, e, err)
	})
}
