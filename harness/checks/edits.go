package checks

import (
	"fmt"
	"strings"

	"verif/fsmodel"
)

// Edit is one source mutation between two syncs.
type Edit struct {
	Name string `json:"name"`
	Path string `json:"path"`
}

func (e Edit) String() string { return e.Name + "@" + e.Path }

func hasChildren(t fsmodel.Tree, p string) bool {
	for _, n := range t {
		if strings.HasPrefix(n.Path, p+"/") {
			return true
		}
	}
	return false
}

func removeSub(t fsmodel.Tree, p string) fsmodel.Tree {
	var o fsmodel.Tree
	for _, n := range t {
		if n.Path == p || strings.HasPrefix(n.Path, p+"/") {
			continue
		}
		o = append(o, n)
	}
	return o
}

// fixGroups dissolves hard-link groups that have a single member left.
func fixGroups(t fsmodel.Tree) fsmodel.Tree {
	cnt := map[int]int{}
	for _, n := range t {
		if n.HL > 0 {
			cnt[n.HL]++
		}
	}
	for i := range t {
		if t[i].HL > 0 && cnt[t[i].HL] < 2 {
			t[i].HL = 0
		}
	}
	return t
}

// applyEdit returns the edited tree, or nil if the edit does not apply at path.
func applyEdit(t fsmodel.Tree, e Edit) fsmodel.Tree {
	t = t.Clone()
	n := t.Find(e.Path)
	parentOK := func(p string) bool {
		if i := strings.LastIndexByte(p, '/'); i >= 0 {
			pn := t.Find(p[:i])
			return pn != nil && pn.Kind == fsmodel.Dir
		}
		return true
	}
	setGroup := func(hl int, f func(m *fsmodel.Node)) {
		for i := range t {
			if t[i].HL == hl && hl > 0 || &t[i] == n {
				f(&t[i])
			}
		}
	}
	switch e.Name {
	case "rewrite-same-size":
		if n == nil || n.Kind != fsmodel.File {
			return nil
		}
		setGroup(n.HL, func(m *fsmodel.Node) { m.Data = fsmodel.Content(int(m.Mtime%997)+500, len(m.Data)); m.Mtime += 1000 })
	case "rewrite-other-size":
		if n == nil || n.Kind != fsmodel.File {
			return nil
		}
		setGroup(n.HL, func(m *fsmodel.Node) { m.Data = fsmodel.Content(int(m.Mtime%997)+600, len(m.Data)+3); m.Mtime += 1000 })
	case "rewrite-big":
		if n == nil || n.Kind != fsmodel.File {
			return nil
		}
		setGroup(n.HL, func(m *fsmodel.Node) { m.Data = fsmodel.Content(int(m.Mtime%997)+700, 70000); m.Mtime += 1000 })
	case "touch":
		if n == nil {
			return nil
		}
		setGroup(n.HL, func(m *fsmodel.Node) { m.Mtime += 1 })
	case "chmod":
		if n == nil || n.Kind == fsmodel.Symlink {
			return nil
		}
		setGroup(n.HL, func(m *fsmodel.Node) { m.Perm ^= 0011 })
	case "flip-xattr":
		// extended attributes are not part of an entry's identity: changing only them asks for nothing
		if n == nil || (n.Kind != fsmodel.File && n.Kind != fsmodel.Dir) {
			return nil
		}
		setGroup(n.HL, func(m *fsmodel.Node) {
			if len(m.Xattrs) > 0 {
				m.Xattrs = nil
			} else {
				m.Xattrs = map[string]string{"user.edit": "1"}
			}
		})
	case "chmod-suid":
		if n == nil || n.Kind != fsmodel.File {
			return nil
		}
		setGroup(n.HL, func(m *fsmodel.Node) { m.Perm ^= 04000 })
	case "chown":
		if n == nil {
			return nil
		}
		setGroup(n.HL, func(m *fsmodel.Node) { m.UID += 7 })
	case "chgrp":
		if n == nil {
			return nil
		}
		setGroup(n.HL, func(m *fsmodel.Node) { m.GID += 9 })
	case "delete":
		if n == nil {
			return nil
		}
		t = removeSub(t, e.Path)
	case "delete-with-prefix-siblings":
		// a directory goes away together with the neighbours whose names merely start with its name
		if n == nil || n.Kind != fsmodel.Dir {
			return nil
		}
		found := false
		for _, m := range t.Clone() {
			if m.Path != e.Path && parentOf(m.Path) == parentOf(e.Path) && strings.HasPrefix(m.Path, e.Path) {
				t = removeSub(t, m.Path)
				found = true
			}
		}
		if !found {
			return nil
		}
		t = removeSub(t, e.Path)
	case "unlink-rewrite":
		// editor-style replacement of one name of a hard-link group: own inode, new bytes
		if n == nil || n.HL == 0 {
			return nil
		}
		n.HL, n.Data, n.Mtime = 0, fsmodel.Content(int(n.Mtime%997)+800, len(n.Data)+2), n.Mtime+1000
	case "add-file":
		if n != nil || !parentOK(e.Path) {
			return nil
		}
		t = append(t, fsmodel.Node{Path: e.Path, Kind: fsmodel.File, Perm: 0640, Mtime: fsmodel.T0 + 777, Data: fsmodel.Content(88, 11)})
	case "add-dir":
		if n != nil || !parentOK(e.Path) {
			return nil
		}
		t = append(t, fsmodel.Node{Path: e.Path, Kind: fsmodel.Dir, Perm: 0750, Mtime: fsmodel.T0 + 778})
	case "rename":
		if n == nil || n.Kind == fsmodel.Dir {
			return nil
		}
		np := e.Path + "~"
		if t.Find(np) != nil {
			return nil
		}
		n.Path = np
	case "to-dir":
		if n == nil || n.Kind == fsmodel.Dir {
			return nil
		}
		hl := n.HL
		*n = fsmodel.Node{Path: e.Path, Kind: fsmodel.Dir, Perm: 0755, Mtime: fsmodel.T0 + 779}
		_ = hl
		t = append(t, fsmodel.Node{Path: e.Path + "/in", Kind: fsmodel.File, Perm: 0644, Mtime: fsmodel.T0 + 780, Data: fsmodel.Content(89, 4)})
	case "to-file":
		if n == nil || n.Kind == fsmodel.File {
			return nil
		}
		t = removeSub(t, e.Path)
		t = append(t, fsmodel.Node{Path: e.Path, Kind: fsmodel.File, Perm: 0644, Mtime: fsmodel.T0 + 781, Data: fsmodel.Content(90, 6)})
	case "to-symlink":
		if n == nil || n.Kind == fsmodel.Symlink {
			return nil
		}
		t = removeSub(t, e.Path)
		t = append(t, fsmodel.Node{Path: e.Path, Kind: fsmodel.Symlink, Perm: 0777, Mtime: fsmodel.T0 + 782, Link: "somewhere"})
	case "to-symlink-sibling":
		// replace a directory by a symlink to another directory that has entries of the same names
		if n == nil || n.Kind != fsmodel.Dir {
			return nil
		}
		target := ""
		for _, m := range t {
			if m.Kind == fsmodel.Dir && m.Path != e.Path && parentOf(m.Path) == parentOf(e.Path) && !strings.HasPrefix(m.Path, e.Path+"/") {
				same := false
				for _, c := range t {
					if parentOf(c.Path) == e.Path && t.Find(m.Path+"/"+c.Path[len(e.Path)+1:]) != nil {
						same = true
					}
				}
				if same {
					target = m.Path
				}
			}
		}
		if target == "" {
			return nil
		}
		t = removeSub(t, e.Path)
		rel := target[strings.LastIndexByte(target, '/')+1:]
		t = append(t, fsmodel.Node{Path: e.Path, Kind: fsmodel.Symlink, Perm: 0777, Mtime: fsmodel.T0 + 784, Link: rel})
	case "retarget":
		if n == nil || n.Kind != fsmodel.Symlink {
			return nil
		}
		n.Link += "2"
	case "retarget-same-len":
		if n == nil || n.Kind != fsmodel.Symlink || len(n.Link) == 0 {
			return nil
		}
		b := []byte(n.Link)
		b[len(b)-1] ^= 1
		n.Link = string(b)
	case "link-to-prev":
		// make this file a hard link of the previous regular file in path order
		if n == nil || n.Kind != fsmodel.File || n.HL != 0 {
			return nil
		}
		t.Sort()
		n = t.Find(e.Path)
		var prev *fsmodel.Node
		for i := range t {
			if t[i].Path == e.Path {
				break
			}
			if t[i].Kind == fsmodel.File {
				prev = &t[i]
			}
		}
		if prev == nil {
			return nil
		}
		if prev.HL == 0 {
			max := 0
			for _, m := range t {
				if m.HL > max {
					max = m.HL
				}
			}
			prev.HL = max + 1
		}
		n.HL, n.Data, n.Mtime, n.Perm, n.UID, n.GID, n.Xattrs = prev.HL, prev.Data, prev.Mtime, prev.Perm, prev.UID, prev.GID, prev.Xattrs
	case "unlink":
		// break this member out of its group: own inode, same bytes
		if n == nil || n.HL == 0 {
			return nil
		}
		n.HL = 0
	case "renumber":
		if n == nil || (n.Kind != fsmodel.Char && n.Kind != fsmodel.Block) {
			return nil
		}
		n.Minor++
	case "to-fifo":
		if n == nil || n.Kind == fsmodel.Fifo || n.Kind == fsmodel.Dir {
			return nil
		}
		*n = fsmodel.Node{Path: e.Path, Kind: fsmodel.Fifo, Perm: 0600, Mtime: fsmodel.T0 + 783}
	default:
		panic("unknown edit " + e.Name)
	}
	t = fixGroups(t)
	t.Sort()
	if !t.Valid() {
		return nil
	}
	return t
}

var editNames = []string{"rewrite-same-size", "rewrite-other-size", "rewrite-big", "touch", "chmod", "chmod-suid", "chown", "chgrp", "delete",
	"add-file", "add-dir", "rename", "to-dir", "to-file", "to-symlink", "to-symlink-sibling", "retarget", "retarget-same-len", "link-to-prev", "unlink", "renumber", "to-fifo", "delete-with-prefix-siblings", "unlink-rewrite", "flip-xattr"}

// allEdits lists every edit applicable to the tree (at existing paths, and at
// a few free names for additions).
func allEdits(t fsmodel.Tree) []Edit {
	var out []Edit
	paths := t.Paths()
	free := []string{"new", "a-new", "0"}
	for _, n := range t {
		if n.Kind == fsmodel.Dir {
			free = append(free, n.Path+"/new", n.Path+"/-")
		}
	}
	for _, name := range editNames {
		cand := paths
		if strings.HasPrefix(name, "add-") {
			cand = free
		}
		for _, p := range cand {
			e := Edit{name, p}
			if applyEdit(t, e) != nil {
				out = append(out, e)
			}
		}
	}
	return out
}

// baseTrees are the starting points of the edit histories.
func baseTrees() []fsmodel.Tree {
	T := fsmodel.T0
	f := func(p string, seed, size int, mt int64) fsmodel.Node {
		return fsmodel.Node{Path: p, Kind: fsmodel.File, Perm: 0644, Mtime: T + mt, Data: fsmodel.Content(seed, size)}
	}
	d := func(p string, mt int64) fsmodel.Node {
		return fsmodel.Node{Path: p, Kind: fsmodel.Dir, Perm: 0755, Mtime: T + mt}
	}
	trees := []fsmodel.Tree{
		{f("a", 1, 5, 1)},
		{f("a", 1, 5, 1), d("b", 2), f("b/c", 2, 40000, 3), f("b/d", 3, 0, 4)},
		{d("a", 1), f("a/b", 2, 7, 2), f("a-b", 3, 8, 3), f("ab", 4, 9, 4), d("a/c", 5), f("a/c/x", 5, 3, 6)},
		{f("a", 1, 6, 1), fsmodel.Node{Path: "h", Kind: fsmodel.File, Perm: 0644, Mtime: T + 1, Data: fsmodel.Content(1, 6), HL: 1}, d("k", 3),
			fsmodel.Node{Path: "k/h2", Kind: fsmodel.File, Perm: 0644, Mtime: T + 1, Data: fsmodel.Content(1, 6), HL: 1}, f("z", 9, 4, 9)},
		{fsmodel.Node{Path: "l", Kind: fsmodel.Symlink, Perm: 0777, Mtime: T + 1, Link: "a"}, f("a", 1, 5, 2),
			fsmodel.Node{Path: "p", Kind: fsmodel.Fifo, Perm: 0600, Mtime: T + 3}, fsmodel.Node{Path: "n", Kind: fsmodel.Char, Perm: 0666, Mtime: T + 4, Major: 1, Minor: 3},
			d("e", 5)},
		{d("d", 1), d("d/e", 2), f("d/e/f", 1, 32768, 3), f("d/e/g", 2, 32769, 4), fsmodel.Node{Path: "d/s", Kind: fsmodel.Symlink, Perm: 0777, Mtime: T + 5, Link: "e/f"},
			fsmodel.Node{Path: "s", Kind: fsmodel.File, Perm: 04755, Mtime: T + 6, Data: fsmodel.Content(7, 10)}},
	}
	// two sibling directories with entries of the same names (a release switch: cur -> v1)
	trees = append(trees, fsmodel.Tree{d("cur", 1), f("cur/app", 1, 9, 2), f("cur/conf", 2, 3, 3), d("v1", 4), f("v1/app", 3, 8, 5), f("v1/conf", 4, 4, 6), d("v1/sub", 7), d("cur/sub", 8), f("cur/sub/x", 5, 2, 9), f("v1/sub/x", 6, 2, 10)})
	// names that look like the writer's own temporary names, next to entries that get replaced
	trees = append(trees, fsmodel.Tree{f(".tmp.0", 11, 70, 1), f(".tmp.1", 12, 80, 2), f(".tmp.2", 13, 90, 3), f("a", 1, 5, 4), d("b", 5), f("b/.tmp.1", 14, 60, 6), f("b/c", 2, 7, 7)})
	// entries named like the listing file of a metadata-only receive are ordinary entries in an ordinary transfer
	trees = append(trees, fsmodel.Tree{f(".fsutil-metadata", 21, 30, 1), f("a", 1, 5, 2), d("sub", 3), f("sub/.fsutil-metadata", 22, 31, 4)},
		fsmodel.Tree{d(".fsutil-metadata", 1), f(".fsutil-metadata/x", 23, 6, 2), f("b", 2, 4, 3)})
	// a set-gid directory of a foreign group holding entries that belong to root (they inherit the group when created)
	trees = append(trees, fsmodel.Tree{{Path: "g", Kind: fsmodel.Dir, Perm: 02775, GID: 4242, Mtime: fsmodel.T0 + 1}, f("g/f", 31, 5, 2), d("g/sub", 3), f("g/sub/x", 32, 4, 4), f("top", 33, 3, 5)})
	// a directory that is a symlink to a sibling directory (a relocated directory), both with children
	trees = append(trees, fsmodel.Tree{{Path: "cur", Kind: fsmodel.Symlink, Perm: 0777, Mtime: fsmodel.T0 + 1, Link: "real"}, d("real", 2), f("real/x", 34, 5, 3), f("z", 35, 2, 4)})
	// a directory and neighbours whose names merely start with its name, with and without entries in between
	trees = append(trees, fsmodel.Tree{d("build", 1), f("build/out", 41, 4, 2), f("build.log", 42, 5, 3), f("build_id", 43, 6, 4), d("builds", 5), f("builds/old", 44, 7, 6), f("zz", 45, 2, 7)})
	// entries that carry extended attributes; device nodes with numbers above 255
	trees = append(trees, fsmodel.Tree{{Path: "x", Kind: fsmodel.Dir, Perm: 0755, Mtime: T + 1, Xattrs: map[string]string{"user.a": "dir"}},
		{Path: "x/f", Kind: fsmodel.File, Perm: 0644, Mtime: T + 2, Data: fsmodel.Content(51, 6), Xattrs: map[string]string{"user.b": "file", "user.c": ""}}, f("y", 52, 3, 3),
		{Path: "usb", Kind: fsmodel.Char, Perm: 0664, Mtime: T + 4, Major: 189, Minor: 260}, {Path: "loop", Kind: fsmodel.Block, Perm: 0660, Mtime: T + 5, Major: 7, Minor: 300}})
	// modification times at the edges: exactly on a second (file systems and archives with second granularity), and
	// before 1970 with a sub-second part
	trees = append(trees, fsmodel.Tree{{Path: "whole", Kind: fsmodel.File, Perm: 0644, Mtime: T, Data: fsmodel.Content(61, 9)},
		{Path: "old", Kind: fsmodel.File, Perm: 0644, Mtime: -3*1e9 + 250000000, Data: fsmodel.Content(62, 4)},
		{Path: "olddir", Kind: fsmodel.Dir, Perm: 0755, Mtime: -86400*1e9 - 1}, {Path: "olddir/whole2", Kind: fsmodel.File, Perm: 0600, Mtime: T - 1e9, Data: fsmodel.Content(63, 5)},
		{Path: "oldlink", Kind: fsmodel.Symlink, Perm: 0777, Mtime: -1, Link: "old"},
		// ... exactly the epoch (SOURCE_DATE_EPOCH=0, archives with zeroed timestamps)
		{Path: "epoch", Kind: fsmodel.File, Perm: 0644, Mtime: 0, Data: fsmodel.Content(64, 7)}, {Path: "olddir/epoch2", Kind: fsmodel.Symlink, Perm: 0777, Mtime: 0, Link: "whole2"}})
	trees[3][0].HL = 1
	for i := range trees {
		trees[i].Sort()
	}
	return trees
}

func describeEdits(es []Edit) string {
	s := make([]string, len(es))
	for i, e := range es {
		s[i] = e.String()
	}
	return fmt.Sprint(s)
}
