package checks

import (
	"encoding/json"
	"fmt"
	"io"
	"os"
	"os/exec"
	"strconv"
	"strings"
	"sync"
	"syscall"
	"time"

	"github.com/tonistiigi/fsutil"
	"verif/evid"
	"verif/fsmodel"
	"verif/memfs"
	"verif/scratch"
	"verif/xfer"
)

// API-level part of C08. The schedule-exploring part compares destinations, requests and notifications over
// schedules; what a schedule costs in process resources is invisible there. Here one schedule family - the sender far
// behind the receiver's differ - is forced on a wide transfer in a process whose descriptor limit is lower than the
// number of files: the outcome must be the one a fast sender gives.

func init() {
	register("C08", runC08, replayC08)
	Children["c08fd"] = childC08fd
}

type c08pCase struct {
	Files int  `json:"files"`
	Limit int  `json:"limit"`
	Slow  bool `json:"slow"` // the sender opens no file before the receiver has created every entry
}

func (c c08pCase) String() string {
	return fmt.Sprintf("%d files, descriptor limit %d, sender held back until the receiver has created every entry: %v", c.Files, c.Limit, c.Slow)
}

func c08pTree(n int) fsmodel.Tree {
	var t fsmodel.Tree
	for i := 0; i < n; i++ {
		t = append(t, fsmodel.Node{Path: fmt.Sprintf("f%04d", i), Kind: fsmodel.File, Perm: 0644, Mtime: fsmodel.T0 + int64(i), Data: fsmodel.Content(i, 10+i%50)})
	}
	t.Sort()
	return t
}

// childC08fd: args = dest, files, limit, slow. One transfer under a lowered RLIMIT_NOFILE.
func childC08fd(args []string) int {
	if len(args) < 4 {
		return 3
	}
	dest := args[0]
	n, _ := strconv.Atoi(args[1])
	limit, _ := strconv.Atoi(args[2])
	slow := args[3] == "true"
	var rl syscall.Rlimit
	if err := syscall.Getrlimit(syscall.RLIMIT_NOFILE, &rl); err != nil {
		return 3
	}
	rl.Cur = uint64(limit)
	if err := syscall.Setrlimit(syscall.RLIMIT_NOFILE, &rl); err != nil {
		fmt.Fprintln(os.Stderr, "setrlimit:", err)
		return 3
	}
	src := memfs.New(c08pTree(n))
	if slow {
		var once sync.Once
		src.OpenHook = func(p string, rc io.ReadCloser) (io.ReadCloser, error) {
			once.Do(func() {
				// until the receiver's differ has created every entry (or it evidently will not get there)
				deadline := time.Now().Add(20 * time.Second)
				for time.Now().Before(deadline) {
					if ents, err := os.ReadDir(dest); err == nil && len(ents) >= n {
						break
					}
					time.Sleep(5 * time.Millisecond)
				}
			})
			return rc, nil
		}
	}
	res := xfer.Run(src, dest, fsutil.ReceiveOpt{}, nil)
	out := map[string]string{}
	if res.SendErr != nil {
		out["send"] = res.SendErr.Error()
	}
	if res.RecvErr != nil {
		out["recv"] = res.RecvErr.Error()
	}
	json.NewEncoder(os.Stdout).Encode(out)
	return 0
}

func judgeC08p(c c08pCase) (string, string) {
	dest := scratch.Dir("c08p")
	defer scratch.Remove(dest)
	self, _ := os.Executable()
	cmd := exec.Command(self, "child", "c08fd", dest, fmt.Sprint(c.Files), fmt.Sprint(c.Limit), fmt.Sprint(c.Slow))
	var stderr strings.Builder
	cmd.Stderr = &stderr
	b, err := cmd.Output()
	if err != nil {
		return "infra", fmt.Sprintf("child: %v: %s", err, firstLine(stderr.String()))
	}
	var res map[string]string
	if json.Unmarshal(b, &res) != nil {
		return "infra", "bad child output"
	}
	if len(res) != 0 {
		return "outcome-differs:resource-limit", fmt.Sprintf("the transfer fails when the sender is slow (send: %q receive: %q); with a sender that keeps up it succeeds under the same limit", res["send"], res["recv"])
	}
	got, err := fsmodel.Snapshot(dest)
	if err != nil {
		return "infra", err.Error()
	}
	if d := fsmodel.Diff(c08pTree(c.Files), got, fsmodel.Mask{}); len(d) > 0 {
		return "dest-differs:resource-limit", strings.Join(head(d, 3), " | ")
	}
	return "", ""
}

func runC08(r *evid.Run) {
	r.Technique = "a wide transfer in a process with a descriptor limit below the number of files, with the sender forced far behind the receiver's differ and with a sender that keeps up: same outcome"
	r.Rule = "API part: one evaluation = one transfer in a process of its own under RLIMIT_NOFILE"
	r.Assume = []string{"API part: free-running goroutines; only the one forced ordering (no source file is opened before every destination entry exists) distinguishes the two runs"}
	cs := []c08pCase{{Files: 600, Limit: 256, Slow: false}, {Files: 600, Limit: 256, Slow: true}, {Files: 1500, Limit: 128, Slow: true}}
	for _, c := range cs {
		k, m := judgeC08p(c)
		r.Evaluations.Add(1)
		r.StateH(evid.H(c.String()))
		r.Nontrivial(c.String())
		if k != "" {
			r.Violate(k, c.String()+": "+m, c)
		}
	}
	r.Set("resource_limit_transfers", len(cs))
}

func replayC08(raw json.RawMessage) string {
	var c c08pCase
	if err := json.Unmarshal(raw, &c); err != nil {
		return "infra: " + err.Error()
	}
	k, m := judgeC08p(c)
	if k == "" {
		return ""
	}
	return k + ": " + m
}
