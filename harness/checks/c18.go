package checks

import (
	"context"
	"encoding/json"
	"fmt"
	"io"
	gofs "io/fs"
	"os"
	"path"
	"path/filepath"
	"sort"
	"strings"
	"sync/atomic"
	"time"

	"github.com/moby/patternmatcher"
	"github.com/tonistiigi/fsutil"
	"verif/evid"
	"verif/fsmodel"
	"verif/memfs"
	"verif/par"
	"verif/scratch"
	"verif/xfer"
)

func init() { register("C18", runC18, replayC18) }

type c18Case struct {
	Tree     fsmodel.Tree `json:"tree"`
	Requests []string     `json:"requests"`
	Transfer bool         `json:"transfer,omitempty"`
	// DiskTransfer: the end-to-end transfer reads the tree from disk instead of from memory
	DiskTransfer bool `json:"disktransfer,omitempty"`
	Disk         bool `json:"disk,omitempty"` // differential: on-disk FS vs the in-memory one
}

func (c c18Case) String() string {
	return fmt.Sprintf("tree=%s requests=%q", c18TreeString(c.Tree), c.Requests)
}

func c18TreeString(t fsmodel.Tree) string {
	var s []string
	for _, n := range t {
		switch n.Kind {
		case fsmodel.Symlink:
			s = append(s, n.Path+"->"+n.Link)
		case fsmodel.Dir:
			s = append(s, n.Path+"/")
		default:
			s = append(s, n.Path)
		}
	}
	return "{" + strings.Join(s, " ") + "}"
}

// budgetFS fails the walk after too many calls: a resolver that does not
// terminate is stopped without blowing the stack.
type budgetFS struct {
	fs    fsutil.FS
	calls atomic.Int64
	limit int64
	// failAt: a walk of exactly this target fails with an I/O error
	failAt string
	failed bool
}

var errBudget = fmt.Errorf("walk budget exhausted")

func (b *budgetFS) Walk(ctx context.Context, target string, fn gofs.WalkDirFunc) error {
	if b.calls.Add(1) > b.limit {
		return errBudget
	}
	if b.failAt != "" && filepath.Clean(target) == b.failAt {
		b.failed = true
		return fmt.Errorf("injected I/O error reading %s", target)
	}
	return b.fs.Walk(ctx, target, fn)
}
func (b *budgetFS) Open(p string) (io.ReadCloser, error) { return b.fs.Open(p) }

// resolveRef resolves one concrete path chroot-style on the tree model. It
// returns the symlinks traversed and the final location ("" = the root).
func resolveRef(t fsmodel.Tree, p string) (links []string, final string, exists bool) {
	links, final, exists, _ = resolveRefV(t, p)
	return
}

// resolveRefV also returns every (symlink, remaining path) pair met on the way.
func resolveRefV(t fsmodel.Tree, p string) (links []string, final string, exists bool, visits [][2]string) {
	comps := strings.Split(path.Clean("/"+p), "/")[1:]
	var cur []string
	hops := 0
	for len(comps) > 0 {
		c := comps[0]
		comps = comps[1:]
		if c == "" || c == "." {
			continue
		}
		if c == ".." {
			if len(cur) > 0 {
				cur = cur[:len(cur)-1]
			}
			continue
		}
		here := strings.Join(append(append([]string{}, cur...), c), "/")
		n := t.Find(here)
		if n == nil {
			return links, strings.Join(append(append([]string{}, cur...), append([]string{c}, comps...)...), "/"), false, visits
		}
		if n.Kind == fsmodel.Symlink {
			links = append(links, here)
			visits = append(visits, [2]string{here, strings.Join(comps, "/")})
			hops++
			if hops > 40 {
				return links, here, false, visits
			}
			tgt := path.Clean(n.Link)
			var rest []string
			if strings.HasPrefix(tgt, "/") {
				cur = nil
				rest = strings.Split(tgt, "/")[1:]
			} else {
				rest = strings.Split(tgt, "/")
			}
			comps = append(append([]string{}, rest...), comps...)
			continue
		}
		if n.Kind != fsmodel.Dir && len(comps) > 0 {
			return links, here, false, visits // a file in the middle of the path: the request names nothing
		}
		cur = append(cur, c)
	}
	return links, strings.Join(cur, "/"), true, visits
}

func hasWild(s string) bool { return strings.ContainsAny(s, "*?[") }

// expand turns a request with wildcards into the concrete paths it names in the
// tree (matching component by component, through symlinks resolved chroot-style).
func expand(t fsmodel.Tree, req string) []string {
	comps := strings.Split(path.Clean("/"+req), "/")[1:]
	cur := []string{""}
	for _, c := range comps {
		var next []string
		for _, base := range cur {
			if !hasWild(c) {
				next = append(next, strings.TrimPrefix(base+"/"+c, "/"))
				continue
			}
			// directory to list: base resolved
			_, loc, ok := resolveRef(t, base)
			if !ok {
				continue
			}
			for _, n := range t {
				if parentOf(n.Path) == loc {
					name := n.Path[len(loc):]
					name = strings.TrimPrefix(name, "/")
					if m, _ := path.Match(c, name); m {
						next = append(next, strings.TrimPrefix(base+"/"+name, "/"))
					}
				}
			}
		}
		cur = next
	}
	return cur
}

func judgeC18Raw(c c18Case) (string, string) {
	bfs := &budgetFS{fs: memfs.New(c.Tree), limit: 2000}
	res, err := fsutil.FollowLinks(bfs, c.Requests)
	// the same tree behind an FS that reports a missing walk target as the not-exist error it is (filepath.WalkDir,
	// io/fs adapters) instead of swallowing it: a missing location is still a location, not a failure
	{
		strict := memfs.New(c.Tree)
		strict.NotExistIsError = true
		sres, serr := fsutil.FollowLinks(&budgetFS{fs: strict, limit: 2000}, c.Requests)
		if (serr == nil) != (err == nil) || strings.Join(sres, "\x00") != strings.Join(res, "\x00") {
			return "not-exist-error-changes-result", fmt.Sprintf("over an FS whose Walk returns the not-exist error for a missing target FollowLinks gives %q (%v), otherwise %q (%v)", sres, serr, res, err)
		}
	}
	if err != nil {
		if bfs.calls.Load() > bfs.limit {
			return "no-termination", fmt.Sprintf("more than %d directory walks without an answer", bfs.limit)
		}
		// a wildcard whose directory is not a directory names nothing; failing the call is acceptable
		for _, req := range c.Requests {
			parts := strings.Split(path.Clean(req), "/")
			for i := range parts {
				if hasWild(parts[i]) {
					_, loc, ok := resolveRef(c.Tree, strings.Join(parts[:i], "/"))
					if n := c.Tree.Find(loc); !ok || (loc != "" && (n == nil || n.Kind != fsmodel.Dir)) {
						return "", ""
					}
				}
			}
		}
		return "followlinks-failed", err.Error()
	}
	if !sort.StringsAreSorted(res) {
		return "not-sorted", fmt.Sprintf("%q", res)
	}
	for i, a := range res {
		for j, b := range res {
			if i != j && (a == b || strings.HasPrefix(b, a+"/")) {
				key := "not-minimal"
				// which byte follows the shorter element in the longer one's sort neighbourhood?
				if i+1 < j {
					key = "not-minimal:separated-by-sibling-below-slash"
				}
				return key, fmt.Sprintf("result %q contains %q inside %q", res, b, a)
			}
		}
	}
	var pm *patternmatcher.PatternMatcher
	if len(res) > 0 {
		if pm, err = patternmatcher.New(res); err != nil {
			return "result-not-patterns", err.Error()
		}
	}
	covered := func(p string) bool {
		if pm == nil || p == "" {
			return pm == nil
		}
		ok, _ := pm.MatchesOrParentMatches(p)
		return ok
	}
	rootReached := false
	rootClass := ""
	// links that the reference resolution of the whole request list meets with different remainders
	rem := map[string]map[string]bool{}
	note := func(link, remainder string) {
		if rem[link] == nil {
			rem[link] = map[string]bool{}
		}
		rem[link][remainder] = true
	}
	for _, req := range c.Requests {
		parts := strings.Split(path.Clean(req), "/")
		wi := -1
		for i := range parts {
			if hasWild(parts[i]) {
				wi = i
				break
			}
		}
		if wi < 0 {
			_, _, _, vs := resolveRefV(c.Tree, req)
			for _, v := range vs {
				note(v[0], v[1])
			}
			continue
		}
		// links before the wildcard are met once, with the rest of the pattern as remainder
		_, _, _, pvs := resolveRefV(c.Tree, strings.Join(parts[:wi], "/"))
		for _, v := range pvs {
			note(v[0], strings.TrimPrefix(v[1]+"/"+strings.Join(parts[wi:], "/"), "/"))
		}
		// each match continues on its own
		for _, conc := range expand(c.Tree, req) {
			_, _, _, vs := resolveRefV(c.Tree, conc)
			for k, v := range vs {
				if k < len(pvs) {
					continue
				}
				note(v[0], v[1])
			}
		}
	}
	revisited := func(conc string) bool {
		ls, _, _, _ := resolveRefV(c.Tree, conc)
		for _, l := range ls {
			if len(rem[l]) > 1 {
				return true
			}
		}
		return false
	}
	for _, req := range c.Requests {
		for _, conc := range expand(c.Tree, req) {
			links, final, exists := resolveRef(c.Tree, conc)
			if exists && final == "" {
				rootReached = true
			}
			class := func(loc string) string {
				switch {
				case belowPlainWildcardMatch(c.Tree, req, conc):
					return ":below-plain-match-of-middle-wildcard"
				case (len(c.Requests) > 1 && coveredAlone(c.Tree, req, loc)) || revisited(conc):
					return ":link-revisited-with-other-remainder"
				}
				return ""
			}
			if exists && final == "" && len(res) != 0 {
				rootClass = class("")
			}
			for _, l := range links {
				if !covered(l) {
					return "link-not-covered" + class(l), fmt.Sprintf("request %q (as %q) traverses symlink %q, which result %q does not contain", req, conc, l, res)
				}
			}
			if exists && final != "" && !covered(final) {
				return "final-not-covered" + class(final), fmt.Sprintf("request %q (as %q) ends at %q, which result %q does not contain", req, conc, final, res)
			}
		}
	}
	if rootReached && len(res) != 0 {
		return "root-reached-but-not-empty" + rootClass, fmt.Sprintf("a request resolves to the tree root but the result is %q", res)
	}
	// a fault while inspecting one match of a wildcard must fail the call, not shrink the result
	for _, req := range c.Requests {
		if !hasWild(req) || len(c.Requests) != 1 {
			continue
		}
		for _, conc := range expand(c.Tree, req) {
			if n := c.Tree.Find(conc); n == nil || n.Kind != fsmodel.Symlink {
				continue
			}
			ffs := &budgetFS{fs: memfs.New(c.Tree), limit: 2000, failAt: conc}
			_, ferr := fsutil.FollowLinks(ffs, c.Requests)
			if ffs.failed && ferr == nil {
				return "fault-swallowed", fmt.Sprintf("reading %q (a match of %q) failed with an I/O error, but FollowLinks reported success", conc, req)
			}
		}
	}
	if !c.Transfer {
		return "", ""
	}
	// end to end: after a transfer with these follow-paths every request still resolves to the same entry
	for _, inc := range [][]string{nil, {"m", "!m/zz"}} {
		if k, m := c18Transfer(c, inc); k != "" {
			if inc != nil {
				return k + ":with-include-patterns", fmt.Sprintf("together with include patterns %q: %s", inc, m)
			}
			return k, m
		}
	}
	return "", ""
}

// c18Transfer: the tree seen through FollowPaths = requests (plus, optionally, include patterns that select something
// else and carry an exception) is transferred; every request must resolve in the copy as in the source.
func c18Transfer(c c18Case, inc []string) (string, string) {
	dst := scratch.Dir("follow")
	defer scratch.Remove(dst)
	var base fsutil.FS = memfs.New(c.Tree)
	if c.DiskTransfer {
		// the same through the on-disk walker (its own inode table: names of one inode, symlinks included)
		sd := scratch.Dir("followsrc")
		defer scratch.Remove(sd)
		if err := fsmodel.Materialize(c.Tree, sd); err != nil {
			return "infra", err.Error()
		}
		d, err := fsutil.NewFS(sd)
		if err != nil {
			return "infra", err.Error()
		}
		base = d
	}
	view, err := fsutil.NewFilterFS(base, &fsutil.FilterOpt{FollowPaths: c.Requests, IncludePatterns: inc})
	if err != nil {
		return "view-failed", err.Error()
	}
	r := xfer.Run(view, dst, fsutil.ReceiveOpt{}, nil)
	if !r.OK() {
		return "transfer-failed", fmt.Sprintf("send=%v recv=%v", r.SendErr, r.RecvErr)
	}
	got, err := fsmodel.Snapshot(dst)
	if err != nil {
		return "infra", err.Error()
	}
	for _, req := range c.Requests {
		if hasWild(req) {
			// every concrete path the pattern names whose resolution meets no link at all (so none of the known gaps of
			// the resolver is involved) is in the copy, with its content
			for _, conc := range expand(c.Tree, req) {
				links, f1, e1 := resolveRef(c.Tree, conc)
				if !e1 || len(links) > 0 || f1 == "" {
					continue
				}
				a, b := c.Tree.Find(f1), got.Find(f1)
				if a == nil {
					continue
				}
				if b == nil || a.Kind != b.Kind || string(a.Data) != string(b.Data) {
					return "copy-resolves-differently:wildcard-match-missing", fmt.Sprintf("%q names %q (no link on the way) but the transferred tree %s does not hold it", req, f1, c18TreeString(got))
				}
			}
			continue
		}
		_, f1, e1 := resolveRef(c.Tree, req)
		_, f2, e2 := resolveRef(got, req)
		if !e1 {
			continue
		}
		if !e2 || f1 != f2 {
			return "copy-resolves-differently", fmt.Sprintf("%q resolves to %q in the source but to %q (exists=%v) in the transferred tree %s", req, f1, f2, e2, c18TreeString(got))
		}
		if f1 != "" {
			a, b := c.Tree.Find(f1), got.Find(f1)
			if a.Kind != b.Kind || string(a.Data) != string(b.Data) {
				return "copy-resolves-differently", fmt.Sprintf("%q ends at %q whose content differs in the copy", req, f1)
			}
		}
	}
	return "", ""
}

// belowPlainWildcardMatch: the request has a wildcard before its last component
// and, in this expansion, the entry matched by that wildcard is not itself a
// symlink (the known gap: links further down are then not followed).
func belowPlainWildcardMatch(t fsmodel.Tree, req, conc string) bool {
	rc := strings.Split(path.Clean(req), "/")
	cc := strings.Split(path.Clean(conc), "/")
	for i, c := range rc {
		if hasWild(c) && i < len(rc)-1 && i < len(cc) {
			_, loc, ok := resolveRef(t, strings.Join(cc[:i], "/"))
			if !ok {
				return false
			}
			n := t.Find(strings.TrimPrefix(loc+"/"+cc[i], "/"))
			return n != nil && n.Kind != fsmodel.Symlink
		}
	}
	return false
}

// coveredAlone: does FollowLinks of this single request cover the location?
func coveredAlone(t fsmodel.Tree, req, loc string) bool {
	res, err := fsutil.FollowLinks(memfs.New(t), []string{req})
	if err != nil {
		return false
	}
	if len(res) == 0 {
		return true
	}
	pm, err := patternmatcher.New(res)
	if err != nil {
		return false
	}
	ok, _ := pm.MatchesOrParentMatches(loc)
	return ok
}

func middleWildcard(req string) bool {
	comps := strings.Split(path.Clean(req), "/")
	for i, c := range comps {
		if hasWild(c) && i < len(comps)-1 {
			return true
		}
	}
	return false
}

func c18Trees(tier string) []fsmodel.Tree {
	T := fsmodel.T0
	base := func() fsmodel.Tree {
		return fsmodel.Tree{
			{Path: "a", Kind: fsmodel.Dir, Perm: 0755, Mtime: T}, {Path: "a/b", Kind: fsmodel.File, Perm: 0644, Mtime: T + 1, Data: []byte("ab")},
			{Path: "a-b", Kind: fsmodel.File, Perm: 0644, Mtime: T + 2, Data: []byte("a-b")},
			{Path: "d", Kind: fsmodel.Dir, Perm: 0755, Mtime: T}, {Path: "d/l", Kind: fsmodel.File, Perm: 0644, Mtime: T + 3, Data: []byte("dl")},
			{Path: "d/s", Kind: fsmodel.Dir, Perm: 0755, Mtime: T}, {Path: "d/s/x", Kind: fsmodel.File, Perm: 0644, Mtime: T + 4, Data: []byte("dsx")},
			{Path: "l", Kind: fsmodel.File, Perm: 0644, Mtime: T + 5, Data: []byte("l")}, {Path: "m", Kind: fsmodel.File, Perm: 0644, Mtime: T + 6, Data: []byte("m")},
		}
	}
	linkable := []string{"d/l", "d/s/x", "l", "m", "a-b", "d/s"}
	targets := []string{"a", "a/b", "/a", "../a", "../../a", "l", "m", "nope", "d/..", "/", "/d/s", "s/x", "d", "/d"}
	var out []fsmodel.Tree
	set := func(t fsmodel.Tree, p, tgt string) fsmodel.Tree {
		if p == "d/s" {
			t = removeSub(t, "d/s")
			t = append(t, fsmodel.Node{Path: p, Kind: fsmodel.Symlink, Perm: 0777, Mtime: T + 9, Link: tgt})
			return t
		}
		n := t.Find(p)
		*n = fsmodel.Node{Path: p, Kind: fsmodel.Symlink, Perm: 0777, Mtime: T + 9, Link: tgt}
		return t
	}
	out = append(out, base())
	max := 2
	if tier == "thorough" {
		max = 3
	}
	var rec func(start int, depth int, t fsmodel.Tree)
	rec = func(start, depth int, t fsmodel.Tree) {
		for i := start; i < len(linkable); i++ {
			if t.Find(linkable[i]) == nil {
				continue
			}
			for _, tg := range targets {
				nt := set(t.Clone(), linkable[i], tg)
				nt.Sort()
				out = append(out, nt)
				if depth+1 < max {
					rec(i+1, depth+1, nt)
				}
			}
		}
	}
	rec(0, 0, base())
	return out
}

func runC18(r *evid.Run) {
	r.Technique = "bounded-exhaustive enumeration of (tree with up to 2/3 symlinks from a 12-target alphabet incl. cycles, root, dangling, '..' beyond the root; request lists of length <=2 incl. wildcards in last and middle components); real FollowLinks under a walk budget; oracle = independent chroot-style resolver on the tree model + end-to-end transfer"
	r.Rule = "one evaluation = one FollowLinks call (plus, for single requests, one real filtered transfer and re-resolution in the copy); non-trivial = trees with at least one symlink; states = distinct cases"
	r.Assume = []string{"termination is judged by a budget of 2000 directory walks (a terminating resolution of these trees needs < 100)", "the result is read as include patterns with moby/patternmatcher's non-incremental entry point"}
	trees := c18Trees(r.Tier)
	reqs := []string{"a", "a/b", "a-b", "d", "d/l", "d/s", "d/s/x", "l", "m", "*", "d/*", "*/b", "d/*/x", "nope", "/", "a/../l", "d/s/../l", "l/*", "m/l*", "l/s/x", "d/[ls]", "[lm]"}
	var lists [][]string
	for _, a := range reqs {
		lists = append(lists, []string{a})
	}
	for _, a := range reqs {
		for _, b := range reqs {
			if a < b {
				lists = append(lists, []string{a, b})
			}
		}
	}
	lists = append(lists, []string{"a", "a-b", "a/b"})
	var cases []c18Case
	for ti, t := range trees {
		for _, l := range lists {
			tr := len(l) == 1 && (r.Tier == "thorough" || ti%3 == 0)
			cases = append(cases, c18Case{Tree: t, Requests: l, Transfer: tr})
		}
	}
	// many links in one call: 45 requests through a link each, one wildcard over 45 two-link chains, and a single
	// legal chain of 40 links
	{
		T := fsmodel.T0
		lib := fsmodel.Tree{{Path: "lib", Kind: fsmodel.Dir, Perm: 0755, Mtime: T}}
		var each []string
		for i := 0; i < 45; i++ {
			n := fmt.Sprintf("lib/l%02d.so", i)
			lib = append(lib, fsmodel.Node{Path: n, Kind: fsmodel.Symlink, Perm: 0777, Mtime: T, Link: fmt.Sprintf("l%02d.so.1", i)},
				fsmodel.Node{Path: n + ".1", Kind: fsmodel.Symlink, Perm: 0777, Mtime: T, Link: fmt.Sprintf("l%02d.so.1.0", i)},
				fsmodel.Node{Path: n + ".1.0", Kind: fsmodel.File, Perm: 0644, Mtime: T, Data: []byte(n)})
			each = append(each, n)
		}
		lib.Sort()
		chain := fsmodel.Tree{{Path: "c40", Kind: fsmodel.File, Perm: 0644, Mtime: T, Data: []byte("end")}}
		for i := 0; i < 40; i++ {
			chain = append(chain, fsmodel.Node{Path: fmt.Sprintf("c%02d", i), Kind: fsmodel.Symlink, Perm: 0777, Mtime: T, Link: fmt.Sprintf("c%02d", i+1)})
		}
		chain.Sort()
		cases = append(cases, c18Case{Tree: lib, Requests: each}, c18Case{Tree: lib, Requests: []string{"lib/*.so"}}, c18Case{Tree: lib, Requests: []string{"lib/*.so", "lib/l44.so.1"}},
			c18Case{Tree: lib, Requests: each[40:], Transfer: true}, c18Case{Tree: chain, Requests: []string{"c00"}}, c18Case{Tree: chain, Requests: []string{"c*"}})
	}
	// names that begin with a dot, as links and as plain entries, below a wildcard
	{
		T := fsmodel.T0
		dot := trees[0].Clone()
		dot = append(dot, fsmodel.Node{Path: "d/.h", Kind: fsmodel.Symlink, Perm: 0777, Mtime: T, Link: "../m"}, fsmodel.Node{Path: "d/.k", Kind: fsmodel.Symlink, Perm: 0777, Mtime: T, Link: "s"},
			fsmodel.Node{Path: ".top", Kind: fsmodel.Symlink, Perm: 0777, Mtime: T, Link: "a/b"}, fsmodel.Node{Path: "d/.plain", Kind: fsmodel.File, Perm: 0644, Mtime: T, Data: []byte("p")})
		dot.Sort()
		for _, l := range [][]string{{"d/*"}, {"d/.*"}, {"*/.h"}, {"*"}, {".*"}, {"d/.h"}, {"d/*", "m"}, {"d/.?"}} {
			cases = append(cases, c18Case{Tree: dot, Requests: l, Transfer: len(l) == 1})
		}
		trees = append(trees, dot)
	}
	// symlinks that have several names (hardlink(1), cp -al, ostree): requested through each of their names, from disk
	{
		T := fsmodel.T0
		hl := fsmodel.Tree{{Path: "data", Kind: fsmodel.Dir, Perm: 0755, Mtime: T}, {Path: "data/real", Kind: fsmodel.File, Perm: 0644, Mtime: T, Data: []byte("real")},
			{Path: "links", Kind: fsmodel.Dir, Perm: 0755, Mtime: T}, {Path: "links/a", Kind: fsmodel.Symlink, Perm: 0777, Mtime: T, Link: "../data/real", HL: 1},
			{Path: "links/b", Kind: fsmodel.Symlink, Perm: 0777, Mtime: T, Link: "../data/real", HL: 1}, {Path: "z", Kind: fsmodel.Symlink, Perm: 0777, Mtime: T, Link: "../data/real", HL: 1},
			{Path: "other", Kind: fsmodel.File, Perm: 0644, Mtime: T, Data: []byte("o")}}
		hl.Sort()
		for _, l := range [][]string{{"links/b"}, {"links/a", "links/b"}, {"links/*"}, {"links"}, {"links/b", "links/a"}} {
			cases = append(cases, c18Case{Tree: hl, Requests: l, Transfer: true, DiskTransfer: true})
		}
	}
	// wildcard requests whose directory part begins with dots (.cfg/l*, ..data/*): the directory that is listed is named
	// exactly as requested
	{
		T := fsmodel.T0
		dd := func(p string) fsmodel.Node { return fsmodel.Node{Path: p, Kind: fsmodel.Dir, Perm: 0755, Mtime: T} }
		ff := func(p string) fsmodel.Node {
			return fsmodel.Node{Path: p, Kind: fsmodel.File, Perm: 0644, Mtime: T, Data: []byte(p)}
		}
		ln := func(p, t string) fsmodel.Node {
			return fsmodel.Node{Path: p, Kind: fsmodel.Symlink, Perm: 0777, Mtime: T, Link: t}
		}
		dt := fsmodel.Tree{dd(".cfg"), ln(".cfg/l1", "../real/one"), ln(".cfg/l2", "../real/two"), ff(".cfg/plain"), dd("..data"), ln("..data/k", "../real/one"), dd("cfg"), ff("cfg/decoy"),
			dd("data"), ff("data/decoy"), dd("real"), ff("real/one"), ff("real/two"), dd(".github"), dd(".github/workflows"), ln(".github/workflows/ci.yml", "../../real/two")}
		dt.Sort()
		for _, l := range [][]string{{".cfg/l*"}, {".cfg/*"}, {"..data/*"}, {".github/workflows/*.yml"}, {".*/l1"}, {".cfg/l1"}, {"..data/k", ".cfg/l*"}, {".github/*/ci.yml"}} {
			cases = append(cases, c18Case{Tree: dt, Requests: l, Transfer: len(l) == 1})
		}
		trees = append(trees, dt)
	}
	// entries whose own names contain pattern metacharacters, as links and as plain entries: a name that a wildcard
	// matched is a name, not a pattern
	{
		T := fsmodel.T0
		gl := trees[0].Clone()
		gl = append(gl, fsmodel.Node{Path: "d/l?", Kind: fsmodel.Symlink, Perm: 0777, Mtime: T, Link: "../m"}, fsmodel.Node{Path: "d/[ab]", Kind: fsmodel.Symlink, Perm: 0777, Mtime: T, Link: "../a/b"},
			fsmodel.Node{Path: "d/a", Kind: fsmodel.File, Perm: 0644, Mtime: T, Data: []byte("da")}, fsmodel.Node{Path: "x*", Kind: fsmodel.Symlink, Perm: 0777, Mtime: T, Link: "a"},
			fsmodel.Node{Path: "d/s*", Kind: fsmodel.Symlink, Perm: 0777, Mtime: T, Link: "s/x"})
		gl.Sort()
		for _, l := range [][]string{{"d/l*"}, {"d/*"}, {"d/l?"}, {"d/?"}, {"d/??"}, {"*"}, {"x*"}, {"d/[[]*"}, {"d/s*"}, {"d/*", "x*"}, {"*/l?"}, {"d/[ab]"}} {
			cases = append(cases, c18Case{Tree: gl, Requests: l, Transfer: len(l) == 1})
		}
		trees = append(trees, gl)
	}
	r.Set("cases", len(cases))
	r.Set("trees", len(trees))
	// the same request lists against the on-disk FS of the same tree (lazy stats, kernel errors such as ENOTDIR for
	// a path through a file): the result must be the one the in-memory tree gives, which the oracle below judges
	var diskCases atomic.Int64
	par.Do(len(trees), par.Workers(), func(ti int) {
		dir := scratch.Dir("fl")
		defer scratch.Remove(dir)
		if err := fsmodel.Materialize(trees[ti], dir); err != nil {
			r.Violate("infra", err.Error(), nil)
			return
		}
		dfs, err := fsutil.NewFS(dir)
		if err != nil {
			r.Violate("infra", err.Error(), nil)
			return
		}
		for _, l := range lists {
			mres, merr := fsutil.FollowLinks(&budgetFS{fs: memfs.New(trees[ti]), limit: 2000}, l)
			if merr != nil && strings.Contains(merr.Error(), errBudget.Error()) {
				continue // judged (as non-termination) by the main pass; do not recurse on disk
			}
			dres, derr := fsutil.FollowLinks(&budgetFS{fs: dfs, limit: 2000}, l)
			diskCases.Add(1)
			if derr != nil && strings.Contains(derr.Error(), errBudget.Error()) {
				c := c18Case{Tree: trees[ti], Requests: l, Disk: true}
				r.Violate("no-termination", c.String()+": more than 2000 directory walks over the on-disk tree without an answer (the same tree in memory answers)", c)
				continue
			}
			if merr != nil {
				continue // the in-memory FS reports a wildcard below a non-directory as an error (acceptable, see the oracle); nothing to compare with
			}
			// the budgeted run has shown that the resolution terminates; the comparison uses the FS value exactly as
			// NewFS returned it (code that recognises its own FS type must see it), bounded by a generous timeout
			type fl struct {
				res []string
				err error
			}
			ch := make(chan fl, 1)
			go func() {
				defer func() {
					if rec := recover(); rec != nil {
						ch <- fl{nil, fmt.Errorf("panic: %v", rec)}
					}
				}()
				rr, ee := fsutil.FollowLinks(dfs, l)
				ch <- fl{rr, ee}
			}()
			select {
			case x := <-ch:
				dres, derr = x.res, x.err
			case <-time.After(60 * time.Second):
				c := c18Case{Tree: trees[ti], Requests: l, Disk: true}
				r.Violate("no-termination", c.String()+": no answer within 60s over the on-disk tree as NewFS returned it", c)
				return
			}
			if derr != nil || fmt.Sprint(mres) != fmt.Sprint(dres) {
				c := c18Case{Tree: trees[ti], Requests: l, Disk: true}
				r.Violate("disk-differs-from-memory", fmt.Sprintf("%s: over the on-disk tree FollowLinks gives %q (%v), over the same tree in memory %q (%v)", c.String(), dres, derr, mres, merr), c)
			}
		}
	})
	r.Set("disk_cases", diskCases.Load())
	r.Evaluations.Add(diskCases.Load())
	par.Do(len(cases), par.Workers(), func(i int) {
		c := cases[i]
		key, msg := judgeC18(c)
		r.Evaluations.Add(1)
		r.StateH(evid.H(c.String()))
		if i >= len(lists) {
			r.Nontrivial(c.String())
		}
		if i%40000 == 19 {
			r.Sample(map[string]any{"tree": c18TreeString(c.Tree), "requests": c.Requests, "result": key})
		}
		if key != "" {
			r.Violate(key, c.String()+": "+msg, c)
		}
	})
	_ = os.Getpid
	_ = filepath.Join
}

func replayC18(raw json.RawMessage) string {
	var c c18Case
	if err := json.Unmarshal(raw, &c); err != nil {
		return "bad case: " + err.Error()
	}
	if c.Disk {
		dir := scratch.Dir("fl")
		defer scratch.Remove(dir)
		if err := fsmodel.Materialize(c.Tree, dir); err != nil {
			return "infra: " + err.Error()
		}
		dfs, err := fsutil.NewFS(dir)
		if err != nil {
			return "infra: " + err.Error()
		}
		mres, merr := fsutil.FollowLinks(memfs.New(c.Tree), c.Requests)
		dres, derr := fsutil.FollowLinks(dfs, c.Requests)
		if merr == nil && (derr != nil || fmt.Sprint(mres) != fmt.Sprint(dres)) {
			return fmt.Sprintf("disk-differs-from-memory: on disk %q (%v), in memory %q (%v)", dres, derr, mres, merr)
		}
		return ""
	}
	k, m := judgeC18(c)
	if k == "" {
		return ""
	}
	return k + ": " + m
}

// judgeC18 is judgeC18Raw with a panic of the code under test turned into a verdict (never a crash of the check).
func judgeC18(c c18Case) (k, m string) {
	defer func() {
		if r := recover(); r != nil {
			k, m = "panic", fmt.Sprintf("the code under test panicked: %v", r)
		}
	}()
	return judgeC18Raw(c)
}
