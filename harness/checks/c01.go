package checks

import (
	"encoding/json"
	"fmt"
	"os"
	"os/exec"
	"path/filepath"
	"strings"
	"syscall"

	"verif/evid"
	"verif/fsmodel"
	"verif/par"
	"verif/scratch"
	"verif/xfer"
)

func init() {
	register("C01", runC01, replayC01)
	Children["c01u"] = childC01u
}

// judgeC01 runs one case and returns (violation key, message) or "".
func judgeC01Raw(c SyncCase) (string, string, *SyncObs) {
	d := newSyncDirs()
	defer d.close()
	if !c.Mem {
		if err := d.resetSrc(c.Src); err != nil {
			return "infra", "materialize src: " + err.Error(), nil
		}
	}
	if err := d.resetDst(c.Dst); err != nil {
		return "infra", "materialize dst: " + err.Error(), nil
	}
	if c.AbortFirst != nil {
		if ab := d.transferFault(c, c.Src, *c.AbortFirst); ab.Err != "" {
			return "infra", ab.Err, nil
		}
	}
	o := d.transfer(c, c.Src)
	if o.Err != "" {
		return "infra", o.Err, o
	}
	if o.Res.TimedOut {
		return "timeout", "transfer did not finish within 180s", o
	}
	if o.Res.SendErr != nil || o.Res.RecvErr != nil {
		return "transfer-failed", fmt.Sprintf("send=%v recv=%v", o.Res.SendErr, o.Res.RecvErr), o
	}
	want := sourceView(o.View)
	if c.MemResize != 0 {
		// the source's files are not the size their stat announces (grown since the listing; a file system that reports
		// no sizes): what is stored is what the source delivered
		for i := range want {
			if want[i].Kind == fsmodel.File && want[i].HL == 0 {
				want[i].Data = ResizeBytes(want[i].Data, c.MemResize)
			}
		}
	}
	if c.Merge {
		want = overlay(o.Before, want)
	}
	before := o.Before
	mask := fsmodel.Mask{
		DirMtime: func(p string) bool {
			n := before.Find(p)
			return n != nil && n.Kind == fsmodel.Dir
		},
		NoXattrOf: func(n fsmodel.Node) bool {
			if n.Kind != fsmodel.File && n.Kind != fsmodel.Dir {
				return true
			}
			b := before.Find(n.Path)
			if b == nil {
				return false
			}
			if n.Kind == fsmodel.Dir {
				return b.Kind == fsmodel.Dir // not created by this transfer
			}
			src := want.Find(n.Path)
			return src != nil && identity(b) == identity(src) // kept, not rewritten
		},
	}
	if c.Merge {
		// entries of the old destination that the source does not replace keep everything
		mask.NoXattrOf = func(n fsmodel.Node) bool {
			if n.Kind != fsmodel.File && n.Kind != fsmodel.Dir {
				return true
			}
			return n.Kind == fsmodel.Dir && before.Find(n.Path) != nil && before.Find(n.Path).Kind == fsmodel.Dir
		}
	}
	diffs := fsmodel.Diff(want, o.After, mask)
	if len(diffs) == 0 {
		return "", "", o
	}
	return "dest-differs:" + diffClass(diffs[0]), strings.Join(head(diffs, 6), " | "), o
}

func diffClass(d string) string {
	for _, k := range []string{"missing", "extra", "kind", "perm", "owner", "mtime", "bytes", "target", "dev", "xattrs", "hard-link"} {
		if strings.HasPrefix(d, k) || strings.Contains(d, ": "+k) || strings.Contains(d, "; "+k) {
			return k
		}
	}
	return "other"
}

func head(s []string, n int) []string {
	if len(s) > n {
		return s[:n]
	}
	return s
}

func c01Cases(tier string) []SyncCase {
	var cases []SyncCase
	uni := []string{"a", "a/b", "a-b"}
	if tier == "thorough" {
		uni = []string{"a", "a/b", "a/c", "a-b", "b"}
	}
	srcs := fsmodel.Shapes(uni, fsmodel.StdKinds(1))
	dsts2 := fsmodel.Shapes(uni, fsmodel.StdKinds(2))
	for _, s := range srcs {
		for k, dl := range [][]fsmodel.Tree{dsts2, srcs} {
			for _, d := range dl {
				for _, merge := range []bool{false, true} {
					for _, mem := range []bool{false, true} {
						if tier == "thorough" && k == 1 && mem {
							continue
						}
						cases = append(cases, SyncCase{Src: s, Dst: d, Merge: merge, Mem: mem})
					}
				}
				// the other receive options crossed in (quick: on the quick universe only): comparison switched
				// off, change callback + content hasher installed, a receiver-side Filter that rewrites ownership
				if tier != "thorough" || k == 0 {
					cases = append(cases, SyncCase{Src: s, Dst: d, Differ: 1}, SyncCase{Src: s, Dst: d, Notify: true, Mem: true}, SyncCase{Src: s, Dst: d, Merge: true, Differ: 1, Notify: true},
						SyncCase{Src: s, Dst: d, FilterShift: true}, SyncCase{Src: s, Dst: d, FilterShift: true, Merge: true, Notify: true},
						SyncCase{Src: s, Dst: d, ViaLinks: true}, SyncCase{Src: s, Dst: d, ViaLinks: true, Merge: true, Notify: true})
				}
			}
		}
	}
	// attribute space: every (kind, attribute) variant against every other, top level and nested
	for _, where := range []string{"x", "d/x"} {
		sv, dv := fsmodel.AttrVariants(where), fsmodel.AttrVariants(where)
		wrap := func(n fsmodel.Node, salt int64) fsmodel.Tree {
			t := fsmodel.Tree{n}
			if where == "d/x" {
				t = append(t, fsmodel.Node{Path: "d", Kind: fsmodel.Dir, Perm: 0755, Mtime: fsmodel.T0 + 5 + salt})
			}
			t.Sort()
			return t
		}
		for _, s := range sv {
			for _, d := range dv {
				if d.Kind == fsmodel.Socket {
					continue // a socket in the destination is outside the property's universe
				}
				for _, mem := range []bool{false, true} {
					if mem && s.Xattrs != nil && strings.HasPrefix(firstKey(s.Xattrs), "trusted.") {
						continue
					}
					cases = append(cases, SyncCase{Src: wrap(s, 0), Dst: wrap(d, 1), Mem: mem})
					if mem && s.Kind == fsmodel.File && d.Kind == fsmodel.File && d.Perm == 0644 {
						cases = append(cases, SyncCase{Src: wrap(s, 0), Dst: wrap(d, 1), Mem: true, MemEOF: true}, SyncCase{Src: wrap(s, 0), Dst: wrap(d, 1), Mem: true, MemShort: 1000})
					}
				}
			}
			cases = append(cases, SyncCase{Src: wrap(s, 0), Dst: nil})
			cases = append(cases, SyncCase{Src: wrap(s, 0), Dst: nil, Mem: true})
			cases = append(cases, SyncCase{Src: wrap(s, 0), Dst: nil, Mem: true, MemEOF: true}, SyncCase{Src: wrap(s, 0), Dst: nil, Mem: true, MemShort: 1}, SyncCase{Src: wrap(s, 0), Dst: nil, Mem: true, MemShort: 4096})
		}
	}
	// hard-link space: all set partitions of four files on both sides
	files := []string{"a", "b/x", "b/y", "c"}
	parts := fsmodel.Partitions(len(files))
	mk := func(lab []int, salt int) fsmodel.Tree {
		t := fsmodel.Tree{{Path: "b", Kind: fsmodel.Dir, Perm: 0755, Mtime: fsmodel.T0 + 3}}
		for i, p := range files {
			seed := 40 + i
			if lab[i] > 0 {
				seed = 60 + lab[i] // members of a group share bytes
			}
			// mtime is a function of the bytes: equal (size, mtime) must imply equal content
			n := fsmodel.Node{Path: p, Kind: fsmodel.File, Perm: 0644, Mtime: fsmodel.T0 + int64(1000*(seed+salt*10)), Data: fsmodel.Content(seed+salt*10, 6), HL: lab[i]}
			t = append(t, n)
		}
		t.Sort()
		return t
	}
	for _, ls := range parts {
		for _, ld := range parts {
			for _, salt := range []int{0, 1} {
				for _, mem := range []bool{false, true} {
					cases = append(cases, SyncCase{Src: mk(ls, 0), Dst: mk(ld, salt), Mem: mem})
				}
			}
		}
	}
	// every layout again with both roots reached through symlinks (the last component, or an ancestor), into an empty
	// destination and onto the all-separate layout
	for _, ls := range parts {
		cases = append(cases, SyncCase{Src: mk(ls, 0), Dst: nil, ViaLinks: true}, SyncCase{Src: mk(ls, 0), Dst: mk(parts[0], 1), ViaLinks: true},
			SyncCase{Src: mk(ls, 0), Dst: mk(ls, 1), ViaLinks: true, Notify: true})
	}
	// symlink inodes with several names (every partition), into an empty destination, onto the same layout and
	// onto the all-separate one (special files with several names arrive as separate nodes, DESIGN.md 5.3)
	for _, kind := range []fsmodel.Kind{fsmodel.Symlink} {
		mkK := func(lab []int) fsmodel.Tree {
			t := mk(lab, 0)
			for i := range t {
				if t[i].Kind == fsmodel.File {
					t[i].Kind, t[i].Data = kind, nil
					if kind == fsmodel.Symlink {
						t[i].Perm, t[i].Link = 0777, fmt.Sprintf("../t%d", t[i].Mtime-fsmodel.T0)
					}
				}
			}
			return t
		}
		for _, ls := range parts {
			for _, mem := range []bool{false, true} {
				cases = append(cases, SyncCase{Src: mkK(ls), Dst: nil, Mem: mem}, SyncCase{Src: mkK(ls), Dst: mkK(ls), Mem: mem}, SyncCase{Src: mkK(ls), Dst: mkK(parts[0]), Mem: mem})
			}
		}
	}
	// sources whose files deliver more bytes than their stat announces - in particular files announced as empty
	{
		T := fsmodel.T0
		f := func(p string, seed, size int) fsmodel.Node {
			return fsmodel.Node{Path: p, Kind: fsmodel.File, Perm: 0644, Mtime: T + int64(seed), Data: fsmodel.Content(seed, size)}
		}
		grow := fsmodel.Tree{f("empty", 1, 0), f("five", 2, 5), {Path: "d", Kind: fsmodel.Dir, Perm: 0755, Mtime: T + 3}, f("d/empty2", 4, 0), f("d/chunk", 5, 32768), f("z", 6, 40000)}
		grow.Sort()
		for _, delta := range []int{5, 18, 49152} {
			cases = append(cases, SyncCase{Src: grow, Dst: nil, Mem: true, MemResize: delta}, SyncCase{Src: grow, Dst: nil, Mem: true, MemResize: delta, Notify: true, Merge: true})
		}
	}
	// names from another era: not valid UTF-8 (latin-1, shift-jis), at the length limit, beginning with two dots, with
	// pattern metacharacters and spaces - as files with content, directories and link targets, from disk and memory
	{
		T := fsmodel.T0
		f := func(p string, seed, size int) fsmodel.Node {
			return fsmodel.Node{Path: p, Kind: fsmodel.File, Perm: 0644, Mtime: T + int64(seed), Data: fsmodel.Content(seed, size)}
		}
		dd := func(p string, seed int) fsmodel.Node {
			return fsmodel.Node{Path: p, Kind: fsmodel.Dir, Perm: 0755, Mtime: T + int64(seed)}
		}
		odd := fsmodel.Tree{f("caf\xe9.txt", 1, 9), dd("d\xe8s", 2), f("d\xe8s/\x83\x65.bin", 3, 32785), f("d\xe8s/plain", 4, 3),
			{Path: "l\xff", Kind: fsmodel.Symlink, Perm: 0777, Mtime: T + 5, Link: "d\xe8s/\x83\x65.bin"},
			dd("..data", 6), f("..data/token", 7, 40), f("..hidden", 8, 5), dd("a [1]*?", 9), f("a [1]*?/b\\c", 10, 6),
			f(strings.Repeat("n", 255), 11, 7), dd(strings.Repeat("q", 255), 12), f(strings.Repeat("q", 255)+"/"+strings.Repeat("r", 250), 13, 33000)}
		odd.Sort()
		older := odd.Clone()
		for i := range older {
			if older[i].Kind == fsmodel.File {
				older[i].Data, older[i].Mtime = fsmodel.Content(90+i, len(older[i].Data)/2+1), older[i].Mtime+50
			}
		}
		// ... and what an unpacked archive of an earlier version looks like: same sizes, other bytes, times on the second
		archived := odd.Clone()
		for i := range archived {
			if archived[i].Kind == fsmodel.File {
				archived[i].Data, archived[i].Mtime = fsmodel.Content(190+i, len(archived[i].Data)), archived[i].Mtime/1e9*1e9
			}
		}
		for _, dst := range []fsmodel.Tree{nil, odd, older, archived} {
			for _, mem := range []bool{false, true} {
				cases = append(cases, SyncCase{Src: odd, Dst: dst, Mem: mem}, SyncCase{Src: odd, Dst: dst, Mem: mem, Merge: true, Notify: true})
			}
		}
	}
	// leftovers of an aborted run: every stream call of a transfer with multi-chunk files fails in turn, then the same
	// transfer runs fault-free over what is there
	{
		T := fsmodel.T0
		f := func(p string, seed, size int, mt int64) fsmodel.Node {
			return fsmodel.Node{Path: p, Kind: fsmodel.File, Perm: 0644, Mtime: T + mt, Data: fsmodel.Content(seed, size)}
		}
		src := fsmodel.Tree{f("big", 1, 98304, 1), {Path: "d", Kind: fsmodel.Dir, Perm: 0755, Mtime: T + 2}, f("d/x", 2, 70000, 3), f("s", 3, 9, 4),
			{Path: "d/h", Kind: fsmodel.File, Perm: 0644, Mtime: T + 1, Data: fsmodel.Content(1, 98304), HL: 1}}
		src[0].HL = 1
		src.Sort()
		dirty := fsmodel.Tree{f("big", 9, 120000, 7), f("gone", 4, 3, 5), f("s", 3, 9, 4)}
		for _, dst := range []fsmodel.Tree{nil, dirty} {
			for _, end := range []string{"R.recv", "S.send", "R.send"} {
				n := 22
				if end == "R.send" {
					n = 6
				}
				for k := 0; k < n; k++ {
					cases = append(cases, SyncCase{Src: src, Dst: dst, Mem: true, AbortFirst: &xfer.Fault{End: end, K: k}})
				}
			}
		}
	}
	// new (non-empty, nested) directories below directories the destination already has, at several depths
	{
		T := fsmodel.T0
		dn := func(p string, mt int64) fsmodel.Node {
			return fsmodel.Node{Path: p, Kind: fsmodel.Dir, Perm: 0755, Mtime: T + mt}
		}
		fn := func(p string, mt int64) fsmodel.Node {
			return fsmodel.Node{Path: p, Kind: fsmodel.File, Perm: 0644, Mtime: T + mt, Data: fsmodel.Content(int(mt), 5)}
		}
		old := fsmodel.Tree{dn("d", 1), fn("d/keep", 2), dn("d/e", 3), fn("d/e/keep", 4), dn("z", 5)}
		grown := append(old.Clone(), dn("d/n", 11), fn("d/n/f", 12), dn("d/n/m", 13), fn("d/n/m/g", 14), dn("d/e/n2", 15), fn("d/e/n2/h", 16), dn("d/e/empty", 17), dn("top", 18), fn("top/t", 19), dn("top/inner", 20), fn("top/inner/u", 21))
		old.Sort()
		grown.Sort()
		for _, mem := range []bool{false, true} {
			for _, merge := range []bool{false, true} {
				cases = append(cases, SyncCase{Src: grown, Dst: old, Mem: mem, Merge: merge}, SyncCase{Src: old, Dst: grown, Mem: mem, Merge: merge})
			}
		}
	}
	// names that sort differently bytewise and path-wise, long and non-ASCII names
	long := strings.Repeat("n", 255)
	names := []string{"a", "a-b", "a b", "a.", "a0", "ab", "é", long}
	var nt, nt2 fsmodel.Tree
	for i, n := range names {
		nt = append(nt, fsmodel.Node{Path: n, Kind: fsmodel.Dir, Perm: 0755, Mtime: fsmodel.T0 + int64(i)})
		nt = append(nt, fsmodel.Node{Path: n + "/b", Kind: fsmodel.File, Perm: 0644, Mtime: fsmodel.T0 + int64(i) + 50, Data: fsmodel.Content(i, 4)})
		if i%2 == 0 {
			nt2 = append(nt2, fsmodel.Node{Path: n, Kind: fsmodel.File, Perm: 0644, Mtime: fsmodel.T0 + int64(i) + 70, Data: fsmodel.Content(i+9, 3)})
		} else {
			nt2 = append(nt2, fsmodel.Node{Path: n, Kind: fsmodel.Dir, Perm: 0700, Mtime: fsmodel.T0 + int64(i) + 70})
			nt2 = append(nt2, fsmodel.Node{Path: n + "/zz", Kind: fsmodel.File, Perm: 0644, Mtime: fsmodel.T0 + int64(i) + 70, Data: fsmodel.Content(i+9, 3)})
		}
	}
	nt.Sort()
	nt2.Sort()
	for _, mem := range []bool{false, true} {
		for _, merge := range []bool{false, true} {
			cases = append(cases, SyncCase{Src: nt, Dst: nt2, Mem: mem, Merge: merge}, SyncCase{Src: nt2, Dst: nt, Mem: mem, Merge: merge}, SyncCase{Src: nt, Dst: nil, Mem: mem, Merge: merge})
		}
	}
	// leftovers of an aborted run
	left := fsmodel.Tree{
		{Path: ".tmp.123456789", Kind: fsmodel.File, Perm: 0600, Mtime: fsmodel.T0, Data: fsmodel.Content(1, 100)},
		{Path: "a", Kind: fsmodel.Dir, Perm: 0755, Mtime: fsmodel.T0},
		{Path: "a/.tmp.987654321", Kind: fsmodel.Dir, Perm: 0700, Mtime: fsmodel.T0},
		{Path: "a/.tmp.987654321/x", Kind: fsmodel.File, Perm: 0600, Mtime: fsmodel.T0, Data: fsmodel.Content(2, 10)},
		{Path: "a/b", Kind: fsmodel.File, Perm: 0644, Mtime: fsmodel.T0 + 9, Data: fsmodel.Content(3, 40000)[:20000]},
	}
	for _, s := range srcs {
		cases = append(cases, SyncCase{Src: s, Dst: left})
	}
	return cases
}

func firstKey(m map[string]string) string {
	for k := range m {
		return k
	}
	return ""
}

func runC01(r *evid.Run) {
	r.Technique = "bounded-exhaustive enumeration of (source tree, prior destination, mode, source kind) over a small-scope universe; every case is one real Send/Receive; oracle = independent lstat snapshot vs reference (source view / overlay model)"
	r.Rule = "cases = all ordered pairs of structurally valid trees over the universe x {dirty,merge} x {disk,mem}, all ordered pairs of (kind,attribute) variants at one path (top level and nested), all pairs of hard-link partitions of 4 files, odd names, aborted-run leftovers; non-trivial = distinct (src,dst) pairs with src != dst"
	r.Assume = []string{"runs as root on tmpfs (mknod, chown, trusted.* xattrs available)", "equal (size,mtime) implies equal bytes in the enumerated universes (content comparison is disabled by design in the default differ)"}
	cases := c01Cases(r.Tier)
	r.Set("cases", len(cases))
	fails := 0
	par.Do(len(cases), par.Workers(), func(i int) {
		c := cases[i]
		key, msg, o := judgeC01(c)
		r.Evaluations.Add(1)
		r.State(c.String())
		if c.Src.String() != c.Dst.String() {
			r.Nontrivial(c.Src.String() + "<-" + c.Dst.String())
		}
		if o != nil && o.Res.Log != nil {
			r.Transitions.Add(int64(len(o.Res.Log.Pkts)))
		}
		if i%2500 == 1 {
			r.Sample(map[string]any{"src": c.Src.Strings(), "dst": c.Dst.Strings(), "merge": c.Merge, "mem_source": c.Mem, "result": key})
		}
		if key == "" {
			return
		}
		if key == "transfer-failed" {
			fails++
		}
		r.Violate(key, fmt.Sprintf("%s: %s", c.String(), msg), c)
	})
	r.Set("failed_transfers", fails)
	runUnpriv(r)
}

// ---- unprivileged receiver: the same judge, run in a child process with uid/gid 1000 ----

// unprivCases: shapes over the small universe where every entry belongs to uid 1000 and regular
// files are read-only (0444/0400) on either side, so that content has to be written into files the
// receiver may not open for writing.
func unprivCases() []SyncCase {
	mk := func(salt int) []fsmodel.Tree {
		kinds := fsmodel.StdKinds(salt)
		ts := fsmodel.Shapes([]string{"a", "a/b", "a-b"}, kinds)
		for ti := range ts {
			for i := range ts[ti] {
				n := &ts[ti][i]
				n.UID, n.GID = 1000, 1000
				if n.Kind == fsmodel.File {
					n.Perm = 0444
					if len(n.Data) > 5 {
						n.Perm = 0400
					}
					n.Data = append(n.Data, fsmodel.Content(salt, 40000)...) // multi-chunk: written by the async writer
				}
			}
		}
		return ts
	}
	srcs, dsts := mk(1), mk(2)
	var out []SyncCase
	for _, s := range srcs {
		for _, d := range dsts {
			for _, merge := range []bool{false, true} {
				out = append(out, SyncCase{Src: s, Dst: d, Merge: merge, Unpriv: true}, SyncCase{Src: s, Dst: d, Merge: merge, Mem: true, Unpriv: true})
			}
		}
		out = append(out, SyncCase{Src: s, Dst: s, Unpriv: true}) // nothing to do
	}
	return out
}

type c01uOut struct {
	Evals int64
	Key   string
	Msg   string
	Case  *SyncCase
}

func childC01u(args []string) int {
	if os.Getuid() == 0 {
		fmt.Fprintln(os.Stderr, "c01u: must not run as root")
		return 3
	}
	os.Setenv("VERIF_SCRATCH", args[0])
	enc := json.NewEncoder(os.Stdout)
	n := int64(0)
	cases := unprivCases()
	if len(args) > 1 {
		var c SyncCase
		if err := json.Unmarshal([]byte(args[1]), &c); err != nil {
			return 3
		}
		cases = []SyncCase{c}
	}
	for _, c := range cases {
		c := c
		key, msg, _ := judgeC01(c)
		n++
		if key != "" {
			enc.Encode(c01uOut{Key: key, Msg: msg, Case: &c})
		}
	}
	enc.Encode(c01uOut{Evals: n})
	return 0
}

func runUnpriv(r *evid.Run) { runUnprivCases(r, "") }

func runUnprivCases(r *evid.Run, single string) {
	dir := scratch.Dir("unpriv")
	defer scratch.Remove(dir)
	// the child needs to reach its scratch directory
	for d := dir; d != "/" && d != "."; d = filepath.Dir(d) {
		os.Chmod(d, 0755)
	}
	os.Chown(dir, 1000, 1000)
	self, _ := os.Executable()
	cmd := exec.Command(self, "child", "c01u", dir)
	if single != "" {
		cmd = exec.Command(self, "child", "c01u", dir, single)
	}
	cmd.SysProcAttr = &syscall.SysProcAttr{Credential: &syscall.Credential{Uid: 1000, Gid: 1000}}
	cmd.Env = append(os.Environ(), "HOME="+dir, "TMPDIR="+dir)
	var stderr strings.Builder
	cmd.Stderr = &stderr
	b, err := cmd.Output()
	dec := json.NewDecoder(strings.NewReader(string(b)))
	total := int64(0)
	for {
		var o c01uOut
		if dec.Decode(&o) != nil {
			break
		}
		total += o.Evals
		if o.Key != "" {
			r.Violate("unprivileged:"+o.Key, "receiver running as uid 1000: "+o.Case.String()+": "+o.Msg, o.Case)
		}
	}
	if err != nil {
		r.Violate("infra", "unprivileged child: "+err.Error()+": "+firstLine(stderr.String()), nil)
		r.Exhaustive = false
	}
	r.Evaluations.Add(total)
	r.Add("unprivileged_receiver_cases", total)
}

func replayC01(raw json.RawMessage) string {
	var c SyncCase
	if err := json.Unmarshal(raw, &c); err != nil {
		return "bad case: " + err.Error()
	}
	if c.Unpriv {
		r := evid.New("C01", "replay")
		runUnprivCases(r, string(raw))
		if p := r.Export(); len(p.Viol) > 0 {
			return p.Viol[0].Key + ": " + p.Viol[0].Msg
		}
		return ""
	}
	key, msg, _ := judgeC01(c)
	if key == "" {
		return ""
	}
	return key + ": " + msg
}

// judgeC01 is judgeC01Raw with a panic of the code under test turned into a verdict.
func judgeC01(c SyncCase) (k, m string, o *SyncObs) {
	defer func() {
		if r := recover(); r != nil {
			k, m, o = "panic", fmt.Sprintf("the code under test panicked: %v", r), nil
		}
	}()
	return judgeC01Raw(c)
}
