// Package evid collects what a check run covered, classifies violations against
// the committed known-findings file, writes replay files and the evidence JSON.
package evid

import (
	"crypto/sha256"
	"encoding/hex"
	"encoding/json"
	"fmt"
	"hash/fnv"
	"os"
	"path/filepath"
	"sort"
	"strconv"
	"sync"
	"sync/atomic"
	"time"
)

// Violation is one counter-example. Key classifies it for the known-findings
// file: a violation whose Key is not listed there (status "known") is reported.
type Violation struct {
	Key  string `json:"key"`
	Msg  string `json:"msg"`
	Case any    `json:"case"`
}

type Run struct {
	Prop  string
	Tier  string
	Seed  int64
	Start time.Time
	Root  string // /verif

	Evaluations atomic.Int64
	Transitions atomic.Int64
	Traces      atomic.Int64

	mu         sync.Mutex
	states     map[uint64]struct{}
	nontrivial map[uint64]struct{}
	outcomes   map[string]int
	samples    []any
	viol       []Violation
	violCount  map[string]int
	Extra      map[string]any
	Rule       string
	Exhaustive bool
	Assume     []string
	Technique  string
	MaxSamples int
}

func VerifRoot() string {
	if r := os.Getenv("VERIF_ROOT"); r != "" {
		return r
	}
	return "/verif"
}

func New(prop, tier string) *Run {
	seed, _ := strconv.ParseInt(os.Getenv("VERIF_SEED"), 10, 64)
	return &Run{Prop: prop, Tier: tier, Seed: seed, Start: time.Now(), Root: VerifRoot(),
		states: map[uint64]struct{}{}, nontrivial: map[uint64]struct{}{}, outcomes: map[string]int{},
		violCount: map[string]int{}, Extra: map[string]any{}, Exhaustive: true, MaxSamples: 6}
}

func H(s string) uint64 { h := fnv.New64a(); h.Write([]byte(s)); return h.Sum64() }

// State records a distinct explored state / case fingerprint.
func (r *Run) State(fp string) { r.StateH(H(fp)) }
func (r *Run) StateH(h uint64) {
	r.mu.Lock()
	r.states[h] = struct{}{}
	r.mu.Unlock()
}

// Nontrivial records a distinct case that is non-trivial by the check's rule.
func (r *Run) Nontrivial(fp string) {
	h := H(fp)
	r.mu.Lock()
	r.nontrivial[h] = struct{}{}
	r.mu.Unlock()
}

func (r *Run) Outcome(o string) {
	r.mu.Lock()
	r.outcomes[o]++
	r.mu.Unlock()
}

func (r *Run) Sample(s any) {
	r.mu.Lock()
	if len(r.samples) < r.MaxSamples {
		r.samples = append(r.samples, s)
	}
	r.mu.Unlock()
}

func (r *Run) Add(key string, n int64) {
	r.mu.Lock()
	v, _ := r.Extra[key].(int64)
	r.Extra[key] = v + n
	r.mu.Unlock()
}

func (r *Run) Set(key string, v any) {
	r.mu.Lock()
	r.Extra[key] = v
	r.mu.Unlock()
}

// Violate records a counter-example; at most 5 full cases are kept per key.
func (r *Run) Violate(key, msg string, c any) {
	r.mu.Lock()
	r.violCount[key]++
	if r.violCount[key] <= 5 {
		r.viol = append(r.viol, Violation{Key: key, Msg: msg, Case: c})
	}
	r.mu.Unlock()
}

func (r *Run) NumViolations() int {
	r.mu.Lock()
	defer r.mu.Unlock()
	n := 0
	for _, c := range r.violCount {
		n += c
	}
	return n
}

// Partial is the mergeable form used by worker processes.
type Partial struct {
	Evaluations int64          `json:"ev"`
	Transitions int64          `json:"tr"`
	Traces      int64          `json:"tc"`
	States      []uint64       `json:"st"`
	Nontrivial  []uint64       `json:"nt"`
	Outcomes    map[string]int `json:"oc"`
	Samples     []any          `json:"sa"`
	Viol        []Violation    `json:"vi"`
	ViolCount   map[string]int `json:"vc"`
	Extra       map[string]any `json:"ex"`
	NotExh      bool           `json:"ne"`
	WallS       float64        `json:"wall_s"`
}

func (r *Run) Export() *Partial {
	r.mu.Lock()
	defer r.mu.Unlock()
	p := &Partial{Evaluations: r.Evaluations.Load(), Transitions: r.Transitions.Load(), Traces: r.Traces.Load(),
		Outcomes: r.outcomes, Samples: r.samples, Viol: r.viol, ViolCount: r.violCount, Extra: r.Extra, NotExh: !r.Exhaustive, WallS: time.Since(r.Start).Seconds()}
	for h := range r.states {
		p.States = append(p.States, h)
	}
	for h := range r.nontrivial {
		p.Nontrivial = append(p.Nontrivial, h)
	}
	return p
}

// AddWall counts the wall time of another part of the same check (run before this one) into the reported time.
func (r *Run) AddWall(sec float64) { r.Start = r.Start.Add(-time.Duration(sec * float64(time.Second))) }

func (r *Run) Merge(p *Partial) {
	r.Evaluations.Add(p.Evaluations)
	r.Transitions.Add(p.Transitions)
	r.Traces.Add(p.Traces)
	r.mu.Lock()
	defer r.mu.Unlock()
	for _, h := range p.States {
		r.states[h] = struct{}{}
	}
	for _, h := range p.Nontrivial {
		r.nontrivial[h] = struct{}{}
	}
	for k, v := range p.Outcomes {
		r.outcomes[k] += v
	}
	for _, s := range p.Samples {
		if len(r.samples) < r.MaxSamples {
			r.samples = append(r.samples, s)
		}
	}
	for k, c := range p.ViolCount {
		r.violCount[k] += c
	}
	for _, v := range p.Viol {
		n := 0
		for _, w := range r.viol {
			if w.Key == v.Key {
				n++
			}
		}
		if n < 5 {
			r.viol = append(r.viol, v)
		}
	}
	for k, v := range p.Extra {
		switch x := v.(type) {
		case float64:
			old, _ := r.Extra[k].(int64)
			r.Extra[k] = old + int64(x)
		case int64:
			old, _ := r.Extra[k].(int64)
			r.Extra[k] = old + x
		default:
			if _, ok := r.Extra[k]; !ok {
				r.Extra[k] = v
			}
		}
	}
	if p.NotExh {
		r.Exhaustive = false
	}
}

type Finding struct {
	Property string `json:"property"`
	Key      string `json:"key"`
	Status   string `json:"status"` // known | fixed
	Commit   string `json:"commit,omitempty"`
	Witness  string `json:"witness,omitempty"`
	Text     string `json:"text"`
}

func loadFindings(root string) []Finding {
	b, err := os.ReadFile(filepath.Join(root, "known_findings.json"))
	if err != nil {
		return nil
	}
	var f struct {
		Findings []Finding `json:"findings"`
	}
	if err := json.Unmarshal(b, &f); err != nil {
		fmt.Fprintf(os.Stderr, "known_findings.json: %v\n", err)
		os.Exit(3)
	}
	return f.Findings
}

// Finish writes replay files and the evidence file, prints the interface lines
// and returns the process exit code.
func (r *Run) Finish() int {
	r.mu.Lock()
	defer r.mu.Unlock()
	known := map[string]Finding{}
	for _, f := range loadFindings(r.Root) {
		if f.Property == r.Prop && f.Status == "known" {
			known[f.Key] = f
		}
	}
	knownHit := map[string]int{}
	newViol := 0
	keys := make([]string, 0, len(r.violCount))
	for k := range r.violCount {
		keys = append(keys, k)
	}
	sort.Strings(keys)
	repDir := filepath.Join(r.Root, "replays")
	var lines []string
	for _, k := range keys {
		if f, ok := known[k]; ok {
			knownHit[k] = r.violCount[k]
			lines = append(lines, fmt.Sprintf("KNOWN-FINDING: property=%s key=%s count=%d %s", r.Prop, k, r.violCount[k], f.Text))
			continue
		}
		newViol += r.violCount[k]
		first := true
		for _, v := range r.viol {
			if v.Key != k {
				continue
			}
			os.MkdirAll(repDir, 0755)
			body, _ := json.MarshalIndent(map[string]any{"property": r.Prop, "key": v.Key, "msg": v.Msg, "case": v.Case}, "", " ")
			sum := sha256.Sum256(body)
			p := filepath.Join(repDir, fmt.Sprintf("%s-%s-%s.json", r.Prop, sanitize(k), hex.EncodeToString(sum[:4])))
			os.WriteFile(p, body, 0644)
			if first {
				lines = append(lines, fmt.Sprintf("VIOLATION property=%s replay=%s", r.Prop, p))
				lines = append(lines, fmt.Sprintf("  key=%s count=%d: %s", k, r.violCount[k], trunc(v.Msg, 600)))
				first = false
			}
		}
	}
	cov := map[string]any{}
	for k, v := range r.Extra {
		cov[k] = v
	}
	ev := r.Evaluations.Load()
	st := int64(len(r.states))
	if st == 0 {
		st = ev
	}
	tr := r.Transitions.Load()
	if tr == 0 {
		tr = ev
	}
	tc := r.Traces.Load()
	if tc == 0 {
		tc = ev
	}
	cov["evaluations"] = ev
	cov["states"] = st
	cov["transitions"] = tr
	cov["traces_validated_against_impl"] = tc
	cov["distinct_nontrivial"] = len(r.nontrivial)
	cov["rule"] = r.Rule
	cov["exhaustive"] = r.Exhaustive
	if len(r.outcomes) > 0 {
		cov["distinct_outcomes"] = len(r.outcomes)
		if len(r.outcomes) <= 12 {
			cov["outcomes"] = r.outcomes
		}
	}
	samples := r.samples
	if len(samples) == 0 {
		samples = []any{"(no sample recorded)"}
	}
	cov["samples"] = samples
	cov["known_findings_hit"] = knownHit
	if r.Technique != "" {
		cov["technique"] = r.Technique
	}
	e := map[string]any{
		"property_id": r.Prop, "tier": r.Tier, "seed": r.Seed, "level": "model_checking",
		"coverage": cov, "assumptions": r.Assume, "wall_s": time.Since(r.Start).Seconds(), "violations": newViol,
	}
	if r.Assume == nil {
		e["assumptions"] = []string{}
	}
	b, _ := json.MarshalIndent(e, "", " ")
	os.MkdirAll(filepath.Join(r.Root, "evidence"), 0755)
	if err := os.WriteFile(filepath.Join(r.Root, "evidence", r.Prop+".json"), append(b, '\n'), 0644); err != nil {
		fmt.Fprintln(os.Stderr, "evidence:", err)
		return 3
	}
	for _, l := range lines {
		fmt.Println(l)
	}
	fmt.Printf("%s %s: evaluations=%d states=%d transitions=%d nontrivial=%d exhaustive=%v violations=%d known=%d wall=%.1fs\n",
		r.Prop, r.Tier, ev, st, tr, len(r.nontrivial), r.Exhaustive, newViol, len(knownHit), time.Since(r.Start).Seconds())
	if newViol > 0 {
		return 1
	}
	return 0
}

func sanitize(s string) string {
	b := []byte(s)
	for i, c := range b {
		if !(c >= 'a' && c <= 'z' || c >= 'A' && c <= 'Z' || c >= '0' && c <= '9' || c == '-' || c == '_') {
			b[i] = '_'
		}
	}
	if len(b) > 40 {
		b = b[:40]
	}
	return string(b)
}

func trunc(s string, n int) string {
	if len(s) > n {
		return s[:n] + "…"
	}
	return s
}
