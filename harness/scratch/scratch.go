// Package scratch hands out throw-away directories below one per-run root.
package scratch

import (
	"fmt"
	"os"
	"path/filepath"
	"sync/atomic"
)

var root string
var seq atomic.Int64

// Root returns the per-process scratch root ($VERIF_SCRATCH/p<pid>, on tmpfs when
// run.sh found one). Remove it with Cleanup.
func Root() string {
	if root != "" {
		return root
	}
	base := os.Getenv("VERIF_SCRATCH")
	if base == "" {
		base = "/dev/shm"
		if fi, err := os.Stat(base); err != nil || !fi.IsDir() {
			base = os.TempDir()
		}
		base = filepath.Join(base, fmt.Sprintf("verif.%d", os.Getpid()))
	}
	root = filepath.Join(base, fmt.Sprintf("p%d", os.Getpid()))
	if err := os.MkdirAll(root, 0755); err != nil {
		panic(err)
	}
	return root
}

// Dir creates a fresh empty directory.
func Dir(tag string) string {
	d := filepath.Join(Root(), fmt.Sprintf("%s%d", tag, seq.Add(1)))
	if err := os.MkdirAll(d, 0755); err != nil {
		panic(err)
	}
	return d
}

func Remove(d string) {
	// make everything removable (mode-0 dirs)
	filepath.Walk(d, func(p string, fi os.FileInfo, err error) error {
		if err == nil && fi.IsDir() && fi.Mode().Perm()&0700 != 0700 {
			os.Chmod(p, 0700)
		}
		return nil
	})
	os.RemoveAll(d)
}

func Cleanup() {
	if root != "" {
		Remove(root)
		if os.Getenv("VERIF_SCRATCH") == "" {
			os.Remove(filepath.Dir(root))
		}
	}
}

// DiskDir creates a fresh directory on a second file system ($VERIF_DISK_SCRATCH, provided and removed by run.sh),
// for cases that need source and destination on different file systems. "" when there is none.
func DiskDir(tag string) string {
	base := os.Getenv("VERIF_DISK_SCRATCH")
	if base == "" {
		return ""
	}
	d := filepath.Join(base, fmt.Sprintf("p%d-%s%d", os.Getpid(), tag, seq.Add(1)))
	if err := os.MkdirAll(d, 0755); err != nil {
		return ""
	}
	return d
}
