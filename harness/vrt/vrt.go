//go:build verifrt

// Package vrt is the controlled scheduler: instrumented code and harness-owned
// code park at Points/Gates; the controller (the root goroutine of a synctest
// bubble) waits for quiescence, lists the enabled parked threads and releases
// exactly one per step.
package vrt

import (
	"fmt"
	"runtime"
	"sort"
	"strings"
	"sync"
	"sync/atomic"
	"testing/synctest"
)

type parked struct {
	gid, pgid uint64
	desc      string
	enabled   func() bool
	ch        chan struct{}
}

type Thread struct {
	Tid  int
	Gid  uint64
	Role string // first descriptor the thread parked with
}

// Option is one thing the controller may do next.
type Option struct {
	Tid  int
	Desc string
	Alt  int // 1 = release with the alternative select poll order
}

func (o Option) String() string {
	if o.Alt != 0 {
		return fmt.Sprintf("T%d %s ~alt", o.Tid, o.Desc)
	}
	return fmt.Sprintf("T%d %s", o.Tid, o.Desc)
}

type Ctl struct {
	mu       sync.Mutex
	parked   map[uint64]*parked
	tids     map[uint64]int
	Threads  []*Thread
	FsPoints bool
	// SelectAlts: offer the alternative poll order at multi-case selects.
	SelectAlts bool
}

var cur atomic.Pointer[Ctl]

func NewCtl() *Ctl {
	return &Ctl{parked: map[uint64]*parked{}, tids: map[uint64]int{}, SelectAlts: true}
}

func (c *Ctl) Activate()   { cur.Store(c); runtime.VerifSetSelectMode(1) }
func (c *Ctl) Deactivate() { cur.Store(nil); runtime.VerifSetSelectMode(0) }

func Active() bool { return cur.Load() != nil }

// Point is called by instrumented code in front of every synchronisation
// operation (and, when enabled, every file-system call).
func Point(desc string) {
	c := cur.Load()
	if c == nil {
		return
	}
	if !c.FsPoints && strings.HasPrefix(desc, "fsop") {
		return
	}
	c.park(desc, nil)
}

// Gate is a point with an enabledness predicate, evaluated by the controller at
// quiescent states only.
func Gate(desc string, enabled func() bool) {
	c := cur.Load()
	if c == nil {
		return
	}
	c.park(desc, enabled)
}

func (c *Ctl) park(desc string, enabled func() bool) {
	p := &parked{gid: runtime.VerifGoid(), pgid: runtime.VerifParentGoid(), desc: desc, enabled: enabled, ch: make(chan struct{})}
	c.mu.Lock()
	c.parked[p.gid] = p
	c.mu.Unlock()
	<-p.ch
}

// Quiesce waits until every goroutine of the bubble is durably blocked, names
// newly seen threads and returns the enabled options in ascending thread order.
func (c *Ctl) Quiesce() []Option {
	synctest.Wait()
	c.mu.Lock()
	defer c.mu.Unlock()
	var fresh []*parked
	for gid, p := range c.parked {
		if _, ok := c.tids[gid]; !ok {
			fresh = append(fresh, p)
		}
	}
	ptid := func(p *parked) int {
		if t, ok := c.tids[p.pgid]; ok {
			return t
		}
		return 1 << 30
	}
	sort.Slice(fresh, func(i, j int) bool {
		a, b := ptid(fresh[i]), ptid(fresh[j])
		if a != b {
			return a < b
		}
		return fresh[i].gid < fresh[j].gid
	})
	for _, p := range fresh {
		t := &Thread{Tid: len(c.Threads), Gid: p.gid, Role: p.desc}
		c.tids[p.gid] = t.Tid
		c.Threads = append(c.Threads, t)
	}
	var opts []Option
	for gid, p := range c.parked {
		if p.enabled != nil && !p.enabled() {
			continue
		}
		tid := c.tids[gid]
		opts = append(opts, Option{Tid: tid, Desc: p.desc})
		if c.SelectAlts && strings.HasPrefix(p.desc, "select2") {
			opts = append(opts, Option{Tid: tid, Desc: p.desc, Alt: 1})
		}
	}
	sort.Slice(opts, func(i, j int) bool {
		if opts[i].Tid != opts[j].Tid {
			return opts[i].Tid < opts[j].Tid
		}
		return opts[i].Alt < opts[j].Alt
	})
	return opts
}

// Parked lists all parked threads (enabled or not) as "T<tid> <desc>".
func (c *Ctl) Parked() []string {
	c.mu.Lock()
	defer c.mu.Unlock()
	var out []string
	for gid, p := range c.parked {
		out = append(out, fmt.Sprintf("T%d %s", c.tids[gid], p.desc))
	}
	sort.Strings(out)
	return out
}

func (c *Ctl) NumParked() int {
	c.mu.Lock()
	defer c.mu.Unlock()
	return len(c.parked)
}

// Release lets one parked thread continue.
func (c *Ctl) Release(o Option) {
	c.mu.Lock()
	var p *parked
	for gid, q := range c.parked {
		if c.tids[gid] == o.Tid {
			p = q
			delete(c.parked, gid)
			break
		}
	}
	c.mu.Unlock()
	if p == nil {
		panic(fmt.Sprintf("vrt: release of thread T%d that is not parked", o.Tid))
	}
	if o.Alt != 0 {
		runtime.VerifSetSelectMode(2)
	} else {
		runtime.VerifSetSelectMode(1)
	}
	close(p.ch)
}

func (c *Ctl) Role(tid int) string {
	if tid < len(c.Threads) {
		return c.Threads[tid].Role
	}
	return "?"
}
