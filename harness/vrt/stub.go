//go:build !verifrt

// Package vrt: stub used when the harness is built without the runtime overlay
// (plain binary, go vet); points are no-ops.
package vrt

func Point(desc string)                     {}
func Gate(desc string, enabled func() bool) {}
func Active() bool                          { return false }
