// Package xfer runs a free-running Send/Receive pair over an in-process stream
// that marshals every packet with the real codec and logs it.
package xfer

import (
	"context"
	"crypto/sha256"
	"encoding/hex"
	"errors"
	"fmt"
	"hash"
	"io"
	"os"
	"sort"
	"sync"
	"sync/atomic"
	"time"

	"github.com/opencontainers/go-digest"
	"github.com/tonistiigi/fsutil"
	"github.com/tonistiigi/fsutil/types"
)

type Pkt struct {
	Dir  string // "S>R" or "R>S"
	Type types.Packet_PacketType
	ID   uint32
	Stat *types.Stat
	Len  int
	Data []byte
}

func (p Pkt) String() string {
	switch p.Type {
	case types.PACKET_STAT:
		if p.Stat == nil {
			return p.Dir + " STAT <end>"
		}
		return fmt.Sprintf("%s STAT %s mode=%o link=%q", p.Dir, p.Stat.Path, p.Stat.Mode, p.Stat.Linkname)
	case types.PACKET_REQ:
		return fmt.Sprintf("%s REQ %d", p.Dir, p.ID)
	case types.PACKET_DATA:
		return fmt.Sprintf("%s DATA %d len=%d", p.Dir, p.ID, p.Len)
	case types.PACKET_FIN:
		return p.Dir + " FIN"
	case types.PACKET_ERR:
		return fmt.Sprintf("%s ERR %q", p.Dir, p.Data)
	}
	return p.Dir + " ?"
}

type Log struct {
	mu       sync.Mutex
	Pkts     []Pkt
	KeepData bool
}

func (l *Log) add(dir string, raw []byte) {
	var p types.Packet
	if err := p.UnmarshalVT(raw); err != nil {
		return
	}
	e := Pkt{Dir: dir, Type: p.Type, ID: p.ID, Stat: p.Stat, Len: len(p.Data)}
	if l.KeepData || p.Type == types.PACKET_ERR {
		e.Data = p.Data
	}
	l.mu.Lock()
	l.Pkts = append(l.Pkts, e)
	l.mu.Unlock()
}

// Stats returns the announced STATs (without the end marker).
func (l *Log) Stats() []*types.Stat {
	var out []*types.Stat
	for _, p := range l.Pkts {
		if p.Dir == "S>R" && p.Type == types.PACKET_STAT && p.Stat != nil {
			out = append(out, p.Stat)
		}
	}
	return out
}

// Reqs returns the requested ids in request order.
func (l *Log) Reqs() []uint32 {
	var out []uint32
	for _, p := range l.Pkts {
		if p.Dir == "R>S" && p.Type == types.PACKET_REQ {
			out = append(out, p.ID)
		}
	}
	return out
}

func (l *Log) Strings() []string {
	out := make([]string, len(l.Pkts))
	for i, p := range l.Pkts {
		out[i] = p.String()
	}
	return out
}

// Fault makes the K-th call (0-based) of one kind on one end fail: End is "S.send",
// "S.recv", "R.send" or "R.recv". The zero value injects nothing.
type Fault struct {
	End string `json:"end,omitempty"`
	K   int    `json:"k,omitempty"`
}

var ErrInjected = errors.New("xfer: injected stream failure")

type Conn struct {
	failSend, failRecv int // call index that fails, -1 = none
	broke              func()
	nSend, nRecv       atomic.Int64
	ctx                context.Context
	name               string
	in                 chan []byte
	out                chan []byte
	log                *Log
	once               sync.Once
}

func Pair(ctx context.Context, capacity int, log *Log) (s, r *Conn) {
	c1 := make(chan []byte, capacity)
	c2 := make(chan []byte, capacity)
	return &Conn{ctx: ctx, name: "S>R", in: c2, out: c1, log: log, failSend: -1, failRecv: -1}, &Conn{ctx: ctx, name: "R>S", in: c1, out: c2, log: log, failSend: -1, failRecv: -1}
}

func (c *Conn) Context() context.Context { return c.ctx }

func (c *Conn) CloseSend() { c.once.Do(func() { close(c.out) }) }

func (c *Conn) SendMsg(m interface{}) (err error) {
	p, ok := m.(*types.Packet)
	if !ok {
		return fmt.Errorf("unexpected message %T", m)
	}
	raw, err := p.MarshalVT()
	if err != nil {
		return err
	}
	if int(c.nSend.Add(1))-1 == c.failSend {
		c.broke() // a stream call that failed means the stream is gone, for both ends
		return ErrInjected
	}
	defer func() {
		if r := recover(); r != nil {
			err = io.ErrClosedPipe
		}
	}()
	select {
	case <-c.ctx.Done():
		return c.ctx.Err()
	case c.out <- append([]byte{}, raw...): // the receiver owns (and later overwrites) what it is handed
		if c.log != nil {
			c.log.add(c.name, raw)
		}
		return nil
	}
}

func (c *Conn) RecvMsg(m interface{}) error {
	p, ok := m.(*types.Packet)
	if !ok {
		return fmt.Errorf("unexpected message %T", m)
	}
	if int(c.nRecv.Add(1))-1 == c.failRecv {
		c.broke()
		return ErrInjected
	}
	select {
	case <-c.ctx.Done():
		return c.ctx.Err()
	case raw, ok := <-c.in:
		if !ok {
			return io.EOF
		}
		err := p.Unmarshal(raw)
		for i := range raw { // the receive buffer is reused once RecvMsg returns
			raw[i] = 0xaa
		}
		return err
	}
}

type Result struct {
	SendErr, RecvErr error
	Log              *Log
	TimedOut         bool
}

func (r Result) OK() bool { return r.SendErr == nil && r.RecvErr == nil && !r.TimedOut }

// Run performs one transfer. The transport closes a direction when the call
// that writes to it returns (as the repository's own tests and gRPC do).
func Run(src fsutil.FS, dest string, opt fsutil.ReceiveOpt, progress func(int, bool)) Result {
	return RunFault(src, dest, opt, progress, Fault{})
}

// RunFault is Run with one injected stream failure.
func RunFault(src fsutil.FS, dest string, opt fsutil.ReceiveOpt, progress func(int, bool), f Fault) Result {
	ctx, cancel := context.WithCancel(context.Background())
	defer cancel()
	log := &Log{}
	// the stream has a context of its own: a failed stream call breaks the stream, it does not cancel the callers
	sctx, scancel := context.WithCancel(ctx)
	defer scancel()
	s, r := Pair(sctx, 32, log)
	s.broke, r.broke = scancel, scancel
	switch f.End {
	case "S.send":
		s.failSend = f.K
	case "S.recv":
		s.failRecv = f.K
	case "R.send":
		r.failSend = f.K
	case "R.recv":
		r.failRecv = f.K
	}
	res := Result{Log: log}
	var wg sync.WaitGroup
	wg.Add(2)
	go func() {
		defer wg.Done()
		defer s.CloseSend()
		res.SendErr = fsutil.Send(ctx, s, src, progress)
		if f.End != "" && res.SendErr != nil {
			scancel() // an aborted call tears the stream down, as a transport does
		}
	}()
	go func() {
		defer wg.Done()
		defer r.CloseSend()
		res.RecvErr = fsutil.Receive(ctx, r, dest, opt)
		if f.End != "" && res.RecvErr != nil {
			scancel()
		}
	}()
	done := make(chan struct{})
	go func() { wg.Wait(); close(done) }()
	select {
	case <-done:
	case <-time.After(180 * time.Second):
		res.TimedOut = true
		cancel()
		<-done
	}
	return res
}

// Note is one change notification.
type Note struct {
	Kind   fsutil.ChangeKind
	Path   string
	Stat   *types.Stat
	Digest string
}

func (n Note) String() string {
	if n.Stat == nil {
		return fmt.Sprintf("%s %s", n.Kind, n.Path)
	}
	return fmt.Sprintf("%s %s mode=%o %s", n.Kind, n.Path, n.Stat.Mode, n.Digest)
}

type Notes struct {
	mu   sync.Mutex
	List []Note
}

func digestOf(fi os.FileInfo) string {
	if d, ok := fi.(interface{ Digest() digest.Digest }); ok {
		return d.Digest().String()
	}
	return ""
}

func (ns *Notes) Handle(kind fsutil.ChangeKind, p string, fi os.FileInfo, err error) error {
	if err != nil {
		return err
	}
	n := Note{Kind: kind, Path: p}
	if fi != nil {
		if st, ok := fi.Sys().(*types.Stat); ok {
			n.Stat = st.Clone()
		}
		n.Digest = digestOf(fi)
	}
	ns.mu.Lock()
	ns.List = append(ns.List, n)
	ns.mu.Unlock()
	return nil
}

func (ns *Notes) Sorted() []string {
	out := make([]string, len(ns.List))
	for i, n := range ns.List {
		out[i] = n.String()
	}
	sort.Strings(out)
	return out
}

// Hasher is the caller-side content hasher used by the checks: the header is a
// canonical rendering of the stat as sent.
func Hasher(st *types.Stat) (hash.Hash, error) {
	h := sha256.New()
	h.Write(Header(st))
	return h, nil
}

func Header(st *types.Stat) []byte {
	keys := make([]string, 0, len(st.Xattrs))
	for k := range st.Xattrs {
		keys = append(keys, k)
	}
	sort.Strings(keys)
	s := fmt.Sprintf("%s|%o|%d|%d|%d|%d|%q|%d|%d", st.Path, st.Mode, st.Uid, st.Gid, st.Size, st.ModTime, st.Linkname, st.Devmajor, st.Devminor)
	for _, k := range keys {
		s += fmt.Sprintf("|%s=%x", k, st.Xattrs[k])
	}
	return []byte(s)
}

func DigestFor(st *types.Stat, data []byte) string {
	h := sha256.New()
	h.Write(Header(st))
	h.Write(data)
	return "sha256:" + hex.EncodeToString(h.Sum(nil))
}
