//go:build verifrt

package sched

import (
	"fmt"
	"os"
	"strings"
	"testing"

	"verif/evid"
	"verif/fsmodel"
	"verif/memfs"
)

// Schedule part of C19: metadata-only receives of trees with hard links, explored over schedules. What is
// selected, requested and linked must not depend on whether a link's STAT is read before or after the
// content of its link source has been asked for.
func init() {
	impls["C19"] = &checkImpl{Drive: driveC19, RunJob: func(t *testing.T, j *Job, r *evid.Run) *JobRes { return runXferJob(t, j, r, oracleC19) }}
	extraTrees["c19hl"] = func() fsmodel.Tree {
		t := fsmodel.Tree{f("a", 1, 6, t1), d("d", t1+1), f("d/h", 1, 6, t1), f("q", 2, 40000, t1+2), f("z", 1, 6, t1)}
		t[0].HL, t[2].HL, t[4].HL = 1, 1, 1
		return t
	}
	// a dirty destination for the hard-link tree: the link source exists with other bytes (it is replaced), a later
	// member exists as a file of its own, one member is missing
	extraTrees["c19hl-dirty"] = func() fsmodel.Tree {
		return fsmodel.Tree{f("a", 9, 6, t1+50), d("d", t1+1), f("q", 2, 40000, t1+2), f("z", 8, 6, t1), f("stale", 7, 3, t1)}
	}
	// selected files below unselected directories, several such directories in a row
	extraTrees["c19nest"] = func() fsmodel.Tree {
		return fsmodel.Tree{f("0first", 3, 4, t1), d("a", t1+1), f("a/f", 4, 5, t1+2), d("b", t1+3), d("b/c", t1+4), f("b/c/g", 5, 6, t1+5), d("e", t1+6), f("e/h", 6, 7, t1+7)}
	}
}

func oracleC19(j *Job, sc Scn, x *Exec, res *XferRes, src, dst fsmodel.Tree, r *evid.Run) []Viol {
	var v []Viol
	if res.Hang || res.Stuck {
		v = append(v, Viol{"deadlock", fmt.Sprintf("fault-free metadata-only transfer blocked (parked: %v)", res.Parked)})
	}
	if res.SendErr != "" || res.RecvErr != "" {
		return append(v, Viol{"transfer-failed", fmt.Sprintf("fault-free metadata-only transfer failed under this schedule: send=%q recv=%q", res.SendErr, res.RecvErr)})
	}
	if res.DestErr != "" {
		return append(v, Viol{"dest-unreadable", res.DestErr})
	}
	sel := map[string]bool{}
	for _, p := range sc.Meta {
		sel[p] = true
	}
	need := map[string]bool{}
	for p := range sel {
		for q := p; q != ""; {
			need[q] = true
			if i := strings.LastIndexByte(q, '/'); i >= 0 {
				q = q[:i]
			} else {
				q = ""
			}
		}
	}
	var want fsmodel.Tree
	cnt := map[int]int{}
	sorted := src.Clone()
	sorted.Sort()
	for _, n := range sorted {
		if need[n.Path] {
			want = append(want, n)
			cnt[n.HL]++
		}
	}
	for i := range want {
		if want[i].HL > 0 && cnt[want[i].HL] < 2 {
			want[i].HL = 0
		}
	}
	got := stripMeta(res.Dest)
	if d := fsmodel.Diff(want, got, destMask(dst)); len(d) > 0 {
		v = append(v, Viol{"sched:dest-differs", "destination is not exactly the selected entries (hard links included) plus their ancestors: " + strings.Join(head(d, 5), " | ")})
	}
	stats := memfs.Stats(sorted)
	for _, id := range res.Reqs {
		if int(id) >= len(stats) {
			v = append(v, Viol{"sched:req-unknown-id", fmt.Sprintf("REQ %d of %d", id, len(stats))})
			continue
		}
		st := stats[id]
		if !sel[st.Path] || st.Mode&uint32(os.ModeType) != 0 || st.Linkname != "" {
			v = append(v, Viol{"sched:req-unselected", fmt.Sprintf("content requested for id %d (%s, link name %q): not a selected regular file of its own", id, st.Path, st.Linkname)})
		}
	}
	out := metaOutcome(res)
	r.Outcome(fmt.Sprintf("%v#%x", sc.Meta, evid.H(out)))
	if j.Expect != "" && out != j.Expect {
		v = append(v, Viol{"sched:outcome-differs", fmt.Sprintf("outcome differs from the zero-deviation schedule:\n got  %s\n want %s", out, j.Expect)})
	}
	return v
}

// metaOutcome: destination without the listing file (its mtime is the wall clock), and the requests.
func metaOutcome(res *XferRes) string {
	return fmt.Sprintf("send=%q recv=%q dest=%s reqs=%s", res.SendErr, res.RecvErr, stripMeta(res.Dest).String(), reqsString(res.Reqs))
}

func driveC19(p *Pool, r *evid.Run) {
	r.Technique = "stateless model checking of metadata-only Send/Receive under the controlled scheduler (delay-bounded DFS around base policies incl. one slow spawn site at a time)"
	r.Rule = "schedule part: one evaluation = one complete execution"
	r.Assume = []string{"schedule part: interleavings at synchronisation-operation granularity"}
	sels := [][]string{{"a", "d/h"}, {"a", "z"}, {"a", "d", "d/h", "q", "z"}, {"a", "q"}, {"d"}, {}}
	bound := 1
	if r.Tier == "thorough" {
		bound = 2
	}
	mk := func(pol string, cp int, sel []string) Scn {
		return Scn{Kind: "xfer", Src: "c19hl", Dst: "empty", Cap: cp, Policy: pol, SelectAlts: true, MetaOn: true, Meta: sel}
	}
	probe := exploreAll(p, r, "C19", []Scn{mk("rr", 64, sels[2])}, 0, 0)
	basic := []string{"run", "rr", "recv", "send"}
	pols := append([]string{}, basic...)
	if len(probe) > 0 && probe[0] != nil {
		for _, role := range probe[0].Roles {
			pols = append(pols, "slow:"+role)
		}
	}
	// the deepest bound around the four basic policies; the slow-site policies are explored at bound 1 in both tiers
	var scns, slowScns []Scn
	add := func(sc Scn) {
		if strings.HasPrefix(sc.Policy, "slow:") {
			slowScns = append(slowScns, sc)
		} else {
			scns = append(scns, sc)
		}
	}
	for _, sel := range sels {
		for _, pol := range pols {
			for _, cp := range []int{1, 64} {
				add(mk(pol, cp, sel))
			}
		}
	}
	for _, sel := range [][]string{{"a/f", "b/c/g", "e/h"}, {"a/f", "e/h"}, {"b/c/g"}, {"0first", "a/f", "b/c/g"}, {"b/c"}} {
		for _, pol := range pols {
			for _, cp := range []int{1, 64} {
				sc := mk(pol, cp, sel)
				sc.Src = "c19nest"
				add(sc)
			}
		}
	}
	exploreAll(p, r, "C19", scns, bound, 0)
	exploreAll(p, r, "C19", slowScns, 1, 0)
	r.Add("schedule_scenarios", int64(len(scns)+len(slowScns)))
	r.Set("schedule_completed_bound", bound)
}
