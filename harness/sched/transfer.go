//go:build verifrt

package sched

import (
	"context"
	"errors"
	"fmt"
	"hash"
	"io"
	"os"
	"sort"
	"strings"
	"sync"
	"testing"
	"testing/synctest"

	"github.com/tonistiigi/fsutil"
	"github.com/tonistiigi/fsutil/types"
	"verif/fsmodel"
	"verif/memfs"
	"verif/netsim"
	"verif/scratch"
	"verif/vrt"
	"verif/xfer"
)

// Fault is one injected fault.
//
//	S.send/S.recv/R.send/R.recv : the K-th call of that kind on that end fails
//	cancelS/cancelR/cancelB     : the context(s) are cancelled at quiescent point K
//	killR/killS                 : the process owning that end is killed at quiescent point K: its own stream calls
//	                              fail, the peer reads EOF after draining the queue and the peer's sends fail
//	break                       : the stream is torn down at quiescent point K
//	breakC                      : the same by cancelling the stream's own context: its calls fail with context.Canceled
//	walk                        : the source walk fails at entry K
//	read                        : reading source file number K fails after J bytes
//	hasher/notify               : the K-th ContentHasher / NotifyHashed call fails
type Fault struct {
	Kind string `json:"kind,omitempty"`
	K    int    `json:"k,omitempty"`
	J    int    `json:"j,omitempty"`
}

// Scn describes one scenario completely (JSON: it travels to workers and into
// replay files).
type Scn struct {
	Kind       string `json:"kind"` // xfer | refrecv | refsend
	Src        string `json:"src"`
	Dst        string `json:"dst"`
	Cap        int    `json:"cap"`
	Policy     string `json:"policy"`
	FsPoints   bool   `json:"fspoints,omitempty"`
	SelectAlts bool   `json:"selectalts,omitempty"`
	Notify     bool   `json:"notify,omitempty"`
	Progress   bool   `json:"progress,omitempty"`
	Differ     int    `json:"differ,omitempty"`
	Fault      Fault  `json:"fault,omitempty"`
	Crash      bool   `json:"crash,omitempty"` // take crash snapshots and check recovery
	Script     []int  `json:"script,omitempty"`
	Chunk      []int  `json:"chunk,omitempty"`
	Variant    string `json:"variant,omitempty"`
	DiskSrc    bool   `json:"disksrc,omitempty"` // source is fsutil.NewFS over a real directory
	// MetaOn: metadata-only receive selecting exactly the paths in Meta
	MetaOn bool     `json:"metaon,omitempty"`
	Meta   []string `json:"meta,omitempty"`
	// PostYield: every successful SendMsg of the simulated stream is followed by a scheduling point before it
	// returns (the packet is under way while its sender has not yet resumed)
	PostYield bool `json:"postyield,omitempty"`
	// Rendezvous: the stream has no buffer at all (capacity 0): a send returns when the peer has taken the packet
	Rendezvous bool `json:"rendezvous,omitempty"`
}

func (sc Scn) String() string {
	s := fmt.Sprintf("%s %s->%s cap=%d policy=%s", sc.Kind, sc.Src, sc.Dst, sc.Cap, sc.Policy)
	if sc.Fault.Kind != "" {
		s += fmt.Sprintf(" fault=%s@%d", sc.Fault.Kind, sc.Fault.K)
		if sc.Fault.Kind == "read" {
			s += fmt.Sprintf("+%dB", sc.Fault.J)
		}
	}
	if len(sc.Script) > 0 {
		s += fmt.Sprintf(" script=%v", sc.Script)
	}
	if len(sc.Chunk) > 0 {
		s += fmt.Sprintf(" chunk=%v", sc.Chunk)
	}
	if sc.Variant != "" {
		s += " " + sc.Variant
	}
	if sc.PostYield {
		s += " late-returning-sends"
	}
	if sc.Rendezvous {
		s += " unbuffered-stream"
	}
	if sc.DiskSrc {
		s += " disk-source"
	}
	if sc.MetaOn {
		s += fmt.Sprintf(" metadata-only select=%v", sc.Meta)
	}
	return s
}

// XferRes is what one transfer execution produced.
type XferRes struct {
	SendDone, RecvDone bool
	SendErr, RecvErr   string
	Dest               fsmodel.Tree
	DestErr            string
	Reqs               []uint32
	Notes              []string
	Log                []string
	Stuck              bool // something was blocked before the stream was torn down
	Hang               bool // still blocked after forced teardown
	HangWho            string
	Overlaps           []string
	FinToS             bool
	ProgressBad        string
	Crashes            []fsmodel.Tree
	Parked             []string
	FaultHit           bool
	Counts             map[string]int // calls per kind in this execution
}

var errInjected = errors.New("injected fault")

// gatedHash makes the user's digest computation a scheduling point: whatever
// runs concurrently with the final Sum of a file can overtake it.
type gatedHash struct{ hash.Hash }

func (g gatedHash) Sum(b []byte) []byte {
	vrt.Gate("hasher.Sum", nil)
	return g.Hash.Sum(b)
}

type faultReader struct {
	r     io.Reader
	after int
	n     int
	hit   *bool
}

func (f *faultReader) Read(p []byte) (int, error) {
	if f.n >= f.after {
		*f.hit = true
		return 0, errInjected
	}
	if len(p) > f.after-f.n {
		p = p[:f.after-f.n]
	}
	n, err := f.r.Read(p)
	f.n += n
	return n, err
}

type readCloser struct {
	io.Reader
	io.Closer
}

func errstr(err error) string {
	if err == nil {
		return ""
	}
	return err.Error()
}

// xferBody builds the body of a plain Send<->Receive scenario.
func xferBody(sc Scn, src fsmodel.Tree, srcDir, destDir string, res *XferRes) Body {
	return func(t *testing.T, s *Stepper, x *Exec) {
		link := netsim.NewLink(sc.Cap)
		link.PostYield = sc.PostYield
		link.Rendezvous = sc.Rendezvous
		sctx, scancel := context.WithCancel(context.Background())
		rctx, rcancel := context.WithCancel(context.Background())
		defer scancel()
		defer rcancel()
		sEnd, rEnd := link.End("S", sctx), link.End("R", rctx)
		switch sc.Fault.Kind {
		case "S.send", "S.recv", "R.send", "R.recv":
			link.FailAt[sc.Fault.Kind] = sc.Fault.K
		}
		mfs := memfs.New(src)
		if sc.Fault.Kind == "walk" {
			mfs.WalkHook = func(i int, p string) error {
				if i == sc.Fault.K {
					res.FaultHit = true
					return fmt.Errorf("walk %s: %w", p, errInjected)
				}
				return nil
			}
		}
		if sc.Fault.Kind == "read" {
			files := []string{}
			for _, n := range src {
				if n.Kind == fsmodel.File {
					files = append(files, n.Path)
				}
			}
			mfs.OpenHook = func(p string, rc io.ReadCloser) (io.ReadCloser, error) {
				if sc.Fault.K < len(files) && files[sc.Fault.K] == p {
					return readCloser{&faultReader{r: rc, after: sc.Fault.J, hit: &res.FaultHit}, rc}, nil
				}
				return rc, nil
			}
		}
		var mu sync.Mutex
		notes := &xfer.Notes{}
		hcalls, ncalls := 0, 0
		opt := fsutil.ReceiveOpt{Differ: fsutil.DiffType(sc.Differ)}
		if sc.MetaOn {
			sel := map[string]bool{}
			for _, p := range sc.Meta {
				sel[p] = true
			}
			opt.MetadataOnly = func(p string, _ *types.Stat) bool { return sel[p] }
		}
		if sc.Notify {
			opt.ContentHasher = func(st *types.Stat) (hash.Hash, error) {
				mu.Lock()
				k := hcalls
				hcalls++
				mu.Unlock()
				if sc.Fault.Kind == "hasher" && k == sc.Fault.K {
					res.FaultHit = true
					return nil, errInjected
				}
				h, err := xfer.Hasher(st)
				return gatedHash{h}, err
			}
			opt.NotifyHashed = func(kind fsutil.ChangeKind, p string, fi os.FileInfo, err error) error {
				mu.Lock()
				k := ncalls
				ncalls++
				mu.Unlock()
				vrt.Gate("notify "+p, nil)
				if sc.Fault.Kind == "notify" && k == sc.Fault.K {
					res.FaultHit = true
					return errInjected
				}
				return notes.Handle(kind, p, fi, err)
			}
		}
		var progress func(int, bool)
		if sc.Progress {
			lastV, finals := -1, 0
			inCb := 0
			progress = func(n int, last bool) {
				// the callback is a scheduling point of its own: a library that calls it from two goroutines at
				// once races on whatever state an unsynchronised callback keeps
				mu.Lock()
				inCb++
				if inCb > 1 && res.ProgressBad == "" {
					res.ProgressBad = "two progress callbacks in flight at once"
				}
				mu.Unlock()
				vrt.Gate("progress cb", nil)
				mu.Lock()
				defer mu.Unlock()
				inCb--
				if finals > 0 && res.ProgressBad == "" {
					res.ProgressBad = "progress callback after the final call"
				}
				if n < lastV && res.ProgressBad == "" {
					res.ProgressBad = fmt.Sprintf("progress decreased %d -> %d", lastV, n)
				}
				lastV = n
				if last {
					finals++
				}
			}
			defer func() {
				if finals != 1 && res.ProgressBad == "" && res.SendDone {
					res.ProgressBad = fmt.Sprintf("%d final progress calls", finals)
				}
			}()
		}
		var srcFS fsutil.FS = mfs
		if sc.DiskSrc {
			dfs, err := fsutil.NewFS(srcDir)
			if err != nil {
				x.Panic = "NewFS: " + err.Error()
				return
			}
			srcFS = dfs
		}
		if ex, ok := strings.CutPrefix(sc.Variant, "exclude:"); ok {
			ffs, err := fsutil.NewFilterFS(srcFS, &fsutil.FilterOpt{ExcludePatterns: strings.Split(ex, ",")})
			if err != nil {
				x.Panic = "NewFilterFS: " + err.Error()
				return
			}
			srcFS = ffs
		}
		go func() {
			vrt.Gate("start S", nil)
			err := fsutil.Send(sctx, sEnd, srcFS, progress)
			res.SendErr, res.SendDone = errstr(err), true
			sEnd.Returned()
		}()
		go func() {
			vrt.Gate("start R", nil)
			err := fsutil.Receive(rctx, rEnd, destDir, opt)
			res.RecvErr, res.RecvDone = errstr(err), true
			rEnd.Returned()
		}()
		s.Extra = func() string {
			a, b := link.Pending()
			return fmt.Sprintf("|q%d,%d|l%d|%v%v", a, b, len(link.Log), res.SendDone, res.RecvDone)
		}
		lastCrashLog := -1
		for {
			if sc.Fault.Kind != "" && s.N() == sc.Fault.K {
				switch sc.Fault.Kind {
				case "cancelS", "cancelR", "cancelB", "break", "breakC", "killR", "killS":
					synctest.Wait()
					res.FaultHit = true
					if sc.Fault.Kind == "killR" {
						rEnd.Kill()
					}
					if sc.Fault.Kind == "killS" {
						sEnd.Kill()
					}
					if sc.Fault.Kind == "cancelS" || sc.Fault.Kind == "cancelB" {
						scancel()
					}
					if sc.Fault.Kind == "cancelR" || sc.Fault.Kind == "cancelB" {
						rcancel()
					}
					if sc.Fault.Kind == "break" {
						link.Torn = true
					}
					if sc.Fault.Kind == "breakC" {
						link.Torn, link.TornByCancel = true, true
					}
				}
			}
			if sc.Crash && len(res.Crashes) < 400 {
				// every quiescent state is a possible kill point: what is on disk now is what a
				// killed receiver leaves behind
				synctest.Wait()
				if n := len(link.Log) + s.N()<<16; n != lastCrashLog {
					lastCrashLog = n
					if snap, err := fsmodel.Snapshot(destDir); err == nil {
						res.Crashes = append(res.Crashes, snap)
					}
				}
			}
			if s.Step() {
				continue
			}
			if res.SendDone && res.RecvDone {
				break
			}
			if !link.Torn {
				res.Stuck = true
				res.Parked = s.Ctl.Parked()
				link.Torn = true
				continue
			}
			res.Hang = true
			if !res.SendDone {
				res.HangWho += "send"
			}
			if !res.RecvDone {
				res.HangWho += "recv"
			}
			res.Parked = s.Ctl.Parked()
			// let whatever can still finish, finish, so the process stays usable
			scancel()
			rcancel()
			for s.Step() {
			}
			break
		}
		res.Overlaps = link.Overlaps
		res.Log = link.LogStrings()
		for _, p := range link.Log {
			if p.From == "R" && p.P.Type == types.PACKET_REQ {
				res.Reqs = append(res.Reqs, p.P.ID)
			}
			if p.From == "R" && p.P.Type == types.PACKET_FIN {
				res.FinToS = true
			}
		}
		res.Notes = notes.Sorted()
		res.Counts = link.Counts()
		res.Counts["hasher"], res.Counts["notify"] = hcalls, ncalls
		res.Counts["steps"] = s.N()
	}
}

// prepDest (re)creates the destination directory for one execution.
func prepDest(dir string, dst fsmodel.Tree) error {
	scratch.Remove(dir)
	if err := os.MkdirAll(dir, 0755); err != nil {
		return err
	}
	return fsmodel.Materialize(dst, dir)
}

// normDest drops what the property does not fix: mtimes of directories that
// existed before the transfer, and leftover temp names are kept (they are
// violations of convergence).
func normDest(t fsmodel.Tree, prior fsmodel.Tree) fsmodel.Tree {
	out := t.Clone()
	for i := range out {
		if out[i].Kind == fsmodel.Dir {
			if p := prior.Find(out[i].Path); p != nil && p.Kind == fsmodel.Dir {
				out[i].Mtime = 0
			}
		}
	}
	return out
}

func reqsString(r []uint32) string {
	s := make([]int, len(r))
	for i, v := range r {
		s[i] = int(v)
	}
	sort.Ints(s)
	return fmt.Sprint(s)
}

func outcomeOf(res *XferRes, prior fsmodel.Tree) string {
	return fmt.Sprintf("send=%q recv=%q dest=%s reqs=%s notes=%s", res.SendErr, res.RecvErr, normDest(res.Dest, prior).String(), reqsString(res.Reqs), strings.Join(res.Notes, ";"))
}

// destMask is the comparison mask of C01 for a dirty-mode transfer.
func destMask(prior fsmodel.Tree) fsmodel.Mask {
	return fsmodel.Mask{
		DirMtime: func(p string) bool {
			n := prior.Find(p)
			return n != nil && n.Kind == fsmodel.Dir
		},
		NoXattrOf: func(n fsmodel.Node) bool { return n.Kind != fsmodel.File && n.Kind != fsmodel.Dir },
	}
}
