//go:build verifrt

package sched

import (
	"fmt"
	"testing"

	"verif/evid"
)

// runGenericJob explores one scenario whose body and oracle are supplied by the
// check. oracle returns the violations of one execution; detail renders the
// execution for replay files and samples.
func runGenericJob(t *testing.T, j *Job, r *evid.Run, body Body, oracle func(x *Exec, r *evid.Run) []Viol, detail func(x *Exec) map[string]any, rootOut func(x *Exec) (string, map[string]int)) *JobRes {
	sc := j.Scn
	e := &Explorer{T: t, Policy: sc.Policy, FsPoints: sc.FsPoints, SelectAlts: sc.SelectAlts, Body: body, MaxExecs: j.MaxExecs}
	out := &JobRes{}
	sampled := false
	visited := 0
	e.Visit = func(x *Exec, prefix []int) {
		r.Evaluations.Add(1)
		r.Traces.Add(1)
		r.Transitions.Add(int64(len(x.Choices)))
		for _, fp := range x.FPs {
			r.StateH(fp)
		}
		if x.Panic != "" {
			out.Err = fmt.Sprintf("execution panicked (%s, prefix %v): %s", sc, prefix, firstLines(x.Panic, 6))
			return
		}
		viols := append(append([]Viol{}, x.Viol...), oracle(x, r)...)
		dev := 0
		for _, c := range x.Choices {
			if c != 0 {
				dev++
			}
		}
		r.Nontrivial(fmt.Sprintf("%s|%v", sc, compact(x.Choices)))
		if !sampled && (dev > 0 || j.Bound == 0) {
			sampled = true
			d := detail(x)
			d["scenario"] = sc.String()
			d["deviations"] = dev
			d["steps"] = len(x.Choices)
			d["schedule_head"] = head(x.Trace, 10)
			delete(d, "trace")
			r.Sample(d)
		}
		if len(viols) == 0 {
			// determinism is asserted, not assumed: every 300th passing execution is replayed from its own
			// choice sequence and must release exactly the same (thread, operation) sequence
			visited++
			if visited%300 == 1 {
				y := RunOne(t, sc.Policy, sc.FsPoints, sc.SelectAlts, x.Choices, x.Trace, body)
				r.Add("replays_checked", 1)
				if y.Diverged != "" || len(y.Trace) != len(x.Trace) {
					r.Add("divergences", 1)
					out.Diverged = append(out.Diverged, fmt.Sprintf("replay of a passing schedule diverged (%s): %s (len %d vs %d)", sc, y.Diverged, len(y.Trace), len(x.Trace)))
				}
			}
			return
		}
		for k := 0; k < 2; k++ {
			y := RunOne(t, sc.Policy, sc.FsPoints, sc.SelectAlts, x.Choices, x.Trace, body)
			if y.Diverged != "" || y.Panic != "" {
				out.Diverged = append(out.Diverged, fmt.Sprintf("re-run of violating schedule diverged (%s): %s %s", sc, y.Diverged, y.Panic))
				return
			}
			v2 := append(append([]Viol{}, y.Viol...), oracle(y, evid.New("x", "x"))...)
			if keys(v2) != keys(viols) {
				out.Diverged = append(out.Diverged, fmt.Sprintf("violation not reproducible on the same schedule (%s): %s vs %s", sc, keys(viols), keys(v2)))
				return
			}
		}
		for _, v := range viols {
			d := detail(x)
			d["scn"] = sc
			d["choices"] = compact(x.Choices)
			d["trace"] = x.Trace
			r.Violate(v.Key, fmt.Sprintf("%s: %s", sc, v.Msg), d)
		}
	}
	root := e.Run(j.Prefix, nil, j.Bound, j.Lo, j.Hi, j.SkipRoot)
	out.RootNOpts = root.NOpts
	out.Roles = dedup(root.Roles)
	if rootOut != nil && root.Res != nil {
		out.RootOut, out.Info = rootOut(root)
	}
	out.Execs, out.Steps = e.Execs, e.Steps
	out.Diverged = append(out.Diverged, e.Diverged...)
	out.Truncated = e.Truncated
	return out
}
