//go:build verifrt

package sched

import "testing"

func TestDriver(t *testing.T) { testDriver(t) }
