//go:build verifrt

package sched

import (
	"fmt"
	"strings"

	"verif/fsmodel"
)

const t1 = int64(1_600_000_000_123_456_789)

func f(p string, seed, size int, mt int64) fsmodel.Node {
	return fsmodel.Node{Path: p, Kind: fsmodel.File, Perm: 0644, Mtime: mt, Data: fsmodel.Content(seed, size)}
}
func d(p string, mt int64) fsmodel.Node {
	return fsmodel.Node{Path: p, Kind: fsmodel.Dir, Perm: 0755, Mtime: mt}
}

var extraTrees = map[string]func() fsmodel.Tree{}

// Trees is the registry of named scenario trees.
func Tree(name string) fsmodel.Tree {
	var t fsmodel.Tree
	switch name {
	case "empty":
	case "small": // 3 entries, one 2-chunk file
		t = fsmodel.Tree{f("a", 1, 3, t1), d("b", t1+5), f("b/c", 2, 40000, t1+7)}
	case "small-dirty": // a differs (same size, other mtime), b/stale and z must go
		t = fsmodel.Tree{f("a", 9, 3, t1+1), d("b", t1+2), f("b/stale", 3, 10, t1), f("z", 4, 5, t1)}
	case "small-same": // equal to small: nothing to request
		t = Tree("small")
	case "tiny": // one 1-chunk file and a dir
		t = fsmodel.Tree{f("a", 1, 5, t1), d("b", t1+5)}
	case "two": // two small files
		t = fsmodel.Tree{f("a", 1, 5, t1), f("b", 2, 7, t1+1)}
	case "mid": // 5 files of 2-3 chunks, a symlink and a directory
		t = fsmodel.Tree{d("d", t1+1), f("d/f0", 10, 40000, t1+2), f("d/f1", 11, 70000, t1+3), f("f2", 12, 32769, t1+4),
			f("f3", 13, 65537, t1+5), f("f4", 14, 33000, t1+6),
			{Path: "l", Kind: fsmodel.Symlink, Perm: 0777, Mtime: t1 + 7, Link: "f2"}}
	case "mid-dirty":
		t = fsmodel.Tree{d("d", t1+9), f("d/f0", 10, 40000, t1+2), f("d/f1", 99, 70000, t1+30), f("f2", 98, 100, t1+4),
			d("f3", t1), f("f3/x", 97, 10, t1), f("old", 96, 10, t1)}
	case "six": // 6 small files (T-mid of the fault check)
		for i := 0; i < 6; i++ {
			t = append(t, f(fmt.Sprintf("f%d", i), 20+i, 100+i, t1+int64(i)))
		}
	case "fan": // 140 one-byte files: more than 132 requests can be outstanding
		for i := 0; i < 140; i++ {
			t = append(t, f(fmt.Sprintf("f%03d", i), 100+i, 1, t1+int64(i)))
		}
	case "fan400": // more entries than all internal queues together hold (128 + 128 + 64 + ...)
		for i := 0; i < 400; i++ {
			t = append(t, f(fmt.Sprintf("f%03d", i), 100+i, 1, t1+int64(i)))
		}
	case "v1": // view with every entry type the sender treats differently
		t = fsmodel.Tree{f("a", 1, 3, t1), d("b", t1+5), f("b/c", 2, 40000, t1+7),
			{Path: "h", Kind: fsmodel.File, Perm: 0644, Mtime: t1, Data: fsmodel.Content(1, 3), HL: 1},
			{Path: "l", Kind: fsmodel.Symlink, Perm: 0777, Mtime: t1 + 7, Link: "a"}}
		t[0].HL = 1
	case "v2": // sizes around the 32 KiB chunk
		for i, sz := range []int{0, 1, 32768, 32769, 65537} {
			t = append(t, f(fmt.Sprintf("s%d", i), 30+i, sz, t1+int64(i)))
		}
	default:
		if g, ok := extraTrees[name]; ok {
			t = g()
			break
		}
		panic("unknown tree " + name)
	}
	t.Sort()
	return t
}

func init() {
	extraTrees["c7src"] = func() fsmodel.Tree {
		t := fsmodel.Tree{f("a", 1, 5, t1), d("d", t1+1), f("d/b", 2, 3, t1+2), f("e", 3, 0, t1+3),
			{Path: "h", Kind: fsmodel.File, Perm: 0644, Mtime: t1, Data: fsmodel.Content(1, 5), HL: 1},
			{Path: "l", Kind: fsmodel.Symlink, Perm: 0777, Mtime: t1 + 4, Link: "a"},
			{Path: "p", Kind: fsmodel.Fifo, Perm: 0600, Mtime: t1 + 5},
			f("z", 4, 40000, t1+6)}
		t[0].HL = 1
		return t
	}
	extraTrees["c7tiny"] = func() fsmodel.Tree {
		t := Tree("c7src")
		for i := range t {
			if t[i].Path == "z" {
				t[i].Data = fsmodel.Content(4, 7)
			}
		}
		return t
	}
	extraTrees["c7same"] = func() fsmodel.Tree { return Tree("c7src") }
	extraTrees["c7diff"] = func() fsmodel.Tree {
		return fsmodel.Tree{f("a", 1, 5, t1+100), d("d", t1+1), f("d/b", 2, 3, t1+2), f("e", 7, 6, t1+50), f("z", 5, 39999, t1+6), f("stale", 6, 4, t1)}
	}
	extraTrees["c7swap"] = func() fsmodel.Tree {
		return fsmodel.Tree{d("a", t1), f("a/x", 7, 4, t1), f("d", 8, 2, t1), f("l", 9, 3, t1), d("p", t1), f("p/q", 10, 1, t1)}
	}
	extraTrees["c7meta"] = func() fsmodel.Tree {
		return fsmodel.Tree{f(".fsutil-metadata", 11, 4, t1), f("a", 12, 5, t1+1), f("b", 13, 6, t1+2)}
	}
	extraTrees["c7plain"] = func() fsmodel.Tree {
		return fsmodel.Tree{f("a", 12, 5, t1+1), f("b", 13, 6, t1+2), d("c", t1), f("c/d", 14, 7, t1+3)}
	}
	extraTrees["c7plain2"] = func() fsmodel.Tree {
		return fsmodel.Tree{f("a", 12, 5, t1+1), d("d", t1), f("d/b", 13, 6, t1+2), f("e", 14, 7, t1+3),
			{Path: "p", Kind: fsmodel.Fifo, Perm: 0600, Mtime: t1 + 5}, f("z", 15, 9, t1+6)}
	}
	// content with long zero runs: at the end, in the middle, and nothing else
	extraTrees["c7zeros"] = func() fsmodel.Tree {
		tail := append(fsmodel.Content(21, 40960), make([]byte, 57344)...)
		mid := append(append(fsmodel.Content(22, 5000), make([]byte, 8192)...), fsmodel.Content(23, 100)...)
		t := fsmodel.Tree{f("allzero", 0, 0, t1), f("mid", 0, 0, t1+1), f("tail", 0, 0, t1+2)}
		t[0].Data, t[1].Data, t[2].Data = make([]byte, 8192), mid, tail
		return t
	}
	extraTrees["c7zeros-old"] = func() fsmodel.Tree {
		return fsmodel.Tree{f("allzero", 31, 9000, t1+9), f("tail", 32, 100000, t1+9)}
	}
	// the view of C06 plus a unix socket (announced as an empty regular file that cannot be opened) and, at the root,
	// an entry named like the listing file of a metadata-only receive
	extraTrees["v1odd"] = func() fsmodel.Tree {
		t := Tree("v1")
		t = append(t, fsmodel.Node{Path: ".fsutil-metadata", Kind: fsmodel.File, Perm: 0644, Mtime: t1 + 9, Data: fsmodel.Content(9, 4)},
			fsmodel.Node{Path: "b/sock", Kind: fsmodel.Socket, Perm: 0755, Mtime: t1 + 8}, f("z", 8, 7, t1+10),
			// names and a link target that are not valid UTF-8 (a latin-1 tree): legal, and sent byte for byte
			f("caf\xe9.txt", 9, 6, t1+11), f("caf\xe8.txt", 10, 5, t1+12),
			fsmodel.Node{Path: "l\xff", Kind: fsmodel.Symlink, Perm: 0777, Mtime: t1 + 13, Link: "caf\xe9.txt"})
		t.Sort()
		return t
	}
	// names at the length limit of a directory entry, in the source and (with other content) in a prior destination
	extraTrees["c7long"] = func() fsmodel.Tree {
		n250, n255 := strings.Repeat("n", 250), strings.Repeat("q", 255)
		return fsmodel.Tree{f("a", 1, 5, t1), f(n250, 2, 9, t1+1), d(n255, t1+2), f(n255+"/"+strings.Repeat("r", 255), 3, 40000, t1+3), f(n255+"/"+strings.Repeat("s", 241), 4, 3, t1+4), f("z", 5, 2, t1+5)}
	}
	extraTrees["c7long-old"] = func() fsmodel.Tree {
		n250, n255 := strings.Repeat("n", 250), strings.Repeat("q", 255)
		return fsmodel.Tree{f("a", 1, 5, t1), f(n250, 7, 11, t1+9), d(n255, t1+2), f(n255+"/"+strings.Repeat("r", 255), 8, 10, t1+9), f(n255+"/"+strings.Repeat("s", 241), 9, 3, t1+9), d("z", t1)}
	}
	// what a killed receive leaves behind: temporary entries with the first names a restarted process would pick, next
	// to an entry that sorts before them and gets replaced by something shorter
	extraTrees["c7orphan"] = func() fsmodel.Tree {
		return fsmodel.Tree{f(".env", 61, 5, t1+50), f("a", 62, 7, t1+51), d("sub", t1+52), f("sub/.cfg", 63, 4, t1+53)}
	}
	extraTrees["c7orphan-old"] = func() fsmodel.Tree {
		t := fsmodel.Tree{f(".env", 71, 9, t1+1), f("a", 72, 8, t1+2), d("sub", t1+52), f("sub/.cfg", 73, 6, t1+3)}
		for i := 0; i <= 6; i++ {
			t = append(t, f(fmt.Sprintf(".tmp.%09d", i), 80+i, 100, t1), f(fmt.Sprintf("sub/.tmp.%09d", i), 90+i, 100, t1))
		}
		return t
	}
	// names that begin with two dots (a ConfigMap volume: ..data, ..2024_05_01)
	// special files with several names (a fifo and a device created once and linked), next to an ordinary group
	extraTrees["c7speclinks"] = func() fsmodel.Tree {
		return fsmodel.Tree{f("a", 67, 5, t1), {Path: "p1", Kind: fsmodel.Fifo, Perm: 0600, Mtime: t1 + 1, HL: 1}, {Path: "p2", Kind: fsmodel.Fifo, Perm: 0600, Mtime: t1 + 1, HL: 1},
			{Path: "q1", Kind: fsmodel.Char, Perm: 0600, Mtime: t1 + 2, Major: 1, Minor: 3, HL: 2}, d("sub", t1+3), {Path: "sub/q2", Kind: fsmodel.Char, Perm: 0600, Mtime: t1 + 2, Major: 1, Minor: 3, HL: 2}, f("z", 68, 4, t1+4)}
	}
	extraTrees["c7dots"] = func() fsmodel.Tree {
		return fsmodel.Tree{d("..2024_05_01", t1), f("..2024_05_01/token", 64, 9, t1+1), {Path: "..data", Kind: fsmodel.Symlink, Perm: 0777, Mtime: t1 + 2, Link: "..2024_05_01"},
			f("..hidden", 65, 3, t1+3), {Path: "token", Kind: fsmodel.Symlink, Perm: 0777, Mtime: t1 + 4, Link: "..data/token"}, d("z", t1+5), f("z/..x", 66, 2, t1+6)}
	}
	// more entries than any window a sender could keep of what it announced (512 = 4 x 128)
	extraTrees["fan700"] = func() fsmodel.Tree {
		var t fsmodel.Tree
		for i := 0; i < 700; i++ {
			t = append(t, f(fmt.Sprintf("f%03d", i), 100+i, 1, t1+int64(i)))
		}
		return t
	}
	// the view of C06 plus a fifo and a character device (entries that are announced but carry no content)
	extraTrees["v1spec"] = func() fsmodel.Tree {
		t := Tree("v1")
		t = append(t, fsmodel.Node{Path: "p", Kind: fsmodel.Fifo, Perm: 0600, Mtime: t1 + 8}, fsmodel.Node{Path: "q", Kind: fsmodel.Char, Perm: 0600, Mtime: t1 + 9, Major: 1, Minor: 3},
			// regular files with the set-uid, set-gid and sticky bit: regular files all the same (ids 7, 8, 9)
			fsmodel.Node{Path: "s1", Kind: fsmodel.File, Perm: 04755, Mtime: t1 + 10, Data: fsmodel.Content(71, 40000)},
			fsmodel.Node{Path: "s2", Kind: fsmodel.File, Perm: 02755, Mtime: t1 + 11, Data: fsmodel.Content(72, 5)},
			fsmodel.Node{Path: "s3", Kind: fsmodel.File, Perm: 01644, Mtime: t1 + 12, Data: fsmodel.Content(73, 6)})
		t.Sort()
		return t
	}
	// file sizes just below the 32 KiB chunk: 32768-k for k around every power of two up to 1024 (a chunk minus a
	// header, minus a length prefix, ...) and the same one chunk further
	extraTrees["v3"] = func() fsmodel.Tree {
		var t fsmodel.Tree
		i := 0
		for p := 1; p <= 1024; p *= 2 {
			for _, k := range []int{p - 1, p, p + 1} {
				if k == 0 || (p > 2 && k == p-1 && false) {
					continue
				}
				t = append(t, f(fmt.Sprintf("s%02d-%d", i, 32768-k), 40+i, 32768-k, t1+int64(i)))
				i++
			}
		}
		for _, k := range []int{64, 63, 65, 1} {
			t = append(t, f(fmt.Sprintf("t%02d-%d", i, 65536-k), 40+i, 65536-k, t1+int64(i)))
			i++
		}
		return t
	}
	extraTrees["one5"] = func() fsmodel.Tree { return fsmodel.Tree{f("a", 1, 5, t1)} }
}
