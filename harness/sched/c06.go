//go:build verifrt

package sched

import (
	"bytes"
	"context"
	"fmt"
	"io"
	"os"
	"sort"
	"strings"
	"sync"
	"testing"

	"github.com/tonistiigi/fsutil"
	"github.com/tonistiigi/fsutil/types"
	"verif/evid"
	"verif/fsmodel"
	"verif/memfs"
	"verif/netsim"
	"verif/scratch"
	"verif/vrt"
)

func init() {
	impls["C06"] = &checkImpl{Drive: driveC06, RunJob: runC06Job}
}

// RefRecvRes is what the reference receiver and its protocol monitor saw.
type RefRecvRes struct {
	SendDone bool
	SendErr  string
	Log      []string
	Mon      []string // protocol violations seen by the online monitor
	Served   map[uint32]bool
	FinEcho  bool
	BadID    bool // the script contains an id a conforming receiver must not send
	Early    bool
	Stuck    bool
	Hang     bool
	Parked   []string
	Progress string
	Overlaps []string
	FaultHit bool // the injected read error was returned to the sender
}

// statEq compares an announced stat with the independently listed view.
func statEq(got, want *types.Stat) string {
	var d []string
	if got.Path != want.Path {
		d = append(d, fmt.Sprintf("path %q want %q", got.Path, want.Path))
	}
	if got.Mode != want.Mode {
		d = append(d, fmt.Sprintf("mode %o want %o", got.Mode, want.Mode))
	}
	if got.Uid != want.Uid || got.Gid != want.Gid {
		d = append(d, fmt.Sprintf("owner %d:%d want %d:%d", got.Uid, got.Gid, want.Uid, want.Gid))
	}
	if got.ModTime != want.ModTime {
		d = append(d, fmt.Sprintf("mtime %d want %d", got.ModTime, want.ModTime))
	}
	if got.Linkname != want.Linkname {
		d = append(d, fmt.Sprintf("linkname %q want %q", got.Linkname, want.Linkname))
	}
	if got.Devmajor != want.Devmajor || got.Devminor != want.Devminor {
		d = append(d, "device numbers")
	}
	if want.Mode&uint32(os.ModeType) == 0 && want.Linkname == "" && got.Size != want.Size {
		d = append(d, fmt.Sprintf("size %d want %d", got.Size, want.Size))
	}
	if len(got.Xattrs) != len(want.Xattrs) {
		d = append(d, "xattrs")
	}
	return strings.Join(d, ", ")
}

// refRecvBody: real Send against the reference receiver (a reader thread that
// feeds the monitor and a requester thread that plays the script).
func refRecvBody(sc Scn, src, view fsmodel.Tree, srcDir string, res *RefRecvRes) Body {
	want := memfs.Stats(view)
	content := map[int][]byte{}
	for i, n := range func() fsmodel.Tree { t := view.Clone(); t.Sort(); return t }() {
		if n.Kind == fsmodel.File || n.Kind == fsmodel.Socket {
			content[i] = n.Data // (a socket is announced as an empty regular file; it cannot be opened and is served empty)
		}
	}
	return func(t *testing.T, s *Stepper, x *Exec) {
		link := netsim.NewLink(sc.Cap)
		link.PostYield = sc.PostYield
		link.Rendezvous = sc.Rendezvous
		sctx, scancel := context.WithCancel(context.Background())
		defer scancel()
		sEnd := link.End("S", sctx)
		rEnd := link.End("R", context.Background())
		var mu sync.Mutex
		mon := func(f string, a ...any) {
			mu.Lock()
			if len(res.Mon) < 8 {
				res.Mon = append(res.Mon, fmt.Sprintf(f, a...))
			}
			mu.Unlock()
		}
		// monitor state
		nStat := 0
		endSeen := false
		requested := map[uint32]bool{}
		got := map[uint32][]byte{}
		term := map[uint32]bool{}
		res.Served = map[uint32]bool{}
		finSent := false
		var progress func(int, bool)
		if sc.Progress {
			lastV, finals := -1, 0
			progress = func(n int, last bool) {
				vrt.Gate("progress", nil) // user code: whatever may run concurrently can overtake here
				mu.Lock()
				defer mu.Unlock()
				if finals > 0 && res.Progress == "" {
					res.Progress = "progress callback after the final call"
				}
				if n < lastV && res.Progress == "" {
					res.Progress = fmt.Sprintf("progress decreased %d -> %d", lastV, n)
				}
				lastV = n
				if last {
					finals++
				}
			}
			defer func() {
				if res.SendDone && finals != 1 && res.Progress == "" {
					res.Progress = fmt.Sprintf("%d final progress calls", finals)
				}
			}()
		}
		mfs := memfs.New(src)
		// readers that hand out their last bytes together with io.EOF (archive/tar, many network readers)
		mfs.EOFWithData = sc.Variant == "eofdata"
		if sc.Variant == "shortreads" {
			mfs.MaxRead = 5000 // a reader that hands a 32 KiB buffer back partly filled, every time
		}
		if sc.Fault.Kind == "read" {
			// reading the K-th regular file of the source fails after J bytes
			files := []string{}
			for _, n := range src {
				if n.Kind == fsmodel.File {
					files = append(files, n.Path)
				}
			}
			mfs.OpenHook = func(p string, rc io.ReadCloser) (io.ReadCloser, error) {
				if sc.Fault.K < len(files) && files[sc.Fault.K] == p {
					return readCloser{&faultReader{r: rc, after: sc.Fault.J, hit: &res.FaultHit}, rc}, nil
				}
				return rc, nil
			}
		}
		var srcFS fsutil.FS = mfs
		if sc.DiskSrc {
			dfs, err := fsutil.NewFS(srcDir)
			if err != nil {
				x.Panic = err.Error()
				return
			}
			srcFS = dfs
		}
		switch sc.Variant {
		case "filtered":
			ffs, err := fsutil.NewFilterFS(srcFS, &fsutil.FilterOpt{IncludePatterns: []string{"b", "h"}})
			if err != nil {
				x.Panic = err.Error()
				return
			}
			srcFS = ffs
		case "submap":
			// a composite whose sub-root is a filter that drops (by its map function, i.e. after the stat was made) the
			// first name of a hard-linked file: the remaining name is a file in its own right
			mf, err := fsutil.NewFilterFS(srcFS, &fsutil.FilterOpt{Map: func(p string, _ *types.Stat) fsutil.MapResult {
				if p == "a" {
					return fsutil.MapResultExclude
				}
				return fsutil.MapResultKeep
			}})
			if err != nil {
				x.Panic = err.Error()
				return
			}
			sub, err := fsutil.SubDirFS([]fsutil.Dir{{Stat: &types.Stat{Path: "sub", Mode: uint32(fsmodel.GoMode(fsmodel.Node{Kind: fsmodel.Dir, Perm: 0755}))}, FS: mf}})
			if err != nil {
				x.Panic = err.Error()
				return
			}
			srcFS = sub
		case "subdir":
			sub, err := fsutil.SubDirFS([]fsutil.Dir{{Stat: &types.Stat{Path: "sub", Mode: uint32(fsmodel.GoMode(fsmodel.Node{Kind: fsmodel.Dir, Perm: 0755}))}, FS: srcFS}})
			if err != nil {
				x.Panic = err.Error()
				return
			}
			srcFS = sub
		}
		go func() {
			vrt.Gate("start S", nil)
			err := fsutil.Send(sctx, sEnd, srcFS, progress)
			res.SendErr, res.SendDone = errstr(err), true
			sEnd.Returned()
		}()
		// reader thread of the reference receiver
		readerDone := false
		go func() {
			vrt.Gate("start peerR.reader", nil)
			defer func() { readerDone = true }()
			for {
				var p types.Packet
				if err := rEnd.RecvMsg(&p); err != nil {
					return
				}
				mu.Lock()
				switch p.Type {
				case types.PACKET_STAT:
					if endSeen {
						mu.Unlock()
						mon("STAT after the end-of-stats marker")
						mu.Lock()
					}
					if p.Stat == nil {
						endSeen = true
						if nStat != len(want) {
							n := nStat
							mu.Unlock()
							mon("end-of-stats after %d STATs, view has %d entries", n, len(want))
							mu.Lock()
						}
					} else {
						i := nStat
						nStat++
						if i >= len(want) {
							mu.Unlock()
							mon("STAT #%d %q beyond the view (%d entries)", i, p.Stat.Path, len(want))
							mu.Lock()
						} else if d := statEq(p.Stat, want[i]); d != "" {
							mu.Unlock()
							mon("STAT #%d differs from entry %d of the view: %s", i, i, d)
							mu.Lock()
						}
					}
				case types.PACKET_DATA:
					id := p.ID
					switch {
					case !requested[id]:
						mu.Unlock()
						mon("DATA for id %d which was not requested", id)
						mu.Lock()
					case term[id]:
						mu.Unlock()
						mon("DATA for id %d after its terminator", id)
						mu.Lock()
					case len(p.Data) == 0:
						term[id] = true
						if c, ok := content[int(id)]; ok {
							if !bytes.Equal(got[id], c) {
								g := got[id]
								mu.Unlock()
								mon("id %d: payloads concatenate to %dB#%s, file is %dB#%s", id, len(g), fsmodel.Sum(g), len(c), fsmodel.Sum(c))
								mu.Lock()
							} else {
								res.Served[id] = true
							}
						}
					default:
						got[id] = append(got[id], p.Data...)
					}
				case types.PACKET_FIN:
					if !finSent {
						mu.Unlock()
						mon("FIN from the sender before the receiver's FIN")
						mu.Lock()
					}
					res.FinEcho = true
				case types.PACKET_ERR:
				}
				mu.Unlock()
			}
		}()
		// requester thread: plays the script, then FIN when everything requested is complete
		script := sc.Script
		valid := map[uint32]bool{}
		for i := range content {
			valid[uint32(i)] = true
		}
		seen := map[int]bool{}
		for _, id := range script {
			if !valid[uint32(id)] || seen[id] {
				res.BadID = true
			}
			seen[id] = true
		}
		res.Early = sc.Variant == "early"
		reqDone := false
		go func() {
			vrt.Gate("start peerR.requester", nil)
			defer func() { reqDone = true }()
			for _, id := range script {
				id := id
				vrt.Gate(fmt.Sprintf("peerR.decide REQ %d", id), func() bool {
					// a conforming receiver only knows ids it has seen announced
					return res.Early || res.SendDone || nStat > id || (endSeen && id >= nStat)
				})
				if res.SendDone {
					return
				}
				mu.Lock()
				requested[uint32(id)] = true
				mu.Unlock()
				if err := rEnd.SendMsg(&types.Packet{Type: types.PACKET_REQ, ID: uint32(id)}); err != nil {
					return
				}
			}
			vrt.Gate("peerR.decide FIN", func() bool {
				if res.SendDone {
					return true
				}
				if !endSeen {
					return false
				}
				for id := range requested {
					if !term[id] {
						return false
					}
				}
				return true
			})
			if res.SendDone {
				return
			}
			mu.Lock()
			finSent = true
			mu.Unlock()
			rEnd.SendMsg(&types.Packet{Type: types.PACKET_FIN})
		}()
		s.Extra = func() string {
			a, b := link.Pending()
			return fmt.Sprintf("|q%d,%d|l%d|%v", a, b, len(link.Log), res.SendDone)
		}
		for {
			if s.Step() {
				continue
			}
			if res.SendDone && readerDone && reqDone {
				break
			}
			if res.SendDone && !link.Torn {
				// sender has returned: the transport is gone for the peer as well
				link.Torn = true
				continue
			}
			if !link.Torn {
				res.Stuck = true
				res.Parked = s.Ctl.Parked()
				link.Torn = true
				continue
			}
			res.Hang = !res.SendDone
			res.Parked = s.Ctl.Parked()
			scancel()
			for s.Step() {
			}
			break
		}
		res.Log = link.LogStrings()
		res.Overlaps = link.Overlaps
	}
}

func runC06Job(t *testing.T, j *Job, r *evid.Run) *JobRes {
	sc := j.Scn
	src := Tree(sc.Src)
	srcDir := ""
	if sc.DiskSrc {
		srcDir = scratch.Dir("src")
		defer scratch.Remove(srcDir)
		if err := fsmodel.Materialize(src, srcDir); err != nil {
			return &JobRes{Err: err.Error()}
		}
	}
	view := src
	if sc.Variant == "subdir" {
		view = fsmodel.Tree{{Path: "sub", Kind: fsmodel.Dir, Perm: 0755}}
		for _, n := range src {
			n.Path = "sub/" + n.Path
			view = append(view, n)
		}
		view.Sort()
	}
	if sc.Variant == "submap" {
		view = fsmodel.Tree{{Path: "sub", Kind: fsmodel.Dir, Perm: 0755}}
		for _, n := range src {
			if n.Path == "a" {
				continue
			}
			if n.Path == "h" {
				n.HL = 0
			}
			n.Path = "sub/" + n.Path
			view = append(view, n)
		}
		view.Sort()
	}
	if sc.Variant == "filtered" {
		// include patterns b and h: the link source a of h is hidden, so h must be announced as a plain file
		view = nil
		for _, n := range src {
			if n.Path == "h" || n.Path == "b" || strings.HasPrefix(n.Path, "b/") {
				view = append(view, n)
			}
		}
		cnt := map[int]int{}
		for _, n := range view {
			cnt[n.HL]++
		}
		for i := range view {
			if view[i].HL > 0 && cnt[view[i].HL] < 2 {
				view[i].HL = 0
			}
		}
		view.Sort()
	}
	body := func(t *testing.T, s *Stepper, x *Exec) {
		res := &RefRecvRes{}
		x.Res = res
		refRecvBody(sc, src, view, srcDir, res)(t, s, x)
	}
	oracle := func(x *Exec, r *evid.Run) []Viol {
		res := x.Res.(*RefRecvRes)
		var v []Viol
		for _, m := range res.Mon {
			v = append(v, Viol{"protocol:" + monKey(m), m})
		}
		for _, o := range dedup(res.Overlaps) {
			v = append(v, Viol{"overlap:" + o, "two " + o + " calls in flight on one end"})
		}
		if res.Hang {
			v = append(v, Viol{"hang", fmt.Sprintf("Send still blocked after teardown; parked %v", res.Parked)})
			return v
		}
		switch {
		case res.BadID && !res.Early:
			if res.SendErr == "" {
				v = append(v, Viol{"bad-id-accepted", fmt.Sprintf("script %v contains an id that is unknown, not a regular file, or repeated, but Send returned nil", sc.Script)})
			}
		case res.Early || res.BadID:
			// a request may overtake its announcement: either rejected or served
		case res.FaultHit:
			// a source read failed: whatever was sent for that id is a prefix without terminator (the monitor
			// checks the terminator), and the call must not report success
			if res.SendErr == "" {
				v = append(v, Viol{"read-error-swallowed", fmt.Sprintf("reading a requested file failed (%s) but Send returned nil", sc)})
			}
		default:
			if res.SendErr != "" {
				v = append(v, Viol{"conforming-receiver-failed", fmt.Sprintf("Send failed against a conforming receiver (script %v): %s", sc.Script, res.SendErr)})
			} else {
				if !res.FinEcho {
					v = append(v, Viol{"fin-not-echoed", "Send returned nil but FIN was not echoed"})
				}
				for _, id := range sc.Script {
					if !res.Served[uint32(id)] {
						v = append(v, Viol{"not-served", fmt.Sprintf("id %d was requested but not completely served", id)})
					}
				}
			}
			if res.Stuck {
				v = append(v, Viol{"stuck", fmt.Sprintf("transfer blocked with a conforming receiver; parked %v", res.Parked)})
			}
		}
		if sc.Progress && res.Progress != "" {
			v = append(v, Viol{"progress", res.Progress})
		}
		r.Outcome(fmt.Sprintf("ok=%v", res.SendErr == ""))
		return v
	}
	detail := func(x *Exec) map[string]any {
		res := x.Res.(*RefRecvRes)
		return map[string]any{"packets": head(res.Log, 60), "send_err": res.SendErr, "monitor": res.Mon}
	}
	return runGenericJob(t, j, r, body, oracle, detail, func(x *Exec) (string, map[string]int) { return "", nil })
}

func monKey(m string) string {
	f := strings.Fields(m)
	if len(f) > 2 {
		f = f[:2]
	}
	return strings.Join(f, "-")
}

// scripts enumerates request scripts: all sequences of distinct ids from ok of
// length <= n, plus non-conforming ones built from bad ids.
func scripts(ok []int, n int) [][]int {
	var out [][]int
	var rec func(cur []int)
	rec = func(cur []int) {
		out = append(out, append([]int{}, cur...))
		if len(cur) == n {
			return
		}
		for _, id := range ok {
			dup := false
			for _, c := range cur {
				if c == id {
					dup = true
				}
			}
			if !dup {
				rec(append(cur, id))
			}
		}
	}
	rec(nil)
	return out
}

func driveC06(p *Pool, r *evid.Run) {
	r.Technique = "stateless model checking of the real sender against an independent reference receiver (script enumeration x delay-bounded schedule exploration) with an online protocol monitor"
	r.Rule = "one evaluation = one complete execution of (view, request script, schedule); non-trivial = distinct (scenario, choice sequence); states = distinct quiescent-state fingerprints"
	r.Assume = []string{"reference receiver and monitor are written from the protocol comment in receive.go, sharing no code with fsutil's receiver"}
	quick := r.Tier == "quick"
	var scns []Scn
	add := func(src string, script []int, variant string, pols []string, caps []int, disk bool) {
		for _, pol := range pols {
			for _, cp := range caps {
				scns = append(scns, Scn{Kind: "refrecv", Src: src, Cap: cp, Policy: pol, Script: script, Variant: variant, SelectAlts: true, Progress: true, DiskSrc: disk})
			}
		}
	}
	pols := []string{"run", "rund", "recv", "send"}
	caps := []int{1, 64}
	// V1: a(0) b(1,dir) b/c(2) h(3, hard link to a) l(4, symlink)
	okV1 := []int{0, 2, 3}
	for _, sc := range scripts(okV1, 3) {
		add("v1", sc, "", pols, caps, false)
	}
	for _, sc := range scripts(okV1, 2) {
		add("v1", sc, "", []string{"recv"}, []int{2}, true) // on-disk source
	}
	// non-conforming: directory, symlink, unknown, duplicate
	for _, bad := range [][]int{{1}, {4}, {7}, {0, 0}, {2, 1}, {0, 2, 0}, {99, 0}, {3, 3}} {
		add("v1", bad, "", pols, caps, false)
	}
	// requests that may overtake their announcement
	for _, sc := range [][]int{{2}, {0, 2}, {3, 2, 0}} {
		add("v1", sc, "early", pols, caps, false)
	}
	add("v1", []int{1, 3}, "subdir", []string{"run", "recv"}, []int{1}, false) // ids shift by the sub-root entry
	// filtered view {b/, b/c, h}: ids 0..2; h's link source is hidden
	for _, scr := range [][]int{{1}, {2}, {2, 1}, {1, 2}} {
		add("v1", scr, "filtered", []string{"run", "recv"}, []int{1, 64}, false)
		add("v1", scr, "filtered", []string{"recv"}, []int{2}, true)
	}
	add("v1", []int{0}, "filtered", []string{"run"}, []int{1}, false) // the directory: must fail
	for _, scr := range [][]int{{3}, {2, 3}, {3, 2}, {}} {
		add("v1", scr, "submap", []string{"run", "recv"}, []int{1, 64}, false)
	}
	bound := 1
	if !quick {
		bound = 2
	}
	exploreAll(p, r, "C06", scns, bound, 0)
	r.Add("scenarios", int64(len(scns)))
	if quick {
		// bound 2 around the run-to-block policies for the short scripts
		var deep []Scn
		for _, sc := range scns {
			if (sc.Policy == "run" || sc.Policy == "rund") && sc.Cap == 1 && len(sc.Script) <= 2 && !sc.DiskSrc {
				deep = append(deep, sc)
			}
		}
		exploreAll(p, r, "C06", deep, 2, 0)
	}

	// V2: sizes around the chunk, all five requested in several orders
	var v2 []Scn
	orders := [][]int{{0, 1, 2, 3, 4}, {4, 3, 2, 1, 0}, {2, 4}, {3}, {}}
	for _, o := range orders {
		for _, pol := range pols {
			for _, cp := range caps {
				v2 = append(v2, Scn{Kind: "refrecv", Src: "v2", Cap: cp, Policy: pol, Script: o, SelectAlts: true, Progress: true})
			}
		}
	}
	for _, o := range orders {
		for _, pol := range []string{"run", "recv"} {
			for _, cp := range caps {
				v2 = append(v2, Scn{Kind: "refrecv", Src: "v2", Cap: cp, Policy: pol, Script: o, Variant: "eofdata", SelectAlts: true})
				v2 = append(v2, Scn{Kind: "refrecv", Src: "v2", Cap: cp, Policy: pol, Script: o, Variant: "shortreads", SelectAlts: true})
			}
		}
	}
	exploreAll(p, r, "C06", v2, 1, 0)
	r.Add("scenarios", int64(len(v2)))
	// V3: 36 sizes just below one and two chunks, all requested (bound 0); V1 plus a fifo and a device: their ids
	// are not requestable
	var vs3 []Scn
	{
		all := make([]int, len(Tree("v3")))
		for i := range all {
			all[i] = i
		}
		for _, pol := range []string{"run", "recv"} {
			vs3 = append(vs3, Scn{Kind: "refrecv", Src: "v3", Cap: 64, Policy: pol, Script: all}, Scn{Kind: "refrecv", Src: "v3", Cap: 2, Policy: pol, Script: all, DiskSrc: true})
		}
		for _, good := range [][]int{{7, 8, 9}, {9, 0, 7}, {8}} {
			for _, pol := range []string{"run", "recv"} {
				vs3 = append(vs3, Scn{Kind: "refrecv", Src: "v1spec", Cap: 2, Policy: pol, Script: good, SelectAlts: true})
			}
		}
		for _, bad := range [][]int{{5}, {6}, {0, 5}, {6, 2}} {
			for _, pol := range []string{"run", "recv"} {
				vs3 = append(vs3, Scn{Kind: "refrecv", Src: "v1spec", Cap: 2, Policy: pol, Script: bad, SelectAlts: true})
			}
		}
	}
	for _, scr := range [][]int{{0, 2, 3}, {3, 2, 0}, {}} {
		for _, pol := range pols {
			vs3 = append(vs3, Scn{Kind: "refrecv", Src: "v1", Cap: 1, Policy: pol, Script: scr, SelectAlts: true, Progress: true, Rendezvous: true})
		}
	}
	exploreAll(p, r, "C06", vs3, 0, 0)
	r.Add("scenarios", int64(len(vs3)))

	// V1 plus a socket and a root entry named like the listing file: ids 0 .fsutil-metadata, 1 a, 3 b/c, 4 b/sock, 7 z
	var odd []Scn
	for _, scr := range [][]int{{0, 1, 3, 4, 7}, {7, 4, 3, 1, 0}, {4}, {7, 0}, {0}, {}} {
		for _, pol := range []string{"run", "recv"} {
			odd = append(odd, Scn{Kind: "refrecv", Src: "v1odd", Cap: 2, Policy: pol, Script: scr, SelectAlts: true, DiskSrc: true},
				Scn{Kind: "refrecv", Src: "v1odd", Cap: 64, Policy: pol, Script: scr, SelectAlts: true})
		}
	}
	exploreAll(p, r, "C06", odd, 1, 0)
	r.Add("scenarios", int64(len(odd)))
	// one spawn site at a time arbitrarily slow (sender's walker, receive loop, workers; the reference peer's threads)
	probe6 := exploreAll(p, r, "C06", []Scn{{Kind: "refrecv", Src: "v1", Cap: 64, Policy: "rr", Script: []int{0, 2, 3}, SelectAlts: true, Progress: true}}, 0, 0)
	if len(probe6) > 0 && probe6[0] != nil {
		var slow []Scn
		for _, role := range probe6[0].Roles {
			for _, scr := range [][]int{{0, 2, 3}, {3, 2, 0}, {2}, {}} {
				for _, cp := range caps {
					slow = append(slow, Scn{Kind: "refrecv", Src: "v1", Cap: cp, Policy: "slow:" + role, Script: scr, SelectAlts: true, Progress: true})
				}
			}
			slow = append(slow, Scn{Kind: "refrecv", Src: "v2", Cap: 1, Policy: "slow:" + role, Script: []int{0, 1, 2, 3, 4}, SelectAlts: true, Progress: true})
			// ... and with stream sends that return late (the answer may be there before the statement after the send)
			for _, scr := range [][]int{{0, 2, 3}, {}} {
				slow = append(slow, Scn{Kind: "refrecv", Src: "v1", Cap: 64, Policy: "slow:" + role, Script: scr, SelectAlts: true, Progress: true, PostYield: true})
			}
		}
		exploreAll(p, r, "C06", slow, 1, 0)
		r.Add("scenarios", int64(len(slow)))
		r.Set("slow_roles", probe6[0].Roles)
	}

	// read faults: reading file K fails after J bytes, every file of V2 requested
	var rf []Scn
	for k, sz := range []int{0, 1, 32768, 32769, 65537} {
		for _, jb := range []int{0, 1, 32768, sz - 1, sz} {
			if jb < 0 || jb > sz {
				continue
			}
			for _, o := range [][]int{{0, 1, 2, 3, 4}, {4, 3, 2, 1, 0}} {
				for _, pol := range []string{"run", "recv"} {
					for _, cp := range caps {
						rf = append(rf, Scn{Kind: "refrecv", Src: "v2", Cap: cp, Policy: pol, Script: o, SelectAlts: true, Fault: Fault{Kind: "read", K: k, J: jb}})
					}
				}
			}
		}
	}
	rfb := 0
	if !quick {
		rfb = 1
	}
	exploreAll(p, r, "C06", dedupScn(rf), rfb, 0)
	r.Add("scenarios", int64(len(rf)))

	// V3: burst of 140 requests (more than pipeline + workers)
	var v3 []Scn
	all := make([]int, 140)
	for i := range all {
		all[i] = i
	}
	rev := append([]int{}, all...)
	sort.Sort(sort.Reverse(sort.IntSlice(rev)))
	for _, o := range [][]int{all, rev} {
		for _, pol := range []string{"run", "recv", "send", "starve"} {
			v3 = append(v3, Scn{Kind: "refrecv", Src: "fan", Cap: 1, Policy: pol, Script: o, Progress: true})
			v3 = append(v3, Scn{Kind: "refrecv", Src: "fan", Cap: 64, Policy: pol, Script: o, Progress: true})
		}
	}
	vb := 0
	if !quick {
		vb = 1
	}
	exploreAll(p, r, "C06", v3, vb, 0)
	r.Add("scenarios", int64(len(v3)))
	r.Set("completed_bound", map[string]int{"v1": bound, "v2": 1, "v3_burst140": vb})
}

func dedupScn(in []Scn) []Scn {
	seen := map[string]bool{}
	var out []Scn
	for _, sc := range in {
		if k := sc.String(); !seen[k] {
			seen[k] = true
			out = append(out, sc)
		}
	}
	return out
}
