//go:build verifrt

package sched

import (
	"fmt"
	"strings"
	"testing"

	"verif/evid"
	"verif/fsmodel"
	"verif/scratch"
)

// oracleFn judges one execution; it returns the violations it sees.
type oracleFn func(j *Job, sc Scn, x *Exec, res *XferRes, src, dst fsmodel.Tree, r *evid.Run) []Viol

// runXferJob is the worker side shared by the checks that explore a
// Send<->Receive scenario.
func runXferJob(t *testing.T, j *Job, r *evid.Run, oracle oracleFn) *JobRes {
	sc := j.Scn
	src, dst := Tree(sc.Src), Tree(sc.Dst)
	destDir := scratch.Dir("dest")
	defer scratch.Remove(destDir)
	srcDir := ""
	if sc.DiskSrc {
		srcDir = scratch.Dir("src")
		defer scratch.Remove(srcDir)
		if err := fsmodel.Materialize(src, srcDir); err != nil {
			return &JobRes{Err: "materialize source: " + err.Error()}
		}
	}
	body := func(t *testing.T, s *Stepper, x *Exec) {
		res := &XferRes{}
		x.Res = res
		if err := prepDest(destDir, dst); err != nil {
			x.Panic = "prepDest: " + err.Error()
			return
		}
		xferBody(sc, src, srcDir, destDir, res)(t, s, x)
		snap, err := fsmodel.Snapshot(destDir)
		res.Dest = snap
		if err != nil {
			res.DestErr = err.Error()
		}
	}
	e := &Explorer{T: t, Policy: sc.Policy, FsPoints: sc.FsPoints, SelectAlts: sc.SelectAlts, Body: body, MaxExecs: j.MaxExecs}
	out := &JobRes{}
	sampled := false
	visited := 0
	e.Visit = func(x *Exec, prefix []int) {
		res, _ := x.Res.(*XferRes)
		r.Evaluations.Add(1)
		r.Traces.Add(1)
		r.Transitions.Add(int64(len(x.Choices)))
		for _, fp := range x.FPs {
			r.StateH(fp)
		}
		if x.Panic != "" {
			out.Err = fmt.Sprintf("execution panicked (%s, prefix %v): %s", sc, prefix, firstLines(x.Panic, 4))
			return
		}
		if res == nil {
			out.Err = "no result"
			return
		}
		viols := append(append([]Viol{}, x.Viol...), oracle(j, sc, x, res, src, dst, r)...)
		dev := 0
		for _, c := range x.Choices {
			if c != 0 {
				dev++
			}
		}
		if dev > 0 {
			r.Nontrivial(fmt.Sprintf("%s|%v", sc, compact(x.Choices)))
		}
		if !sampled && dev > 0 {
			sampled = true
			r.Sample(map[string]any{"scenario": sc.String(), "deviations": dev, "steps": len(x.Choices), "schedule_head": head(x.Trace, 12), "packets": head(res.Log, 8)})
		}
		if len(viols) == 0 {
			// determinism is asserted, not assumed: every 300th passing execution is replayed from its own
			// choice sequence and must release exactly the same (thread, operation) sequence
			visited++
			if visited%300 == 1 {
				y := RunOne(t, sc.Policy, sc.FsPoints, sc.SelectAlts, x.Choices, x.Trace, body)
				r.Add("replays_checked", 1)
				if y.Diverged != "" || len(y.Trace) != len(x.Trace) {
					r.Add("divergences", 1)
					out.Diverged = append(out.Diverged, fmt.Sprintf("replay of a passing schedule diverged (%s): %s (len %d vs %d)", sc, y.Diverged, len(y.Trace), len(x.Trace)))
				}
			}
			return
		}
		// believe a violation only if the same schedule reproduces it
		for k := 0; k < 2; k++ {
			y := RunOne(t, sc.Policy, sc.FsPoints, sc.SelectAlts, x.Choices, x.Trace, body)
			yres, _ := y.Res.(*XferRes)
			if y.Diverged != "" || yres == nil {
				out.Diverged = append(out.Diverged, fmt.Sprintf("re-run of violating schedule diverged (%s): %s", sc, y.Diverged))
				return
			}
			v2 := append(append([]Viol{}, y.Viol...), oracle(j, sc, y, yres, src, dst, evid.New("x", "x"))...)
			if keys(v2) != keys(viols) {
				out.Diverged = append(out.Diverged, fmt.Sprintf("violation not reproducible on the same schedule (%s): %s vs %s", sc, keys(viols), keys(v2)))
				return
			}
		}
		for _, v := range viols {
			r.Violate(v.Key, fmt.Sprintf("%s: %s", sc, v.Msg), map[string]any{
				"scn": sc, "choices": compact(x.Choices), "trace": x.Trace, "packets": res.Log,
				"send_err": res.SendErr, "recv_err": res.RecvErr, "parked": res.Parked, "dest": res.Dest.Strings()})
		}
	}
	root := e.Run(j.Prefix, nil, j.Bound, j.Lo, j.Hi, j.SkipRoot)
	out.RootNOpts = root.NOpts
	out.Roles = dedup(root.Roles)
	if rr, ok := root.Res.(*XferRes); ok && rr != nil {
		out.RootOut = outcomeOf(rr, dst)
		if sc.MetaOn {
			out.RootOut = metaOutcome(rr)
		}
		out.Info = rr.Counts
	}
	out.Execs, out.Steps = e.Execs, e.Steps
	out.Diverged = append(out.Diverged, e.Diverged...)
	out.Truncated = e.Truncated
	return out
}

func keys(v []Viol) string {
	var k []string
	for _, x := range v {
		k = append(k, x.Key)
	}
	return strings.Join(sortedCopy(k), ",")
}

// compact trims trailing zero choices (the default continuation).
func compact(c []int) []int {
	n := len(c)
	for n > 0 && c[n-1] == 0 {
		n--
	}
	return append([]int{}, c[:n]...)
}

func head(s []string, n int) []string {
	if len(s) > n {
		return s[:n]
	}
	return s
}
