//go:build verifrt

package sched

import "time"

func timeNow() time.Time { return time.Now() }
