//go:build verifrt

package sched

import (
	"fmt"
	"strings"
	"sync"
	"testing"

	"github.com/tonistiigi/fsutil"
	"verif/evid"
	"verif/fsmodel"
	"verif/memfs"
	"verif/scratch"
	"verif/xfer"
)

func init() {
	impls["C04"] = &checkImpl{Drive: driveC04, RunJob: func(t *testing.T, j *Job, r *evid.Run) *JobRes { return runXferJob(t, j, r, oracleC04) }}
}

var (
	recoverMu   sync.Mutex
	recoverSeen = map[string]string{} // leftover fingerprint -> "" ok / message
)

// recoverInto runs a fault-free, free-running transfer of src into a copy of the
// leftover tree and reports why it does not converge ("" = converges).
func recoverInto(src, leftover fsmodel.Tree) string {
	fp := src.String() + "<-" + normTmp(leftover).String()
	recoverMu.Lock()
	if m, ok := recoverSeen[fp]; ok {
		recoverMu.Unlock()
		return m
	}
	recoverMu.Unlock()
	dir := scratch.Dir("recover")
	defer scratch.Remove(dir)
	msg := ""
	if err := fsmodel.Materialize(leftover, dir); err != nil {
		msg = "cannot rebuild leftover tree: " + err.Error()
	} else {
		res := xfer.Run(memfs.New(src), dir, fsutil.ReceiveOpt{}, nil)
		switch {
		case res.TimedOut:
			msg = "recovery transfer timed out"
		case res.SendErr != nil || res.RecvErr != nil:
			msg = fmt.Sprintf("recovery transfer failed: send=%v recv=%v", res.SendErr, res.RecvErr)
		default:
			got, err := fsmodel.Snapshot(dir)
			if err != nil {
				msg = err.Error()
			} else if d := fsmodel.Diff(src, got, destMask(leftover)); len(d) > 0 {
				msg = "after recovery dest differs: " + strings.Join(head(d, 5), " | ")
			}
		}
	}
	recoverMu.Lock()
	recoverSeen[fp] = msg
	recoverMu.Unlock()
	return msg
}

// normTmp renames temp entries canonically so equal leftovers are recognised.
func normTmp(t fsmodel.Tree) fsmodel.Tree {
	out := t.Clone()
	for i := range out {
		if k := strings.LastIndex(out[i].Path, ".tmp."); k >= 0 && !strings.Contains(out[i].Path[k:], "/") {
			out[i].Path = out[i].Path[:k] + ".tmp.N"
		}
		if out[i].Kind == fsmodel.Dir {
			out[i].Mtime = 0
		}
	}
	return out
}

func oracleC04(j *Job, sc Scn, x *Exec, res *XferRes, src, dst fsmodel.Tree, r *evid.Run) []Viol {
	var v []Viol
	if res.Stuck {
		r.Add("deadlocks_before_teardown", 1)
	}
	if res.FaultHit || sc.Fault.Kind == "" {
		r.Add("executions_with_fault_reached", 1)
	}
	if res.Hang {
		who := res.HangWho
		v = append(v, Viol{"hang-after-teardown:" + who, fmt.Sprintf("%s call(s) still blocked after the stream was torn down in both directions; parked: %v", who, res.Parked)})
		return v
	}
	for _, o := range dedup(res.Overlaps) {
		v = append(v, Viol{"overlap:" + o, "two " + o + " calls in flight"})
	}
	if res.DestErr != "" {
		v = append(v, Viol{"dest-unreadable", res.DestErr})
		return v
	}
	diff := fsmodel.Diff(src, res.Dest, destMask(dst))
	r.Outcome(fmt.Sprintf("send-ok=%v recv-ok=%v dest-equal=%v", res.SendErr == "", res.RecvErr == "", len(diff) == 0))
	if res.RecvErr == "" && len(diff) > 0 {
		v = append(v, Viol{"false-success-receive", "Receive returned nil but the destination differs from the source view: " + strings.Join(head(diff, 5), " | ")})
	}
	if res.SendErr == "" && !res.FinToS {
		v = append(v, Viol{"false-success-send", "Send returned nil although the receiver never sent FIN"})
	}
	if sc.Fault.Kind == "" && (res.SendErr != "" || res.RecvErr != "") {
		v = append(v, Viol{"fault-free-failed", fmt.Sprintf("no fault injected but send=%q recv=%q", res.SendErr, res.RecvErr)})
	}
	if len(diff) > 0 {
		if m := recoverInto(src, res.Dest); m != "" {
			v = append(v, Viol{"no-recovery", "a fault-free transfer into what the aborted run left behind does not converge: " + m})
		}
		r.Add("recoveries_checked", 1)
	}
	for i, c := range res.Crashes {
		if m := recoverInto(src, c); m != "" {
			v = append(v, Viol{"no-recovery-after-kill", fmt.Sprintf("receiver killed at quiescent point %d leaves %s; %s", i, c.String(), m)})
		}
		r.Add("crash_points_checked", 1)
	}
	return v
}

func driveC04(p *Pool, r *evid.Run) {
	r.Technique = "fault enumeration x stateless model checking: every (fault kind, position) of a transfer is injected into the real Send/Receive under the controlled scheduler, each explored with delay-bounded DFS; forced stream teardown + synctest leak detection decide termination"
	r.Rule = "one evaluation = one complete execution of (scenario, fault, schedule); non-trivial = executions with a deviation from the base policy; states = distinct quiescent-state fingerprints"
	r.Assume = []string{"termination is judged after the transport is torn down in both directions (the property's condition); contexts of the caller are not cancelled by the harness", "kill -9 of the receiver is modelled by the file-system state at a quiescent point (every fs call of the disk writer is a scheduling point in crash scenarios)"}
	quick := r.Tier == "quick"

	type base struct {
		src, dst string
		pols     []string
		caps     []int
		bound    int
	}
	bases := []base{{"small", "small-dirty", []string{"run", "recv"}, []int{1, 64}, 1}}
	if !quick {
		bases = []base{{"small", "small-dirty", []string{"run", "rr", "recv", "send"}, []int{1, 2, 64}, 1}, {"six", "empty", []string{"run", "recv"}, []int{1, 64}, 1},
			{"c19hl", "c19hl-dirty", []string{"run", "recv"}, []int{1, 64}, 1}}
	}
	for _, b := range bases {
		// fault-free roots give the operation counts that bound the fault positions
		var roots []Scn
		for _, pol := range b.pols {
			for _, cp := range b.caps {
				roots = append(roots, Scn{Kind: "xfer", Src: b.src, Dst: b.dst, Cap: cp, Policy: pol, Notify: true, SelectAlts: true})
			}
		}
		rres := exploreAll(p, r, "C04", roots, 0, 0)
		var scns []Scn
		srcTree := Tree(b.src)
		for i, root := range roots {
			info := rres[i].Info
			if info == nil {
				continue
			}
			add := func(f Fault) {
				sc := root
				sc.Fault = f
				scns = append(scns, sc)
			}
			for _, kind := range []string{"S.send", "S.recv", "R.send", "R.recv"} {
				for k := 0; k < info[kind]; k++ {
					add(Fault{Kind: kind, K: k})
				}
			}
			step := 1
			if quick {
				step = 2
			}
			for _, kind := range []string{"cancelS", "cancelR", "cancelB", "break", "breakC", "killR", "killS"} {
				for k := 0; k < info["steps"]; k += step {
					add(Fault{Kind: kind, K: k})
				}
			}
			for k := 0; k <= len(srcTree); k++ {
				add(Fault{Kind: "walk", K: k})
			}
			fi := 0
			for _, n := range srcTree {
				if n.Kind != fsmodel.File {
					continue
				}
				for _, jb := range []int{0, 1, 32768, len(n.Data) - 1} {
					if jb >= 0 && jb < len(n.Data) {
						add(Fault{Kind: "read", K: fi, J: jb})
					}
				}
				fi++
			}
			for k := 0; k < info["hasher"]; k++ {
				add(Fault{Kind: "hasher", K: k})
			}
			for k := 0; k < info["notify"]; k++ {
				add(Fault{Kind: "notify", K: k})
			}
		}
		r.Add("fault_scenarios", int64(len(scns)))
		bound := b.bound
		if quick {
			// quick: every fault position at bound 0; bound 1 around the "run" policy with capacity 1
			exploreAll(p, r, "C04", scns, 0, 0)
			var deep []Scn
			for _, sc := range scns {
				if sc.Policy == "run" && sc.Cap == 1 {
					deep = append(deep, sc)
				}
			}
			exploreAll(p, r, "C04", deep, 1, 0)
		} else {
			exploreAll(p, r, "C04", scns, bound, 0)
		}
	}

	// on-disk source (fsutil's own walker and opener), destination equal or dirty: cancellation and
	// stream faults at every position
	var disk []Scn
	for _, dstName := range []string{"small-same", "small-dirty"} {
		for _, pol := range []string{"run", "recv"} {
			root := Scn{Kind: "xfer", Src: "small", Dst: dstName, Cap: 2, Policy: pol, DiskSrc: true, SelectAlts: true}
			rr := exploreAll(p, r, "C04", []Scn{root}, 0, 0)
			if rr[0].Info == nil {
				continue
			}
			for _, kind := range []string{"cancelS", "cancelB", "cancelR", "break", "breakC", "killR", "killS"} {
				for k := 0; k < rr[0].Info["steps"]; k++ {
					sc := root
					sc.Fault = Fault{Kind: kind, K: k}
					disk = append(disk, sc)
				}
			}
			for _, kind := range []string{"S.send", "S.recv", "R.send", "R.recv"} {
				for k := 0; k < rr[0].Info[kind]; k++ {
					sc := root
					sc.Fault = Fault{Kind: kind, K: k}
					disk = append(disk, sc)
				}
			}
		}
	}
	r.Add("fault_scenarios", int64(len(disk)))
	if quick {
		// every position at bound 0; bound 1 where nothing is requested after the fault (equal destination)
		exploreAll(p, r, "C04", disk, 0, 0)
		var deep []Scn
		for _, sc := range disk {
			if sc.Dst == "small-same" && sc.Policy == "run" {
				deep = append(deep, sc)
			}
		}
		exploreAll(p, r, "C04", deep, 1, 0)
	} else {
		exploreAll(p, r, "C04", disk, 1, 0)
	}

	// one spawn site at a time arbitrarily slow, with a kill/cancel/teardown at every other step
	probe4 := exploreAll(p, r, "C04", []Scn{{Kind: "xfer", Src: "small", Dst: "small-dirty", Cap: 64, Policy: "rr", Notify: true, SelectAlts: true}}, 0, 0)
	if len(probe4) > 0 && probe4[0] != nil {
		var roots4 []Scn
		for _, role := range probe4[0].Roles {
			roots4 = append(roots4, Scn{Kind: "xfer", Src: "small", Dst: "small-dirty", Cap: 1, Policy: "slow:" + role, Notify: true, SelectAlts: true})
		}
		rr4 := exploreAll(p, r, "C04", roots4, 0, 0)
		var slow []Scn
		for i, root := range roots4 {
			if rr4[i] == nil || rr4[i].Info == nil {
				continue
			}
			step := 2
			if !quick {
				step = 1
			}
			for _, kind := range []string{"killR", "killS", "cancelR", "cancelS", "break"} {
				for k := 0; k < rr4[i].Info["steps"]; k += step {
					sc := root
					sc.Fault = Fault{Kind: kind, K: k}
					slow = append(slow, sc)
				}
			}
		}
		r.Add("fault_scenarios", int64(len(slow)))
		exploreAll(p, r, "C04", slow, 0, 0)
	}

	// a large stale destination the differ has not consumed when it stops: tiny source, 400 entries in the destination
	var stale []Scn
	for _, pol := range []string{"run", "recv", "send"} {
		root := Scn{Kind: "xfer", Src: "tiny", Dst: "fan400", Cap: 2, Policy: pol}
		rs := exploreAll(p, r, "C04", []Scn{root}, 0, 0)
		if rs[0] == nil || rs[0].Info == nil {
			continue
		}
		steps := rs[0].Info["steps"]
		for _, kind := range []string{"break", "cancelR", "cancelS", "killS", "R.recv", "S.send"} {
			n := steps
			if kind == "R.recv" || kind == "S.send" {
				n = rs[0].Info[kind]
			}
			stride := n/12 + 1
			if !quick {
				stride = n/40 + 1
			}
			for k := 0; k < n; k += stride {
				sc := root
				sc.Fault = Fault{Kind: kind, K: k}
				stale = append(stale, sc)
			}
		}
	}
	r.Add("fault_scenarios", int64(len(stale)))
	exploreAll(p, r, "C04", stale, 0, 0)

	// large fan-out: more than 132 requests outstanding while the link is stalled
	var fan []Scn
	fanRoot := Scn{Kind: "xfer", Src: "fan", Dst: "empty", Cap: 1, Policy: "starve"}
	rr := exploreAll(p, r, "C04", []Scn{fanRoot, {Kind: "xfer", Src: "fan", Dst: "empty", Cap: 64, Policy: "run"}}, 0, 0)
	for i, root := range []Scn{fanRoot, {Kind: "xfer", Src: "fan", Dst: "empty", Cap: 64, Policy: "run"}} {
		if rr[i].Info == nil {
			continue
		}
		steps := rr[i].Info["steps"]
		stride := steps / 60
		if !quick {
			stride = steps / 300
		}
		if stride < 1 {
			stride = 1
		}
		for _, kind := range []string{"break", "cancelS", "cancelR", "killR"} {
			for k := 0; k < steps; k += stride {
				sc := root
				sc.Fault = Fault{Kind: kind, K: k}
				fan = append(fan, sc)
			}
		}
	}
	r.Add("fault_scenarios", int64(len(fan)))
	exploreAll(p, r, "C04", fan, 0, 0)

	// 400 files with notifications: callback errors and cancellation while every internal queue is full
	var big, bigRoots []Scn
	bigPols := []string{"send", "run"}
	ks := []int{0, 130}
	if !quick {
		bigPols = []string{"send", "run", "recv", "starve"}
		ks = []int{0, 1, 5, 130, 300}
	}
	for _, pol := range bigPols {
		bigRoots = append(bigRoots, Scn{Kind: "xfer", Src: "fan400", Dst: "empty", Cap: 64, Policy: pol, Notify: true})
	}
	brr := exploreAll(p, r, "C04", bigRoots, 0, 0)
	for i, root := range bigRoots {
		for _, k := range ks {
			for _, kind := range []string{"hasher", "notify"} {
				sc := root
				sc.Fault = Fault{Kind: kind, K: k}
				big = append(big, sc)
			}
		}
		if brr[i].Info != nil {
			steps := brr[i].Info["steps"]
			n := 6
			if !quick {
				n = 12
			}
			for _, kind := range []string{"cancelR", "cancelS", "break", "killR"} {
				for k := 0; k < steps; k += steps/n + 1 {
					sc := root
					sc.Fault = Fault{Kind: kind, K: k}
					big = append(big, sc)
				}
			}
		}
	}
	r.Add("fault_scenarios", int64(len(big)))
	exploreAll(p, r, "C04", big, 0, 0)

	// kill points: every quiescent state (fs calls are points) of fault-free runs
	var crash []Scn
	for _, pol := range []string{"run", "recv", "rr"} {
		crash = append(crash, Scn{Kind: "xfer", Src: "small", Dst: "small-dirty", Cap: 2, Policy: pol, FsPoints: true, Crash: true})
		crash = append(crash, Scn{Kind: "xfer", Src: "mid", Dst: "mid-dirty", Cap: 2, Policy: pol, FsPoints: true, Crash: true})
		// hard links: a later name may be linked to an inode whose content has not arrived yet
		crash = append(crash, Scn{Kind: "xfer", Src: "c19hl", Dst: "empty", Cap: 2, Policy: pol, FsPoints: true, Crash: true})
		crash = append(crash, Scn{Kind: "xfer", Src: "c19hl", Dst: "c19hl-dirty", Cap: 2, Policy: pol, FsPoints: true, Crash: true})
	}
	cb := 0
	if !quick {
		cb = 1
	}
	exploreAll(p, r, "C04", crash, cb, 0)
	r.Set("completed_bound", map[string]any{"fault_scenarios": map[bool]int{true: 1, false: 1}[quick], "fan": 0, "crash": cb})
}
