//go:build verifrt

package sched

import (
	"context"
	"fmt"
	"os"
	"strings"
	"sync"
	"testing"

	"github.com/tonistiigi/fsutil"
	"github.com/tonistiigi/fsutil/types"
	"verif/evid"
	"verif/fsmodel"
	"verif/memfs"
	"verif/netsim"
	"verif/scratch"
	"verif/vrt"
)

func init() {
	impls["C07"] = &checkImpl{Drive: driveC07, RunJob: runC07Job}
}

type RefSendRes struct {
	RecvDone bool
	RecvErr  string
	Log      []string
	Mon      []string
	Reqs     []uint32
	Dest     fsmodel.Tree
	FinSeen  bool
	Aborted  bool
	Stuck    bool
	Hang     bool
	Parked   []string
	Overlaps []string
}

const metaName = ".fsutil-metadata"

// payloadOf: what the reference sender streams for a file in the "payload:<delta>" variants - the announced size is
// not what arrives (the file shrank, grew or vanished after it was listed). The receiver must store the payloads.
func payloadOf(sc Scn, data []byte) []byte {
	v, ok := strings.CutPrefix(sc.Variant, "payload:")
	if !ok {
		return data
	}
	delta := 0
	fmt.Sscanf(v, "%d", &delta)
	if delta < 0 {
		if -delta >= len(data) {
			return nil
		}
		return data[:len(data)+delta]
	}
	out := append([]byte{}, data...)
	for i := 0; i < delta; i++ {
		out = append(out, 0x5a)
	}
	return out
}

func payloadTree(sc Scn, t fsmodel.Tree) fsmodel.Tree {
	out := t.Clone()
	for i := range out {
		if out[i].Kind == fsmodel.File && out[i].HL == 0 {
			out[i].Data = payloadOf(sc, out[i].Data)
		}
		// names of one fifo or device inode are announced as links but stored as nodes of their own (DESIGN 5.3): the
		// group is not part of what the destination has to reproduce
		if out[i].Kind != fsmodel.File && out[i].Kind != fsmodel.Dir {
			out[i].HL = 0
		}
	}
	return out
}

// needsContent: a conforming receiver must request exactly the regular non-link
// files whose identity differs from what the destination holds.
func needsContent(st *types.Stat, prior fsmodel.Tree) bool {
	if st.Mode&uint32(os.ModeType) != 0 || st.Linkname != "" { // not a plain regular file
		return false
	}
	for _, ps := range memfs.Stats(prior) { // the destination as a walk would describe it
		if ps.Path == st.Path {
			return ps.Mode != st.Mode || ps.Uid != st.Uid || ps.Gid != st.Gid || ps.Size != st.Size || ps.ModTime != st.ModTime ||
				ps.Linkname != st.Linkname || ps.Devmajor != st.Devmajor || ps.Devminor != st.Devminor
		}
	}
	return true
}

func refSendBody(sc Scn, src, dst fsmodel.Tree, destDir string, res *RefSendRes) Body {
	stats := memfs.Stats(src)
	sorted := src.Clone()
	sorted.Sort()
	return func(t *testing.T, s *Stepper, x *Exec) {
		link := netsim.NewLink(sc.Cap)
		link.PostYield = sc.PostYield
		link.Rendezvous = sc.Rendezvous
		rctx, rcancel := context.WithCancel(context.Background())
		defer rcancel()
		sEnd := link.End("S", context.Background())
		rEnd := link.End("R", rctx)
		var mu sync.Mutex
		mon := func(f string, a ...any) {
			mu.Lock()
			if len(res.Mon) < 8 {
				res.Mon = append(res.Mon, fmt.Sprintf(f, a...))
			}
			mu.Unlock()
		}
		statsSent, endSent := 0, false
		requested := map[uint32]bool{}
		termSent := map[uint32]bool{}
		var pending []uint32
		sent := 0
		abortAt := -1
		if strings.HasPrefix(sc.Variant, "eof@") {
			fmt.Sscanf(sc.Variant, "eof@%d", &abortAt)
		}
		meta := sc.Variant == "meta" || sc.Variant == "metanone"
		senderGone := false
		finish := func() {
			mu.Lock()
			if !senderGone {
				senderGone = true
				mu.Unlock()
				sEnd.Returned()
				return
			}
			mu.Unlock()
		}
		// send wraps SendMsg with the premature-close variant
		send := func(p *types.Packet) bool {
			mu.Lock()
			gone := senderGone
			if !gone && abortAt >= 0 && sent >= abortAt {
				res.Aborted = true
				mu.Unlock()
				finish()
				return false
			}
			sent++
			mu.Unlock()
			if gone {
				return false
			}
			return sEnd.SendMsg(p) == nil
		}
		expectDest := func() fsmodel.Tree {
			t := payloadTree(sc, filtered(sc, sorted))
			if meta {
				var o fsmodel.Tree
				for _, n := range t {
					if n.Path != metaName {
						o = append(o, n)
					}
				}
				t = o
			}
			return t
		}
		link.OnSend = func(from string, p *types.Packet) {
			if from != "R" {
				return
			}
			if p.Type == types.PACKET_FIN {
				mu.Lock()
				ok := endSent
				missing := []uint32{}
				for id := range requested {
					if !termSent[id] {
						missing = append(missing, id)
					}
				}
				mu.Unlock()
				if !ok {
					mon("FIN sent before the end-of-stats marker was sent")
				}
				if len(missing) > 0 {
					mon("FIN sent before the terminators of ids %v were sent", missing)
				}
				if a, _ := link.Pending(); a > 0 {
					mon("FIN sent while %d packets from the sender are still undelivered", a)
				}
				if snap, err := fsmodel.Snapshot(destDir); err == nil {
					got := stripMeta(snap)
					m := destMask(dst)
					m.NoMtime = true // directory and file times are settled by then, but only content is promised here
					if d := fsmodel.Diff(stripMetaIf(expectDest(), true), got, m); len(d) > 0 {
						mon("FIN sent but content is not on disk yet: %s", strings.Join(head(d, 4), " | "))
					}
				}
			}
		}
		opt := fsutil.ReceiveOpt{}
		if pref, ok := strings.CutPrefix(sc.Variant, "filter:"); ok {
			opt.Filter = func(p string, st *types.Stat) bool { return !strings.HasPrefix(p, pref) }
		}
		if sc.Variant == "meta" {
			opt.MetadataOnly = func(string, *types.Stat) bool { return true }
		}
		go func() {
			vrt.Gate("start R", nil)
			err := fsutil.Receive(rctx, rEnd, destDir, opt)
			res.RecvErr, res.RecvDone = errstr(err), true
			rEnd.Returned()
		}()
		statDone, readDone := false, false
		dataDone := [2]bool{}
		go func() {
			vrt.Gate("start peerS.stat", nil)
			defer func() { statDone = true }()
			for _, st := range stats {
				mu.Lock()
				statsSent++
				mu.Unlock()
				if !send(&types.Packet{Type: types.PACKET_STAT, Stat: st.Clone()}) {
					return
				}
			}
			mu.Lock()
			endSent = true
			mu.Unlock()
			send(&types.Packet{Type: types.PACKET_STAT})
		}()
		go func() {
			vrt.Gate("start peerS.reader", nil)
			defer func() { readDone = true }()
			if sc.Variant == "seq" {
				// a single-threaded sender: it announces everything first and only then reads what was requested
				vrt.Gate("peerS.reader waits for the listing", func() bool { return statDone || senderGone || res.RecvDone })
			}
			for {
				var p types.Packet
				if err := sEnd.RecvMsg(&p); err != nil {
					return
				}
				switch p.Type {
				case types.PACKET_REQ:
					id := p.ID
					mu.Lock()
					n := statsSent
					dup := requested[id]
					requested[id] = true
					res.Reqs = append(res.Reqs, id)
					mu.Unlock()
					switch {
					case int(id) >= n:
						mon("REQ %d before that id was announced (%d STATs sent)", id, n)
						continue
					case dup:
						mon("REQ %d sent twice", id)
						continue
					case stats[id].Mode&uint32(os.ModeType) != 0 || stats[id].Linkname != "":
						mon("REQ %d for %q which is not a regular non-link file (mode %o link %q)", id, stats[id].Path, stats[id].Mode, stats[id].Linkname)
						continue
					case !needsContent(stats[id], dst):
						mon("REQ %d for %q which is unchanged in the destination", id, stats[id].Path)
					}
					mu.Lock()
					pending = append(pending, id)
					mu.Unlock()
				case types.PACKET_FIN:
					res.FinSeen = true
					send(&types.Packet{Type: types.PACKET_FIN})
					finish()
					return
				case types.PACKET_ERR:
					finish()
					return
				}
			}
		}()
		for w := 0; w < 2; w++ {
			w := w
			go func() {
				vrt.Gate(fmt.Sprintf("start peerS.data%d", w), nil)
				defer func() { dataDone[w] = true }()
				for {
					vrt.Gate(fmt.Sprintf("peerS.data%d next", w), func() bool { return len(pending) > 0 || senderGone || res.RecvDone })
					mu.Lock()
					if len(pending) == 0 {
						mu.Unlock()
						return
					}
					id := pending[0]
					pending = pending[1:]
					mu.Unlock()
					data := sorted[id].Data
					if sorted[id].HL == 0 {
						data = payloadOf(sc, data)
					}
					ci := 0
					for off := 0; off < len(data); {
						n := 32 * 1024
						if len(sc.Chunk) > 0 {
							n = sc.Chunk[ci%len(sc.Chunk)]
							ci++
						}
						if n > len(data)-off {
							n = len(data) - off
						}
						if !send(&types.Packet{Type: types.PACKET_DATA, ID: id, Data: append([]byte{}, data[off:off+n]...)}) {
							return
						}
						off += n
					}
					mu.Lock()
					termSent[id] = true
					mu.Unlock()
					if !send(&types.Packet{Type: types.PACKET_DATA, ID: id}) {
						return
					}
				}
			}()
		}
		s.Extra = func() string {
			a, b := link.Pending()
			return fmt.Sprintf("|q%d,%d|l%d|%v", a, b, len(link.Log), res.RecvDone)
		}
		allDone := func() bool { return res.RecvDone && statDone && readDone && dataDone[0] && dataDone[1] }
		for {
			if s.Step() {
				continue
			}
			if allDone() {
				break
			}
			if res.RecvDone && !link.Torn {
				link.Torn = true
				continue
			}
			if !link.Torn {
				res.Stuck = true
				res.Parked = s.Ctl.Parked()
				link.Torn = true
				continue
			}
			res.Hang = !res.RecvDone
			res.Parked = s.Ctl.Parked()
			rcancel()
			for s.Step() {
			}
			break
		}
		res.Log = link.LogStrings()
		res.Overlaps = link.Overlaps
	}
}

// filtered drops what a receiver-side Filter of the scenario hides.
func filtered(sc Scn, t fsmodel.Tree) fsmodel.Tree {
	pref, ok := strings.CutPrefix(sc.Variant, "filter:")
	if !ok {
		return t.Clone()
	}
	var o fsmodel.Tree
	for _, n := range t {
		if !strings.HasPrefix(n.Path, pref) {
			o = append(o, n)
		}
	}
	return o
}

func stripMeta(t fsmodel.Tree) fsmodel.Tree { return stripMetaIf(t, true) }

func stripMetaIf(t fsmodel.Tree, on bool) fsmodel.Tree {
	if !on {
		return t
	}
	var o fsmodel.Tree
	for _, n := range t {
		if n.Path != metaName {
			o = append(o, n)
		}
	}
	return o
}

func runC07Job(t *testing.T, j *Job, r *evid.Run) *JobRes {
	sc := j.Scn
	src, dst := Tree(sc.Src), Tree(sc.Dst)
	destDir := scratch.Dir("dest")
	defer scratch.Remove(destDir)
	stats := memfs.Stats(src)
	meta := sc.Variant == "meta"
	body := func(t *testing.T, s *Stepper, x *Exec) {
		res := &RefSendRes{}
		x.Res = res
		if err := prepDest(destDir, dst); err != nil {
			x.Panic = err.Error()
			return
		}
		refSendBody(sc, src, dst, destDir, res)(t, s, x)
		res.Dest, _ = fsmodel.Snapshot(destDir)
	}
	oracle := func(x *Exec, r *evid.Run) []Viol {
		res := x.Res.(*RefSendRes)
		var v []Viol
		for _, m := range res.Mon {
			v = append(v, Viol{"protocol:" + monKey(m), m})
		}
		for _, o := range dedup(res.Overlaps) {
			if strings.HasPrefix(o, "R.") { // the reference sender's own threads share its end freely
				v = append(v, Viol{"overlap:" + o, "two " + o + " calls in flight on one end"})
			}
		}
		if res.Hang {
			v = append(v, Viol{"hang", fmt.Sprintf("Receive still blocked after teardown; parked %v", res.Parked)})
			return v
		}
		r.Outcome(fmt.Sprintf("ok=%v", res.RecvErr == ""))
		if res.Aborted {
			if res.RecvErr == "" && !res.FinSeen {
				v = append(v, Viol{"eof-before-fin-accepted", "the sender closed the stream before the receiver's FIN, but Receive returned nil"})
			}
			return v
		}
		if res.RecvErr != "" {
			v = append(v, Viol{"conforming-sender-failed", "Receive failed against a conforming sender: " + res.RecvErr})
			return v
		}
		if res.Stuck {
			v = append(v, Viol{"stuck", fmt.Sprintf("blocked with a conforming sender; parked %v", res.Parked)})
		}
		want := payloadTree(sc, filtered(sc, src))
		want.Sort()
		got := res.Dest
		if meta {
			want, got = stripMeta(want), stripMeta(got)
		}
		if d := fsmodel.Diff(want, got, destMask(dst)); len(d) > 0 {
			v = append(v, Viol{"dest-differs", "destination differs from the announced tree with bytes = concatenated payloads: " + strings.Join(head(d, 5), " | ")})
		}
		need := map[uint32]bool{}
		for i, st := range stats {
			if meta && st.Path == metaName {
				continue
			}
			if pref, ok := strings.CutPrefix(sc.Variant, "filter:"); ok && strings.HasPrefix(st.Path, pref) {
				continue
			}
			if needsContent(st, dst) {
				need[uint32(i)] = true
			}
		}
		gotReq := map[uint32]bool{}
		for _, id := range res.Reqs {
			gotReq[id] = true
		}
		for id := range need {
			if !gotReq[id] {
				v = append(v, Viol{"needed-id-not-requested", fmt.Sprintf("id %d (%s) differs from the destination but was never requested", id, stats[id].Path)})
			}
		}
		return v
	}
	detail := func(x *Exec) map[string]any {
		res := x.Res.(*RefSendRes)
		return map[string]any{"packets": head(res.Log, 80), "recv_err": res.RecvErr, "monitor": res.Mon, "reqs": res.Reqs, "dest": res.Dest.Strings()}
	}
	return runGenericJob(t, j, r, body, oracle, detail, func(x *Exec) (string, map[string]int) {
		res := x.Res.(*RefSendRes)
		return "", map[string]int{"packets": len(res.Log)}
	})
}

func compositions(n int) [][]int {
	if n == 0 {
		return [][]int{{}}
	}
	var out [][]int
	for first := 1; first <= n; first++ {
		for _, rest := range compositions(n - first) {
			out = append(out, append([]int{first}, rest...))
		}
	}
	return out
}

func driveC07(p *Pool, r *evid.Run) {
	r.Technique = "stateless model checking of the real receiver against an independent reference sender (STAT/DATA threads whose interleaving, chunking and premature close are enumerated) with an online protocol monitor and disk snapshots at FIN"
	r.Rule = "one evaluation = one complete execution of (tree, prior destination, chunking, schedule); non-trivial = distinct (scenario, choice sequence); states = distinct quiescent-state fingerprints"
	r.Assume = []string{"reference sender and monitor are written from the protocol comment in receive.go, sharing no code with fsutil's sender"}
	quick := r.Tier == "quick"
	pols := []string{"run", "rund", "recv", "send"}
	var scns []Scn
	for _, dst := range []string{"empty", "c7same", "c7diff", "c7swap"} {
		for _, ch := range [][]int{nil, {1}, {2, 3}, {1 << 20}} {
			if quick && dst != "empty" && ch != nil && len(ch) == 2 {
				continue
			}
			for _, pol := range pols {
				for _, cp := range []int{1, 64} {
					src := "c7src"
					if len(ch) > 0 && ch[0] < 1000 {
						src = "c7tiny" // byte-sized chunks only on byte-sized files
					}
					scns = append(scns, Scn{Kind: "refsend", Src: src, Dst: dst, Cap: cp, Policy: pol, Chunk: ch, SelectAlts: true})
				}
			}
		}
	}
	// all chunk compositions of a 5-byte file
	for _, c := range compositions(5) {
		scns = append(scns, Scn{Kind: "refsend", Src: "one5", Dst: "empty", Cap: 2, Policy: "run", Chunk: c, SelectAlts: true})
	}
	// metadata-only mode with every entry selected; source with and without the listing name
	for _, src := range []string{"c7meta", "c7plain"} {
		for _, pol := range pols {
			scns = append(scns, Scn{Kind: "refsend", Src: src, Dst: "empty", Cap: 2, Policy: pol, Variant: "meta", SelectAlts: true})
		}
	}
	// receiver-side Filter hiding entries: ids are still positions in the full STAT sequence
	for _, pref := range []string{"a", "d", "e", "p"} {
		for _, pol := range pols {
			scns = append(scns, Scn{Kind: "refsend", Src: "c7plain2", Dst: "empty", Cap: 2, Policy: pol, Variant: "filter:" + pref, SelectAlts: true})
		}
	}
	// what arrives is not what was announced: every file 3 bytes short, empty, or 5 bytes longer than its stat says
	for _, delta := range []string{"-3", "-1073741824", "5"} {
		for _, pol := range []string{"run", "recv"} {
			for _, src := range []string{"c7tiny", "c7src"} {
				scns = append(scns, Scn{Kind: "refsend", Src: src, Dst: "empty", Cap: 64, Policy: pol, Variant: "payload:" + delta, SelectAlts: true})
			}
		}
	}
	// a sender that reads requests only after it has sent the whole listing (nothing obliges it to read earlier)
	for _, dst := range []string{"empty", "c7diff"} {
		for _, pol := range pols {
			for _, cp := range []int{1, 2} {
				scns = append(scns, Scn{Kind: "refsend", Src: "c7tiny", Dst: dst, Cap: cp, Policy: pol, Variant: "seq", SelectAlts: true})
			}
		}
	}
	// zero runs in the content x chunk sizes around a page
	for _, dst := range []string{"empty", "c7zeros-old"} {
		for _, ch := range [][]int{nil, {4096}, {49152}, {1 << 20}, {4095, 4097}} {
			for _, pol := range []string{"run", "recv"} {
				scns = append(scns, Scn{Kind: "refsend", Src: "c7zeros", Dst: dst, Cap: 64, Policy: pol, Chunk: ch, SelectAlts: true})
			}
		}
	}
	// names at the length limit, into an empty destination and over a prior destination that holds the same paths
	for _, dst := range []string{"empty", "c7long-old"} {
		for _, pol := range []string{"run", "recv"} {
			scns = append(scns, Scn{Kind: "refsend", Src: "c7long", Dst: dst, Cap: 64, Policy: pol, SelectAlts: true})
		}
	}
	// special files with several names
	for _, pol := range []string{"run", "recv"} {
		scns = append(scns, Scn{Kind: "refsend", Src: "c7speclinks", Dst: "empty", Cap: 64, Policy: pol, SelectAlts: true})
	}
	// leftovers with predictable temporary names; names beginning with two dots
	for _, pol := range []string{"run", "recv"} {
		scns = append(scns, Scn{Kind: "refsend", Src: "c7orphan", Dst: "c7orphan-old", Cap: 64, Policy: pol, SelectAlts: true},
			Scn{Kind: "refsend", Src: "c7dots", Dst: "empty", Cap: 64, Policy: pol, SelectAlts: true}, Scn{Kind: "refsend", Src: "c7dots", Dst: "c7diff", Cap: 2, Policy: pol, SelectAlts: true})
	}
	// a stream without any buffer
	for _, pol := range pols {
		scns = append(scns, Scn{Kind: "refsend", Src: "c7tiny", Dst: "c7diff", Cap: 1, Policy: pol, SelectAlts: true, Rendezvous: true})
	}
	// sends that return late, around the ordinary policies
	for _, pol := range pols {
		scns = append(scns, Scn{Kind: "refsend", Src: "c7tiny", Dst: "c7diff", Cap: 2, Policy: pol, SelectAlts: true, PostYield: true})
	}
	bound := 1
	if !quick {
		bound = 2
	}
	exploreAll(p, r, "C07", scns, bound, 0)
	r.Add("scenarios", int64(len(scns)))
	if quick {
		var deep []Scn
		for _, sc := range scns {
			_ = sc
		}
		// bound 2 on a two-file tree
		for _, pol := range []string{"run", "rund"} {
			deep = append(deep, Scn{Kind: "refsend", Src: "two", Dst: "empty", Cap: 1, Policy: pol, SelectAlts: true})
		}
		exploreAll(p, r, "C07", deep, 2, 0)
	}
	// one spawn site at a time arbitrarily slow (receive loop, differ, per-file writers; the reference sender's threads)
	probe7 := exploreAll(p, r, "C07", []Scn{{Kind: "refsend", Src: "c7tiny", Dst: "c7diff", Cap: 64, Policy: "rr", SelectAlts: true}}, 0, 0)
	if len(probe7) > 0 && probe7[0] != nil {
		var slow []Scn
		for _, role := range probe7[0].Roles {
			for _, dst := range []string{"empty", "c7diff"} {
				for _, cp := range []int{1, 64} {
					slow = append(slow, Scn{Kind: "refsend", Src: "c7tiny", Dst: dst, Cap: cp, Policy: "slow:" + role, SelectAlts: true})
				}
			}
			slow = append(slow, Scn{Kind: "refsend", Src: "c7tiny", Dst: "empty", Cap: 1, Policy: "slow:" + role, Variant: "seq", SelectAlts: true})
			// ... and with stream sends that return late: the answer to a packet can be there before its sender
			// has executed the statement after the send
			for _, dst := range []string{"empty", "c7diff"} {
				slow = append(slow, Scn{Kind: "refsend", Src: "c7tiny", Dst: dst, Cap: 64, Policy: "slow:" + role, SelectAlts: true, PostYield: true})
			}
		}
		exploreAll(p, r, "C07", slow, 1, 0)
		r.Add("scenarios", int64(len(slow)))
		r.Set("slow_roles", probe7[0].Roles)
	}
	// 400 files: the STAT stream runs far ahead of the DATA answers (bound 0 around every policy)
	var big []Scn
	for _, pol := range []string{"run", "rund", "recv", "send", "rr"} {
		for _, cp := range []int{1, 64} {
			big = append(big, Scn{Kind: "refsend", Src: "fan400", Dst: "empty", Cap: cp, Policy: pol})
		}
	}
	exploreAll(p, r, "C07", big, 0, 0)
	r.Add("scenarios", int64(len(big)))
	// end of stream before FIN at every packet position
	roots := []Scn{{Kind: "refsend", Src: "c7src", Dst: "c7diff", Cap: 2, Policy: "run"}, {Kind: "refsend", Src: "c7src", Dst: "empty", Cap: 64, Policy: "recv"}}
	rr := exploreAll(p, r, "C07", roots, 0, 0)
	var eof []Scn
	for i, root := range roots {
		if rr[i].Info == nil {
			continue
		}
		for k := 0; k <= rr[i].Info["packets"]; k++ {
			sc := root
			sc.Variant = fmt.Sprintf("eof@%d", k)
			eof = append(eof, sc)
		}
	}
	exploreAll(p, r, "C07", eof, 1, 0)
	r.Add("scenarios", int64(len(eof)))
	r.Set("completed_bound", map[string]int{"main": bound, "eof": 1})
}
