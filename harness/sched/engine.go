//go:build verifrt

// Package sched holds the E1 engine: one execution of a scenario under the
// controlled scheduler, delay-bounded depth-first exploration of choice
// sequences, and the worker/driver plumbing that shards exploration over
// processes.
package sched

import (
	"fmt"
	"hash/fnv"
	"sort"
	"strings"
	"testing"
	"testing/synctest"

	"verif/vrt"
	"verif/vsync"
)

// Exec is the record of one complete execution.
type Exec struct {
	Choices  []int    // option index taken at each controller step
	NOpts    []int    // number of options at each step
	Trace    []string // the released option at each step
	FPs      []uint64 // fingerprint of every quiescent state
	Roles    []string // role (first parking site) of every thread seen
	Res      any      // scenario-specific result
	Viol     []Viol
	Diverged string
	Panic    string
}

type Viol struct {
	Key string
	Msg string
}

func (x *Exec) violate(key, msg string) { x.Viol = append(x.Viol, Viol{key, msg}) }

// Stepper is handed to the scenario body; it drives the controller loop.
type Stepper struct {
	Ctl    *vrt.Ctl
	x      *Exec
	prefix []int
	expect []string // released options of the parent execution for the prefix steps
	policy string
	last   int
	// Classify tells the policy which side a thread belongs to.
	Extra func() string // extra state folded into fingerprints
}

func order(policy string, opts []vrt.Option, last int, ctl *vrt.Ctl) []vrt.Option {
	out := make([]vrt.Option, 0, len(opts))
	pick := func(pred func(o vrt.Option) bool) {
		for _, o := range opts {
			if pred(o) {
				dup := false
				for _, p := range out {
					if p == o {
						dup = true
						break
					}
				}
				if !dup {
					out = append(out, o)
				}
			}
		}
	}
	isRecv := func(o vrt.Option) bool {
		role := ctl.Role(o.Tid)
		return strings.HasPrefix(o.Desc, "R.") || strings.Contains(role, "receive.go") || strings.Contains(role, "diskwriter") ||
			strings.Contains(role, "diff") || strings.HasPrefix(role, "start R") || strings.HasPrefix(role, "R.") || strings.HasPrefix(role, "peerR")
	}
	switch policy {
	case "rr":
		pick(func(o vrt.Option) bool { return o.Tid > last })
	case "recv":
		pick(func(o vrt.Option) bool { return o.Tid == last && isRecv(o) })
		pick(isRecv)
	case "send":
		pick(func(o vrt.Option) bool { return o.Tid == last && !isRecv(o) })
		pick(func(o vrt.Option) bool { return !isRecv(o) })
	case "starve":
		// everything except the sender's DATA sends first; keep running the last thread
		notData := func(o vrt.Option) bool { return !strings.HasPrefix(o.Desc, "S.send DATA") }
		pick(func(o vrt.Option) bool { return o.Tid == last && notData(o) })
		pick(notData)
	case "rund": // keep running the last released thread, else the youngest thread first
		pick(func(o vrt.Option) bool { return o.Tid == last })
		for i := len(opts) - 1; i >= 0; i-- {
			o := opts[i]
			pick(func(p vrt.Option) bool { return p.Tid == o.Tid })
		}
	default: // "run": keep running the last released thread
		if role, ok := strings.CutPrefix(policy, "slow:"); ok {
			// every goroutine started at one spawn site is arbitrarily slow: it runs only when nothing else can
			fast := func(o vrt.Option) bool { return ctl.Role(o.Tid) != role }
			pick(func(o vrt.Option) bool { return o.Tid == last && fast(o) })
			pick(fast)
		}
		pick(func(o vrt.Option) bool { return o.Tid == last })
	}
	pick(func(vrt.Option) bool { return true })
	return out
}

// Step waits for quiescence and releases one option. It returns false when
// nothing is enabled (all threads finished or blocked).
func (s *Stepper) Step() bool {
	opts := s.Ctl.Quiesce()
	s.fingerprint(opts)
	if len(opts) == 0 {
		return false
	}
	opts = order(s.policy, opts, s.last, s.Ctl)
	i := len(s.x.Choices)
	c := 0
	if i < len(s.prefix) {
		c = s.prefix[i]
		if c >= len(opts) {
			s.x.Diverged = fmt.Sprintf("step %d: prefix wants option %d of %d (%v)", i, c, len(opts), opts)
			c = 0
		}
	}
	o := opts[c]
	if i < len(s.expect) && s.expect[i] != o.String() && s.x.Diverged == "" {
		s.x.Diverged = fmt.Sprintf("step %d: replay released %q, recorded %q", i, o.String(), s.expect[i])
	}
	if n := len(s.Ctl.Threads); n != len(s.x.Roles) {
		s.x.Roles = s.x.Roles[:0]
		for _, t := range s.Ctl.Threads {
			s.x.Roles = append(s.x.Roles, t.Role)
		}
	}
	s.x.Choices = append(s.x.Choices, c)
	s.x.NOpts = append(s.x.NOpts, len(opts))
	s.x.Trace = append(s.x.Trace, o.String())
	s.last = o.Tid
	s.Ctl.Release(o)
	return true
}

func (s *Stepper) fingerprint(opts []vrt.Option) {
	h := fnv.New64a()
	for _, p := range s.Ctl.Parked() {
		h.Write([]byte(p))
		h.Write([]byte{0})
	}
	if s.Extra != nil {
		h.Write([]byte(s.Extra()))
	}
	s.x.FPs = append(s.x.FPs, h.Sum64())
}

// Steps so far.
func (s *Stepper) N() int { return len(s.x.Choices) }

// Body runs one scenario inside the bubble, using the stepper to advance.
type Body func(t *testing.T, s *Stepper, x *Exec)

// RunOne performs one execution following prefix, then default choices.
func RunOne(t *testing.T, policy string, fsPoints, selectAlts bool, prefix []int, expect []string, body Body) *Exec {
	x := &Exec{}
	func() {
		defer func() {
			if r := recover(); r != nil {
				msg := fmt.Sprint(r)
				if strings.Contains(msg, "blocked goroutines remain") {
					x.violate("goroutine-leak", "goroutines of the transfer are still blocked after both calls returned and every parked thread was drained: "+firstLines(msg, 3))
				} else {
					x.Panic = msg
				}
			}
		}()
		synctest.Test(t, func(t *testing.T) {
			ctl := vrt.NewCtl()
			ctl.FsPoints = fsPoints
			ctl.SelectAlts = selectAlts
			vsync.ResetPools()
			ctl.Activate()
			defer ctl.Deactivate()
			s := &Stepper{Ctl: ctl, x: x, prefix: prefix, expect: expect, policy: policy, last: -1}
			defer func() {
				if r := recover(); r != nil {
					x.Panic = fmt.Sprint(r)
				}
			}()
			body(t, s, x)
		})
	}()
	return x
}

func firstLines(s string, n int) string {
	l := strings.SplitN(s, "\n", n+1)
	if len(l) > n {
		l = l[:n]
	}
	return strings.Join(l, " / ")
}

// Explore enumerates every choice sequence that deviates from the policy's
// default in at most bound places (every non-default choice costs one), depth
// first. lo/hi restrict the index of the first deviation (for sharding);
// skipRoot suppresses the visit of the zero-deviation execution.
type Explorer struct {
	T          *testing.T
	Policy     string
	FsPoints   bool
	SelectAlts bool
	Body       Body
	Visit      func(x *Exec, prefix []int)
	Execs      int64
	Steps      int64
	Diverged   []string
	MaxExecs   int64 // 0 = unlimited; hitting it marks Truncated
	Truncated  bool
}

func (e *Explorer) Run(prefix []int, expect []string, bound int, lo, hi int, skipRoot bool) *Exec {
	x := RunOne(e.T, e.Policy, e.FsPoints, e.SelectAlts, prefix, expect, e.Body)
	e.Execs++
	e.Steps += int64(len(x.Choices))
	if x.Diverged != "" {
		e.Diverged = append(e.Diverged, fmt.Sprintf("prefix %v: %s", prefix, x.Diverged))
		return x
	}
	if !skipRoot {
		e.Visit(x, prefix)
	}
	if bound <= 0 {
		return x
	}
	for i := len(prefix); i < len(x.Choices); i++ {
		if hi > 0 && (i < lo || i >= hi) {
			continue
		}
		for alt := 1; alt < x.NOpts[i]; alt++ {
			if e.MaxExecs > 0 && e.Execs >= e.MaxExecs {
				e.Truncated = true
				return x
			}
			np := append(append([]int{}, x.Choices[:i]...), alt)
			e.Run(np, x.Trace[:i], bound-1, 0, 0, false)
		}
	}
	return x
}

func sortedCopy(s []string) []string {
	o := append([]string{}, s...)
	sort.Strings(o)
	return o
}
