//go:build verifrt

package sched

import (
	"fmt"
	"os"
	"os/exec"
	"strings"
	"testing"

	"verif/evid"
	"verif/fsmodel"
)

func init() {
	impls["C08"] = &checkImpl{Drive: driveC08, RunJob: func(t *testing.T, j *Job, r *evid.Run) *JobRes { return runXferJob(t, j, r, oracleC08) }}
}

func oracleC08(j *Job, sc Scn, x *Exec, res *XferRes, src, dst fsmodel.Tree, r *evid.Run) []Viol {
	var v []Viol
	if (res.Hang || res.Stuck) && sc.Fault.Kind == "" {
		v = append(v, Viol{"deadlock", fmt.Sprintf("fault-free transfer blocked (parked: %v)", res.Parked)})
	}
	for _, o := range dedup(res.Overlaps) {
		v = append(v, Viol{"overlap:" + o, fmt.Sprintf("two %s calls in flight on the same stream end at once", o)})
	}
	if sc.Fault.Kind != "" {
		// a failing user callback or source read: what each call returns is C04's subject; the stream discipline holds on
		// the error paths too, and one thing about the outcome does not depend on the schedule either: a receive that
		// reports success has produced the source view
		if res.RecvErr == "" && res.DestErr == "" && !res.Hang {
			if d := fsmodel.Diff(src, res.Dest, destMask(dst)); len(d) > 0 {
				v = append(v, Viol{"outcome-differs:success-with-other-content", fmt.Sprintf("under this schedule Receive returned nil after the injected %s fault but the destination differs from the source view: %s", sc.Fault.Kind, strings.Join(head(d, 4), " | "))})
			}
		}
		return v
	}
	if res.SendErr != "" || res.RecvErr != "" {
		v = append(v, Viol{"transfer-failed", fmt.Sprintf("fault-free transfer failed under this schedule: send=%q recv=%q", res.SendErr, res.RecvErr)})
		return v
	}
	if res.DestErr != "" {
		v = append(v, Viol{"dest-unreadable", res.DestErr})
		return v
	}
	if d := fsmodel.Diff(src, res.Dest, destMask(dst)); len(d) > 0 {
		v = append(v, Viol{"dest-differs", "destination differs from the source view: " + strings.Join(head(d, 6), " | ")})
	}
	out := outcomeOf(res, dst)
	r.Outcome(fmt.Sprintf("%s#%x", sc.Src+">"+sc.Dst+fmt.Sprint(sc.Notify), evid.H(out)))
	if j.Expect != "" && out != j.Expect {
		v = append(v, Viol{"outcome-differs", fmt.Sprintf("outcome differs from the zero-deviation schedule:\n got  %s\n want %s", out, j.Expect)})
	}
	if sc.Progress && res.ProgressBad != "" {
		v = append(v, Viol{"progress", res.ProgressBad})
	}
	return v
}

func dedup(s []string) []string {
	m := map[string]bool{}
	var out []string
	for _, x := range s {
		if !m[x] {
			m[x] = true
			out = append(out, x)
		}
	}
	return out
}

func driveC08(p *Pool, r *evid.Run) {
	r.Technique = "stateless model checking of the real Send/Receive under a controlled scheduler (synctest bubble + instrumented sync points), delay-bounded DFS around 4 base policies x 3 link capacities"
	r.Rule = "one evaluation = one complete execution (choice sequence); states = distinct quiescent-state fingerprints (parked set, link queues, packet count); non-trivial = executions with >=1 deviation from the base policy"
	r.Assume = []string{"interleavings at synchronisation-operation granularity under sequential consistency", "data races are out of reach of a cooperative scheduler; see aux race pass in DESIGN.md 2.4"}
	type plan struct {
		src, dst string
		bound    int
	}
	plans := []plan{{"small", "small-dirty", 2}, {"mid", "mid-dirty", 1}, {"c19hl", "c19hl-dirty", 1}}
	if r.Tier == "thorough" {
		plans = []plan{{"small", "small-dirty", 3}, {"mid", "mid-dirty", 2}, {"v2", "empty", 2}, {"c19hl", "c19hl-dirty", 2}}
	}
	bounds := map[string]int{}
	// the zero-deviation outcomes of different base policies and capacities must agree too
	ref := map[string]string{}
	ex := func(scns []Scn, bound int) []*JobRes {
		res := exploreAll(p, r, "C08", scns, bound, 0)
		for i, x := range res {
			if x == nil || x.Err != "" || x.RootOut == "" {
				continue
			}
			k := scns[i].Src + ">" + scns[i].Dst
			if want, ok := ref[k]; !ok {
				ref[k] = x.RootOut
			} else if want != x.RootOut {
				r.Violate("outcome-differs", fmt.Sprintf("%s: outcome differs from the one under another base schedule:\n got  %s\n want %s", scns[i], x.RootOut, want), map[string]any{"scn": scns[i], "choices": []int{}})
			}
		}
		return res
	}
	for _, pl := range plans {
		var scns, deep, deepest []Scn
		for _, pol := range []string{"run", "rr", "recv", "send"} {
			for _, cp := range []int{1, 2, 64} {
				sc := Scn{Kind: "xfer", Src: pl.src, Dst: pl.dst, Cap: cp, Policy: pol, Notify: true, SelectAlts: true, Progress: true}
				scns = append(scns, sc)
				// bound 2 around two policies and the two extreme capacities (measured: one scenario of the smallest
				// transfer is 420 executions at bound 1, 89 000 at bound 2, about 18 million at bound 3)
				if (pol == "run" || pol == "recv") && cp != 2 {
					deep = append(deep, sc)
				}
				if pol == "run" && cp == 1 {
					deepest = append(deepest, sc)
				}
			}
		}
		// iterative bounding: complete bound b before starting b+1
		done := 0
		for b := 1; b <= pl.bound; b++ {
			if b > 1 && drvPastDeadline() {
				r.Exhaustive = false
				break
			}
			switch {
			case b == 1, b == 2 && r.Tier == "thorough" && pl.src == "small":
				ex(scns, b)
			case b == 2:
				ex(deep, b)
			default:
				ex(deepest, b) // bound 3: one base schedule of the smallest transfer
			}
			done = b
		}
		bounds[pl.src] = done
	}
	// one spawn site at a time arbitrarily slow: the goroutines started there run only when nothing else can
	// (a descheduled walker, receive loop, worker or writer); roles are read off a probe execution
	for _, pl := range plans {
		probe := ex([]Scn{{Kind: "xfer", Src: pl.src, Dst: pl.dst, Cap: 64, Policy: "rr", Notify: true, SelectAlts: true, Progress: true}}, 0)
		if len(probe) == 0 || probe[0] == nil {
			continue
		}
		var slow []Scn
		for _, role := range probe[0].Roles {
			for _, cp := range []int{1, 64} {
				slow = append(slow, Scn{Kind: "xfer", Src: pl.src, Dst: pl.dst, Cap: cp, Policy: "slow:" + role, Notify: true, SelectAlts: true, Progress: true})
			}
		}
		b := 1
		if r.Tier == "thorough" && pl.src == "small" {
			b = 2 // the deeper bound around the slow-site policies on the smallest transfer only
			if drvPastDeadline() {
				b = 1
				r.Exhaustive = false
			}
		}
		ex(slow, b)
		r.Set("slow_roles_"+pl.src, probe[0].Roles)
		if pl.src == "small" || pl.src == "mid" {
			// a stream without any buffer (capacity 0): every send waits until the peer has taken the packet
			var rv []Scn
			for _, pol := range []string{"run", "rr", "recv", "send"} {
				rv = append(rv, Scn{Kind: "xfer", Src: pl.src, Dst: pl.dst, Cap: 1, Policy: pol, Notify: true, SelectAlts: true, Progress: true, Rendezvous: true})
			}
			ex(rv, 1)
		}
		if pl.src == "small" {
			// a wide transfer (700 files: more than any window of announced entries a sender could keep) under the
			// same slow-site policies and the ordinary ones: a request may come arbitrarily long after its STAT
			var wide []Scn
			for _, pol := range []string{"run", "rr", "recv", "send"} {
				wide = append(wide, Scn{Kind: "xfer", Src: "fan700", Dst: "empty", Cap: 64, Policy: pol})
			}
			for _, role := range probe[0].Roles {
				wide = append(wide, Scn{Kind: "xfer", Src: "fan700", Dst: "empty", Cap: 64, Policy: "slow:" + role})
			}
			ex(wide, 0)
		}
	}
	// the stream discipline on error paths: every hasher / notification call fails in turn (bound 1)
	var flt []Scn
	for _, pol := range []string{"run", "recv"} {
		for _, cp := range []int{1, 64} {
			for k := 0; k < 6; k++ {
				for _, kind := range []string{"notify", "hasher"} {
					flt = append(flt, Scn{Kind: "xfer", Src: "small", Dst: "small-dirty", Cap: cp, Policy: pol, Notify: true, SelectAlts: true, Fault: Fault{Kind: kind, K: k}})
				}
			}
		}
	}
	// ... and every requested multi-chunk file fails to read after 0, 1 and 40000 bytes
	for _, pol := range []string{"run", "recv", "send"} {
		for k := 0; k < 6; k++ {
			for _, j := range []int{0, 1, 40000} {
				flt = append(flt, Scn{Kind: "xfer", Src: "mid", Dst: "empty", Cap: 64, Policy: pol, Notify: true, SelectAlts: true, Fault: Fault{Kind: "read", K: k, J: j}})
			}
		}
	}
	exploreAll(p, r, "C08", flt, 1, 0)
	// 400 files at bound 0 around every policy: every internal queue fills up
	var big []Scn
	for _, pol := range []string{"run", "recv", "starve"} {
		for _, cp := range []int{1, 64} {
			big = append(big, Scn{Kind: "xfer", Src: "fan400", Dst: "empty", Cap: cp, Policy: pol, Notify: true})
		}
	}
	ex(big, 0)
	bounds["fan400"] = 0
	r.Set("completed_bound", bounds)
	auxRacePass(r)
}

func drvPastDeadline() bool { return !drv.deadline.IsZero() && timeNow().After(drv.deadline) }

// auxRacePass runs the auxiliary free-running pass under the race detector. It is
// sampling and is reported as such (aux_race_runs); a reported race is a violation of
// the property's third clause, its absence is not a proof.
func auxRacePass(r *evid.Run) {
	bin := os.Getenv("VERIF_RACEPASS")
	if bin == "" {
		r.Set("aux_race_runs", 0)
		return
	}
	n := 300
	if r.Tier == "thorough" {
		n = 6000
	}
	cmd := exec.Command(bin, fmt.Sprint(n))
	cmd.Env = append(os.Environ(), "GORACE=halt_on_error=1 exitcode=66")
	out, err := cmd.CombinedOutput()
	s := string(out)
	if strings.Contains(s, "DATA RACE") {
		i := strings.Index(s, "WARNING: DATA RACE")
		rep := s[i:]
		if len(rep) > 1800 {
			rep = rep[:1800]
		}
		r.Violate("data-race", "the race detector reports a data race in a free-running transfer (auxiliary pass):\n"+rep, map[string]any{"report": rep})
		r.Set("aux_race_runs", n)
		return
	}
	if i := strings.Index(s, "transfer failed:"); i >= 0 {
		r.Violate("free-run-transfer-failed", "a fault-free free-running transfer failed (auxiliary pass, schedule chosen by the Go runtime): "+firstLines(s[i:], 2), map[string]any{"output": firstLines(s[i:], 4)})
		r.Set("aux_race_runs", n)
		return
	}
	if err != nil {
		drv.infra = append(drv.infra, "race pass: "+err.Error()+": "+firstLines(s, 3))
		return
	}
	r.Set("aux_race_runs", n)
}
