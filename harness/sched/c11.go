//go:build verifrt

package sched

import (
	"fmt"
	"strings"
	"testing"

	"verif/evid"
	"verif/fsmodel"
)

// Schedule part of C11: a filtered view whose first hard-link member is hidden, transferred under explored
// schedules. What the filter stack emits must be a valid stream and produce the filtered view on every schedule.
func init() {
	impls["C11"] = &checkImpl{Drive: driveC11, RunJob: func(t *testing.T, j *Job, r *evid.Run) *JobRes { return runXferJob(t, j, r, oracleC11) }}
}

// c11View: what the view of the scenario shows of src (exclude patterns are plain paths here).
func c11View(sc Scn, src fsmodel.Tree) fsmodel.Tree {
	hidden := strings.Split(strings.TrimPrefix(sc.Variant, "exclude:"), ",")
	var out fsmodel.Tree
	cnt := map[int]int{}
	s := src.Clone()
	s.Sort()
	for _, n := range s {
		skip := false
		for _, h := range hidden {
			if n.Path == h || strings.HasPrefix(n.Path, h+"/") {
				skip = true
			}
		}
		if !skip {
			out = append(out, n)
			cnt[n.HL]++
		}
	}
	for i := range out {
		if out[i].HL > 0 && cnt[out[i].HL] < 2 {
			out[i].HL = 0
		}
	}
	return out
}

func oracleC11(j *Job, sc Scn, x *Exec, res *XferRes, src, dst fsmodel.Tree, r *evid.Run) []Viol {
	var v []Viol
	if res.Hang || res.Stuck {
		v = append(v, Viol{"sched:deadlock", fmt.Sprintf("fault-free transfer of a filtered view blocked (parked: %v)", res.Parked)})
	}
	if res.SendErr != "" || res.RecvErr != "" {
		return append(v, Viol{"sched:transfer-failed", fmt.Sprintf("fault-free transfer of a filtered view failed under this schedule: send=%q recv=%q", res.SendErr, res.RecvErr)})
	}
	if res.DestErr != "" {
		return append(v, Viol{"dest-unreadable", res.DestErr})
	}
	if d := fsmodel.Diff(c11View(sc, src), res.Dest, destMask(dst)); len(d) > 0 {
		v = append(v, Viol{"sched:dest-differs", "destination is not the filtered view: " + strings.Join(head(d, 5), " | ")})
	}
	out := outcomeOf(res, dst)
	r.Outcome(fmt.Sprintf("%s#%x", sc.Variant, evid.H(out)))
	if j.Expect != "" && out != j.Expect {
		v = append(v, Viol{"sched:outcome-differs", fmt.Sprintf("outcome differs from the zero-deviation schedule:\n got  %s\n want %s", out, j.Expect)})
	}
	return v
}

func driveC11(p *Pool, r *evid.Run) {
	r.Technique = "stateless model checking of Send/Receive of a filtered view (first hard-link member hidden) under the controlled scheduler, delay-bounded DFS around base policies incl. one slow spawn site at a time"
	r.Rule = "schedule part: one evaluation = one complete execution"
	r.Assume = []string{"schedule part: interleavings at synchronisation-operation granularity"}
	bound := 1
	if r.Tier == "thorough" {
		bound = 2
	}
	mk := func(pol string, cp int, variant string) Scn {
		return Scn{Kind: "xfer", Src: "c19hl", Dst: "empty", Cap: cp, Policy: pol, SelectAlts: true, Variant: variant}
	}
	variants := []string{"exclude:a", "exclude:a,q", "exclude:d"}
	probe := exploreAll(p, r, "C11", []Scn{mk("rr", 64, variants[0])}, 0, 0)
	pols := []string{"run", "rr", "recv", "send"}
	if len(probe) > 0 && probe[0] != nil {
		for _, role := range probe[0].Roles {
			pols = append(pols, "slow:"+role)
		}
	}
	var scns, slowScns []Scn
	for _, vr := range variants {
		for _, pol := range pols {
			for _, cp := range []int{1, 64} {
				if strings.HasPrefix(pol, "slow:") {
					slowScns = append(slowScns, mk(pol, cp, vr))
				} else {
					scns = append(scns, mk(pol, cp, vr))
				}
			}
		}
	}
	exploreAll(p, r, "C11", scns, bound, 0)
	exploreAll(p, r, "C11", slowScns, 1, 0) // the slow-site policies at bound 1 in both tiers
	r.Add("schedule_scenarios", int64(len(scns)+len(slowScns)))
	r.Set("schedule_completed_bound", bound)
}
