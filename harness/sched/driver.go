//go:build verifrt

package sched

import (
	"bufio"
	"encoding/json"
	"flag"
	"fmt"
	"os"
	"os/exec"
	"runtime"
	"sync"
	"syscall"
	"testing"
	"time"

	"verif/evid"
	"verif/scratch"
)

var (
	flagCheck  = flag.String("verif.check", "", "property id")
	flagTier   = flag.String("verif.tier", "quick", "quick|thorough")
	flagWorker = flag.Bool("verif.worker", false, "run as worker")
	flagReplay = flag.String("verif.replay", "", "replay file")
	// a check that has a schedule-exploring part and an API-level part: this part hands its coverage to the other
	// one, which merges it and writes the evidence
	flagPartial = flag.String("verif.partial", "", "write the mergeable result to this file instead of finishing the check")
)

// Job is one unit of exploration sent to a worker process.
type Job struct {
	ID       int    `json:"id"`
	Check    string `json:"check"`
	Scn      Scn    `json:"scn"`
	Prefix   []int  `json:"prefix,omitempty"`
	Bound    int    `json:"bound"`
	Lo       int    `json:"lo,omitempty"`
	Hi       int    `json:"hi,omitempty"`
	SkipRoot bool   `json:"skiproot,omitempty"`
	Expect   string `json:"expect,omitempty"`
	MaxExecs int64  `json:"maxexecs,omitempty"`
}

type JobRes struct {
	ID        int            `json:"id"`
	Partial   *evid.Partial  `json:"partial"`
	RootNOpts []int          `json:"rootnopts,omitempty"`
	RootOut   string         `json:"rootout,omitempty"`
	Execs     int64          `json:"execs"`
	Steps     int64          `json:"steps"`
	Diverged  []string       `json:"diverged,omitempty"`
	Truncated bool           `json:"truncated,omitempty"`
	Err       string         `json:"err,omitempty"`
	Info      map[string]int `json:"info,omitempty"`
	Roles     []string       `json:"roles,omitempty"`
}

// checkImpl is what each property supplies.
type checkImpl struct {
	// Plan builds the job phases on the driver side.
	Drive func(p *Pool, r *evid.Run)
	// RunJob executes one job inside a worker.
	RunJob func(t *testing.T, j *Job, r *evid.Run) *JobRes
}

var impls = map[string]*checkImpl{}

func testDriver(t *testing.T) {
	syscall.Umask(0o027) // modes must be set explicitly by the code under test, not inherited from mkdir/open
	switch {
	case *flagWorker:
		workerMain(t)
		os.Exit(0)
	case *flagReplay != "":
		os.Exit(replayMain(t, *flagReplay))
	case *flagCheck != "":
		os.Exit(driverMain(*flagCheck, *flagTier))
	default:
		t.Skip("driver entry point; use run.sh")
	}
}

func workerMain(t *testing.T) {
	in := bufio.NewReaderSize(os.Stdin, 1<<20)
	out := bufio.NewWriter(os.Stdout)
	dec := json.NewDecoder(in)
	defer scratch.Cleanup()
	for {
		var j Job
		if err := dec.Decode(&j); err != nil {
			return
		}
		im := impls[j.Check]
		var res *JobRes
		if im == nil {
			res = &JobRes{ID: j.ID, Err: "unknown check " + j.Check}
		} else {
			r := evid.New(j.Check, "worker")
			res = im.RunJob(t, &j, r)
			res.ID = j.ID
			res.Partial = r.Export()
		}
		b, err := json.Marshal(res)
		if err != nil {
			b, _ = json.Marshal(&JobRes{ID: j.ID, Err: "marshal: " + err.Error()})
		}
		out.Write(b)
		out.WriteByte('\n')
		out.Flush()
	}
}

// Pool is a set of worker processes (GOMAXPROCS=1 each).
type Pool struct {
	n      int
	jobs   chan *Job
	res    chan *JobRes
	wg     sync.WaitGroup
	failed chan string
}

func NewPool(n int) *Pool {
	p := &Pool{n: n, jobs: make(chan *Job), res: make(chan *JobRes, 1024), failed: make(chan string, n)}
	for i := 0; i < n; i++ {
		p.wg.Add(1)
		go p.worker(i)
	}
	return p
}

func (p *Pool) worker(i int) {
	defer p.wg.Done()
	cmd := exec.Command(os.Args[0], "-test.run", "^TestDriver$", "-test.timeout", "0", "-verif.worker")
	cmd.Env = append(os.Environ(), "GOMAXPROCS=1")
	cmd.Stderr = os.Stderr
	stdin, _ := cmd.StdinPipe()
	stdout, _ := cmd.StdoutPipe()
	if err := cmd.Start(); err != nil {
		p.failed <- err.Error()
		return
	}
	rd := bufio.NewReaderSize(stdout, 1<<20)
	enc := json.NewEncoder(stdin)
	for j := range p.jobs {
		if err := enc.Encode(j); err != nil {
			p.failed <- fmt.Sprintf("worker %d: %v", i, err)
			p.res <- &JobRes{ID: j.ID, Err: "worker write failed"}
			continue
		}
		line, err := rd.ReadBytes('\n')
		if err != nil {
			p.failed <- fmt.Sprintf("worker %d died on job %d (%s): %v", i, j.ID, j.Scn, err)
			p.res <- &JobRes{ID: j.ID, Err: "worker died"}
			// restart a fresh worker for the remaining jobs
			cmd.Process.Kill()
			cmd.Wait()
			cmd = exec.Command(os.Args[0], "-test.run", "^TestDriver$", "-test.timeout", "0", "-verif.worker")
			cmd.Env = append(os.Environ(), "GOMAXPROCS=1")
			cmd.Stderr = os.Stderr
			stdin, _ = cmd.StdinPipe()
			stdout, _ = cmd.StdoutPipe()
			if err := cmd.Start(); err != nil {
				return
			}
			rd = bufio.NewReaderSize(stdout, 1<<20)
			enc = json.NewEncoder(stdin)
			continue
		}
		var r JobRes
		if err := json.Unmarshal(line, &r); err != nil {
			r = JobRes{ID: j.ID, Err: "bad worker output: " + err.Error()}
		}
		p.res <- &r
	}
	stdin.Close()
	cmd.Wait()
}

// Run executes the jobs and returns their results indexed by position.
func (p *Pool) Run(jobs []*Job) []*JobRes {
	out := make([]*JobRes, len(jobs))
	for i, j := range jobs {
		j.ID = i
	}
	go func() {
		for _, j := range jobs {
			p.jobs <- j
		}
	}()
	for range jobs {
		r := <-p.res
		out[r.ID] = r
	}
	return out
}

func (p *Pool) Close() {
	close(p.jobs)
	p.wg.Wait()
}

type driverState struct {
	infra    []string
	deadline time.Time
}

var drv driverState

func driverMain(id, tier string) int {
	im := impls[id]
	if im == nil {
		fmt.Fprintln(os.Stderr, "unknown sched check", id)
		return 3
	}
	r := evid.New(id, tier)
	n := runtime.NumCPU()
	if n > 16 {
		n = 16
	}
	p := NewPool(n)
	budget := 75 * time.Minute
	if tier == "quick" {
		budget = 4 * time.Minute
	}
	drv.deadline = time.Now().Add(budget)
	im.Drive(p, r)
	r.Add("divergences", 0)
	r.Add("replays_checked", 0)
	p.Close()
	close(p.failed)
	for f := range p.failed {
		drv.infra = append(drv.infra, f)
	}
	scratch.Cleanup()
	if *flagPartial != "" {
		out := map[string]any{"partial": r.Export(), "infra": drv.infra, "technique": r.Technique, "rule": r.Rule, "assume": r.Assume}
		b, err := json.Marshal(out)
		if err == nil {
			err = os.WriteFile(*flagPartial, b, 0644)
		}
		if err != nil {
			fmt.Fprintln(os.Stderr, "INFRA: cannot write partial result:", err)
			return 2
		}
		for _, s := range drv.infra {
			fmt.Fprintln(os.Stderr, "INFRA:", s)
		}
		if len(drv.infra) > 0 {
			return 2
		}
		return 0
	}
	if len(drv.infra) > 0 {
		for _, s := range drv.infra {
			fmt.Fprintln(os.Stderr, "INFRA:", s)
		}
		r.Exhaustive = false
		r.Set("infrastructure_errors", drv.infra)
		code := r.Finish()
		if code == 0 {
			return 2
		}
		return code
	}
	return r.Finish()
}

// merge folds job results into the run and collects infrastructure problems.
func merge(r *evid.Run, res []*JobRes) {
	for _, x := range res {
		if x == nil {
			drv.infra = append(drv.infra, "missing job result")
			continue
		}
		if x.Err != "" {
			drv.infra = append(drv.infra, x.Err)
		}
		for _, d := range x.Diverged {
			drv.infra = append(drv.infra, "DIVERGENCE "+d)
		}
		if x.Truncated {
			r.Exhaustive = false
		}
		if x.Partial != nil {
			r.Merge(x.Partial)
		}
		r.Add("executions", x.Execs)
		r.Add("controller_steps", x.Steps)
	}
}

// split partitions step indices [0,n) into chunks of roughly equal weight
// (weight = number of alternatives at that step, raised to the bound).
func split(nopts []int, bound, parts int) [][2]int {
	w := make([]float64, len(nopts))
	total := 0.0
	for i, n := range nopts {
		rest := float64(len(nopts) - i)
		w[i] = float64(n - 1)
		if bound > 1 {
			w[i] *= rest * 4
		}
		total += w[i]
	}
	if total == 0 {
		return nil
	}
	var out [][2]int
	per := total / float64(parts)
	acc, lo := 0.0, 0
	for i := range w {
		acc += w[i]
		if acc >= per {
			out = append(out, [2]int{lo, i + 1})
			lo, acc = i+1, 0
		}
	}
	if lo < len(w) {
		out = append(out, [2]int{lo, len(w)})
	}
	return out
}

// exploreAll explores every scenario to the given deviation bound: one root job
// per scenario, then first-level-subtree jobs. It returns the root results.
func exploreAll(p *Pool, r *evid.Run, check string, scns []Scn, bound int, maxExecsPerJob int64) []*JobRes {
	var roots []*Job
	for _, sc := range scns {
		roots = append(roots, &Job{Check: check, Scn: sc, Bound: 0})
	}
	t0 := time.Now()
	rres := p.Run(roots)
	merge(r, rres)
	if os.Getenv("VERIF_DEBUG") != "" {
		var ex, st int64
		for _, x := range rres {
			if x != nil {
				ex += x.Execs
				st += x.Steps
			}
		}
		for i, x := range rres {
			if x != nil && x.Steps > 3000 {
				fmt.Fprintf(os.Stderr, "   big root: %s steps=%d\n", scns[i], x.Steps)
			}
		}
		fmt.Fprintf(os.Stderr, "[%s] roots: %d scenarios, %d execs, %d steps, %.1fs\n", check, len(scns), ex, st, time.Since(t0).Seconds())
	}
	if bound < 1 {
		return rres
	}
	var jobs []*Job
	for i, sc := range scns {
		if rres[i] == nil || rres[i].Err != "" {
			continue
		}
		parts := 4
		if bound > 1 {
			parts = 48
		}
		for _, rg := range split(rres[i].RootNOpts, bound, parts) {
			jobs = append(jobs, &Job{Check: check, Scn: sc, Bound: bound, Lo: rg[0], Hi: rg[1], SkipRoot: true, Expect: rres[i].RootOut, MaxExecs: maxExecsPerJob})
		}
	}
	t0 = time.Now()
	jres := p.Run(jobs)
	merge(r, jres)
	if os.Getenv("VERIF_DEBUG") != "" {
		var ex, st int64
		for _, x := range jres {
			if x != nil {
				ex += x.Execs
				st += x.Steps
			}
		}
		fmt.Fprintf(os.Stderr, "[%s] bound %d: %d jobs, %d execs, %d steps, %.1fs\n", check, bound, len(jobs), ex, st, time.Since(t0).Seconds())
	}
	return rres
}

func replayMain(t *testing.T, file string) int {
	b, err := os.ReadFile(file)
	if err != nil {
		fmt.Fprintln(os.Stderr, err)
		return 3
	}
	var f struct {
		Property string `json:"property"`
		Msg      string `json:"msg"`
		Case     struct {
			Scn     Scn      `json:"scn"`
			Choices []int    `json:"choices"`
			Trace   []string `json:"trace"`
		} `json:"case"`
	}
	if err := json.Unmarshal(b, &f); err != nil {
		fmt.Fprintln(os.Stderr, err)
		return 3
	}
	im := impls[f.Property]
	if im == nil {
		fmt.Fprintln(os.Stderr, "no sched check", f.Property)
		return 3
	}
	runtime.GOMAXPROCS(1)
	r := evid.New(f.Property, "replay")
	j := &Job{Check: f.Property, Scn: f.Case.Scn, Prefix: f.Case.Choices, Bound: 0}
	res := im.RunJob(t, j, r)
	scratch.Cleanup()
	fmt.Printf("replayed %d steps of %s\n", res.Steps, f.Case.Scn)
	if len(res.Diverged) > 0 {
		fmt.Println("replay diverged:", res.Diverged)
		return 2
	}
	if r.NumViolations() > 0 {
		p := r.Export()
		for _, v := range p.Viol {
			fmt.Printf("replay: violation reproduced: key=%s %s\n", v.Key, v.Msg)
		}
		return 1
	}
	fmt.Println("replay: property held on this schedule")
	return 0
}
