// Package memfs is a synthetic in-memory fsutil.FS built from an fsmodel.Tree,
// and helpers converting between fsmodel nodes and wire stats.
package memfs

import (
	"bytes"
	"context"
	"io"
	gofs "io/fs"
	"os"
	"path/filepath"
	"strings"

	"github.com/tonistiigi/fsutil"
	"github.com/tonistiigi/fsutil/types"
	"verif/fsmodel"
)

// StatOf builds the wire stat for a node the way the protocol documents it:
// Mode = Go file mode bits, Linkname = symlink target or, for later members of a
// hard-link group, the path of the first member.
func StatOf(n fsmodel.Node, firstOfGroup map[int]string) *types.Stat {
	st := &types.Stat{
		Path:    n.Path,
		Mode:    uint32(fsmodel.GoMode(n) &^ os.ModeSocket),
		Uid:     n.UID,
		Gid:     n.GID,
		ModTime: n.Mtime,
	}
	if n.Kind != fsmodel.Dir {
		st.Size = int64(len(n.Data))
	}
	switch n.Kind {
	case fsmodel.Symlink:
		st.Linkname = n.Link
		st.Size = int64(len(n.Link))
	case fsmodel.Char, fsmodel.Block:
		st.Devmajor, st.Devminor = int64(n.Major), int64(n.Minor)
	}
	// a symlink inode with several names is announced as what it is: a symlink with its target
	if n.HL > 0 && n.Kind != fsmodel.Dir && n.Kind != fsmodel.Symlink && firstOfGroup != nil {
		if f, ok := firstOfGroup[n.HL]; ok {
			st.Linkname = f
		} else {
			firstOfGroup[n.HL] = n.Path
		}
	}
	if len(n.Xattrs) > 0 {
		st.Xattrs = map[string][]byte{}
		for k, v := range n.Xattrs {
			st.Xattrs[k] = []byte(v)
		}
	}
	return st
}

// Stats returns the STAT sequence a conforming sender announces for the tree.
func Stats(t fsmodel.Tree) []*types.Stat {
	t = t.Clone()
	t.Sort()
	first := map[int]string{}
	out := make([]*types.Stat, len(t))
	for i, n := range t {
		out[i] = StatOf(n, first)
	}
	return out
}

type FS struct {
	tree  fsmodel.Tree
	stats []*types.Stat
	// OpenHook, if set, may replace the reader for a path (fault injection).
	OpenHook func(p string, rc io.ReadCloser) (io.ReadCloser, error)
	// NotExistIsError: a walk of a target that does not exist returns the not-exist error the callback was handed
	// and returned (what filepath.WalkDir and io/fs adapters do); by default it is swallowed, as NewFS does
	NotExistIsError bool
	// WalkHook, if set, is consulted before each entry is reported.
	WalkHook func(i int, p string) error
	// EOFWithData: readers report the final bytes together with io.EOF (allowed by io.Reader;
	// archive/tar and many network readers do it).
	EOFWithData bool
	// MaxRead > 0: readers deliver at most MaxRead bytes per call (a pipe, a network or decompressing file system);
	// the end of the file is reported by a separate call
	MaxRead int
	// Resize, if set, gives the bytes a reader of p delivers: a file that shrank or grew between listing (the stat
	// still announces the old size) and reading.
	Resize func(p string, data []byte) []byte
}

type eofReader struct {
	data []byte
	max  int
}

func (r *eofReader) Read(p []byte) (int, error) {
	if len(r.data) == 0 {
		return 0, io.EOF
	}
	if r.max > 0 && len(p) > r.max {
		p = p[:r.max]
	}
	n := copy(p, r.data)
	r.data = r.data[n:]
	if len(r.data) == 0 && r.max == 0 {
		return n, io.EOF
	}
	return n, nil
}

func New(t fsmodel.Tree) *FS {
	t = t.Clone()
	t.Sort()
	return &FS{tree: t, stats: Stats(t)}
}

var _ fsutil.FS = &FS{}

func (f *FS) Walk(ctx context.Context, target string, fn gofs.WalkDirFunc) error {
	target = filepath.Clean(filepath.Join("/", target))[1:]
	idx := map[string]int{}
	children := map[string][]int{}
	for i, n := range f.tree {
		idx[n.Path] = i
		children[parentOf(n.Path)] = append(children[parentOf(n.Path)], i)
	}
	var walk func(i int) error
	walk = func(i int) error {
		n := f.tree[i]
		select {
		case <-ctx.Done():
			return ctx.Err()
		default:
		}
		if f.WalkHook != nil {
			if err := f.WalkHook(i, n.Path); err != nil {
				return err
			}
		}
		if err := fn(n.Path, &fsutil.DirEntryInfo{Stat: f.stats[i].Clone()}, nil); err != nil {
			if err == filepath.SkipDir && n.Kind == fsmodel.Dir {
				return nil
			}
			return err
		}
		if n.Kind != fsmodel.Dir {
			return nil
		}
		for _, c := range children[n.Path] {
			if err := walk(c); err != nil {
				if err == filepath.SkipDir {
					break
				}
				return err
			}
		}
		return nil
	}
	var err error
	if target == "" {
		for _, c := range children[""] {
			if err = walk(c); err != nil {
				break
			}
		}
	} else if i, ok := idx[target]; ok {
		err = walk(i)
	} else {
		err = fn(target, nil, &os.PathError{Op: "lstat", Path: target, Err: os.ErrNotExist})
		if err != nil && os.IsNotExist(err) && !f.NotExistIsError {
			err = nil
		}
	}
	if err == filepath.SkipDir || err == filepath.SkipAll {
		err = nil
	}
	return err
}

func parentOf(p string) string {
	if i := strings.LastIndexByte(p, '/'); i >= 0 {
		return p[:i]
	}
	return ""
}

func (f *FS) Open(p string) (io.ReadCloser, error) {
	p = filepath.Clean(filepath.Join("/", p))[1:]
	n := f.tree.Find(p)
	if n == nil {
		return nil, &os.PathError{Op: "open", Path: p, Err: os.ErrNotExist}
	}
	if n.Kind != fsmodel.File {
		return nil, &os.PathError{Op: "open", Path: p, Err: os.ErrInvalid}
	}
	data := n.Data
	if f.Resize != nil {
		data = f.Resize(p, data)
	}
	var rc io.ReadCloser = io.NopCloser(bytes.NewReader(data))
	if f.EOFWithData {
		rc = io.NopCloser(&eofReader{data: data})
	} else if f.MaxRead > 0 {
		rc = io.NopCloser(&eofReader{data: data, max: f.MaxRead})
	}
	if f.OpenHook != nil {
		return f.OpenHook(p, rc)
	}
	return rc, nil
}
