// Package vsync replaces "sync" in the instrumented copies of fsutil's files.
// Mutex and RWMutex are FIFO hand-off locks whose waiting is a channel receive
// (durably blocking inside a synctest bubble) and whose Lock is a scheduling
// point; everything else aliases the real package.
package vsync

import (
	"sync"

	"verif/vrt"
)

type (
	Once      = sync.Once
	WaitGroup = sync.WaitGroup
	Map       = sync.Map
	Cond      = sync.Cond
	Locker    = sync.Locker
)

func NewCond(l Locker) *Cond { return sync.NewCond(l) }

func OnceFunc(f func()) func() { return sync.OnceFunc(f) }

type Mutex struct {
	mu      sync.Mutex
	held    bool
	waiters []chan struct{}
}

func (m *Mutex) Lock() {
	vrt.Point("lock")
	m.mu.Lock()
	if !m.held {
		m.held = true
		m.mu.Unlock()
		return
	}
	ch := make(chan struct{})
	m.waiters = append(m.waiters, ch)
	m.mu.Unlock()
	<-ch // ownership is handed over by Unlock
}

func (m *Mutex) TryLock() bool {
	m.mu.Lock()
	defer m.mu.Unlock()
	if m.held {
		return false
	}
	m.held = true
	return true
}

func (m *Mutex) Unlock() {
	m.mu.Lock()
	if !m.held {
		m.mu.Unlock()
		panic("vsync: unlock of unlocked mutex")
	}
	if len(m.waiters) > 0 {
		ch := m.waiters[0]
		m.waiters = m.waiters[1:]
		m.mu.Unlock()
		close(ch)
		return
	}
	m.held = false
	m.mu.Unlock()
}

// RWMutex treats readers like writers (sound for exclusion; fsutil never
// read-locks recursively).
type RWMutex struct{ Mutex }

func (m *RWMutex) RLock()         { m.Lock() }
func (m *RWMutex) RUnlock()       { m.Unlock() }
func (m *RWMutex) TryRLock() bool { return m.TryLock() }
func (m *RWMutex) RLocker() Locker {
	return (*rlocker)(m)
}

type rlocker RWMutex

func (r *rlocker) Lock()   { (*RWMutex)(r).RLock() }
func (r *rlocker) Unlock() { (*RWMutex)(r).RUnlock() }

// Pool is a deterministic LIFO free list with the interface of sync.Pool. All
// pools are emptied when a controlled execution starts, so what Get returns depends
// only on the Put/Get history of that execution (sync.Pool's per-P caches and GC
// interaction would make buffer reuse irreproducible).
type Pool struct {
	New func() interface{}

	mu    sync.Mutex
	items []interface{}
	reg   bool
}

var (
	poolsMu sync.Mutex
	pools   []*Pool
)

func (p *Pool) Get() interface{} {
	p.mu.Lock()
	if !p.reg {
		p.reg = true
		poolsMu.Lock()
		pools = append(pools, p)
		poolsMu.Unlock()
	}
	if n := len(p.items); n > 0 {
		x := p.items[n-1]
		p.items = p.items[:n-1]
		p.mu.Unlock()
		return x
	}
	p.mu.Unlock()
	if p.New != nil {
		return p.New()
	}
	return nil
}

func (p *Pool) Put(x interface{}) {
	if x == nil {
		return
	}
	p.mu.Lock()
	if !p.reg {
		p.reg = true
		poolsMu.Lock()
		pools = append(pools, p)
		poolsMu.Unlock()
	}
	p.items = append(p.items, x)
	p.mu.Unlock()
}

// ResetPools empties every pool (called at the start of each controlled execution).
func ResetPools() {
	poolsMu.Lock()
	defer poolsMu.Unlock()
	for _, p := range pools {
		p.mu.Lock()
		p.items = nil
		p.mu.Unlock()
	}
}
