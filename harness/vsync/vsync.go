// Package vsync replaces "sync" in the instrumented copies of fsutil's files.
// Mutex and RWMutex are FIFO hand-off locks whose waiting is a channel receive
// (durably blocking inside a synctest bubble) and whose Lock is a scheduling
// point; everything else aliases the real package.
package vsync

import (
	"sync"

	"verif/vrt"
)

type (
	Once      = sync.Once
	Pool      = sync.Pool
	WaitGroup = sync.WaitGroup
	Map       = sync.Map
	Cond      = sync.Cond
	Locker    = sync.Locker
)

func NewCond(l Locker) *Cond { return sync.NewCond(l) }

func OnceFunc(f func()) func() { return sync.OnceFunc(f) }

type Mutex struct {
	mu      sync.Mutex
	held    bool
	waiters []chan struct{}
}

func (m *Mutex) Lock() {
	vrt.Point("lock")
	m.mu.Lock()
	if !m.held {
		m.held = true
		m.mu.Unlock()
		return
	}
	ch := make(chan struct{})
	m.waiters = append(m.waiters, ch)
	m.mu.Unlock()
	<-ch // ownership is handed over by Unlock
}

func (m *Mutex) TryLock() bool {
	m.mu.Lock()
	defer m.mu.Unlock()
	if m.held {
		return false
	}
	m.held = true
	return true
}

func (m *Mutex) Unlock() {
	m.mu.Lock()
	if !m.held {
		m.mu.Unlock()
		panic("vsync: unlock of unlocked mutex")
	}
	if len(m.waiters) > 0 {
		ch := m.waiters[0]
		m.waiters = m.waiters[1:]
		m.mu.Unlock()
		close(ch)
		return
	}
	m.held = false
	m.mu.Unlock()
}

// RWMutex treats readers like writers (sound for exclusion; fsutil never
// read-locks recursively).
type RWMutex struct{ Mutex }

func (m *RWMutex) RLock()         { m.Lock() }
func (m *RWMutex) RUnlock()       { m.Unlock() }
func (m *RWMutex) TryRLock() bool { return m.TryLock() }
func (m *RWMutex) RLocker() Locker {
	return (*rlocker)(m)
}

type rlocker RWMutex

func (r *rlocker) Lock()   { (*RWMutex)(r).RLock() }
func (r *rlocker) Unlock() { (*RWMutex)(r).RUnlock() }
