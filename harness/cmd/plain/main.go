// Command plain runs the checks that drive fsutil through its exported API only
// (no overlay, no instrumentation).
package main

import (
	"encoding/json"
	"fmt"
	"os"
	"syscall"

	"verif/checks"
	"verif/evid"
	"verif/scratch"
)

func main() {
	// a restrictive umask: a mode that the code under test leaves to mkdir/open/mknod instead of setting it
	// explicitly then differs from the source's (VERIF_UMASK overrides, octal)
	um := 0o027
	if v := os.Getenv("VERIF_UMASK"); v != "" {
		fmt.Sscanf(v, "%o", &um)
	}
	syscall.Umask(um)
	if len(os.Args) >= 3 && os.Args[1] == "replay" {
		b, err := os.ReadFile(os.Args[2])
		if err != nil {
			fmt.Fprintln(os.Stderr, err)
			os.Exit(3)
		}
		var f struct {
			Property string          `json:"property"`
			Case     json.RawMessage `json:"case"`
			Msg      string          `json:"msg"`
		}
		if err := json.Unmarshal(b, &f); err != nil {
			fmt.Fprintln(os.Stderr, err)
			os.Exit(3)
		}
		c := checks.Registry[f.Property]
		if c == nil || c.Replay == nil {
			fmt.Fprintln(os.Stderr, "no replay for", f.Property)
			os.Exit(3)
		}
		defer scratch.Cleanup()
		out := c.Replay(f.Case)
		scratch.Cleanup()
		if out == "" {
			fmt.Println("replay: property held on this case")
			os.Exit(0)
		}
		fmt.Println("replay: violation reproduced:", out)
		os.Exit(1)
	}
	if len(os.Args) < 3 {
		fmt.Fprintln(os.Stderr, "usage: plain <Cnn> quick|thorough | plain replay <file> | plain child <name> ...")
		os.Exit(3)
	}
	if os.Args[1] == "child" {
		os.Exit(checks.Child(os.Args[2], os.Args[3:]))
	}
	id, tier := os.Args[1], os.Args[2]
	c := checks.Registry[id]
	if c == nil {
		fmt.Fprintln(os.Stderr, "unknown check", id)
		os.Exit(3)
	}
	r := evid.New(id, tier)
	c.Run(r)
	scratch.Cleanup()
	// the schedule-exploring part of the same check, run first by run.sh, hands over its coverage
	if pf := os.Getenv("VERIF_PARTIAL"); pf != "" {
		var in struct {
			Partial   *evid.Partial `json:"partial"`
			Infra     []string      `json:"infra"`
			Technique string        `json:"technique"`
			Rule      string        `json:"rule"`
			Assume    []string      `json:"assume"`
		}
		b, err := os.ReadFile(pf)
		if err == nil {
			err = json.Unmarshal(b, &in)
		}
		if err != nil || in.Partial == nil || len(in.Infra) > 0 {
			fmt.Fprintln(os.Stderr, "INFRA: schedule-exploring part of", id, "did not complete:", err, in.Infra)
			r.Exhaustive = false
			if code := r.Finish(); code != 0 {
				os.Exit(code)
			}
			os.Exit(2)
		}
		r.Merge(in.Partial)
		r.AddWall(in.Partial.WallS)
		r.Technique += "; PLUS " + in.Technique
		r.Rule += "; schedule part: " + in.Rule
		r.Assume = append(r.Assume, in.Assume...)
	}
	os.Exit(r.Finish())
}
