// Command racepass is the auxiliary, free-running pass for the data-race clause of
// C08: the same transfers the explorer schedules, executed many times by the real Go
// scheduler under the race detector. It is sampling, reported as such, and backs only
// that one clause.
package main

import (
	"fmt"
	"os"
	"runtime"
	"strconv"

	"github.com/tonistiigi/fsutil"
	"verif/fsmodel"
	"verif/memfs"
	"verif/scratch"
	"verif/xfer"
)

func tree(n int, salt int) fsmodel.Tree {
	var t fsmodel.Tree
	t = append(t, fsmodel.Node{Path: "d", Kind: fsmodel.Dir, Perm: 0755, Mtime: fsmodel.T0})
	for i := 0; i < n; i++ {
		p := fmt.Sprintf("f%02d", i)
		if i%3 == 0 {
			p = "d/" + p
		}
		t = append(t, fsmodel.Node{Path: p, Kind: fsmodel.File, Perm: 0644, Mtime: fsmodel.T0 + int64(i+salt), Data: fsmodel.Content(i+salt, 20000+i*9000)})
	}
	t.Sort()
	return t
}

// wide is the other shape: content files first, then many directories the receiver has to create (with files of
// their own), then more content - directories are being created while earlier files are still being written.
func wide(n int, salt int) fsmodel.Tree {
	var t fsmodel.Tree
	for i := 0; i < 3; i++ {
		t = append(t, fsmodel.Node{Path: fmt.Sprintf("a%d", i), Kind: fsmodel.File, Perm: 0644, Mtime: fsmodel.T0 + int64(i+salt), Data: fsmodel.Content(i+salt, 70000+i*9000)})
	}
	for i := 0; i < n; i++ {
		d := fmt.Sprintf("m%02d", i)
		t = append(t, fsmodel.Node{Path: d, Kind: fsmodel.Dir, Perm: 0755, Mtime: fsmodel.T0 + int64(i)},
			fsmodel.Node{Path: d + "/f", Kind: fsmodel.File, Perm: 0644, Mtime: fsmodel.T0 + int64(i+salt), Data: fsmodel.Content(i+salt, 100+i)},
			fsmodel.Node{Path: d + "/sub", Kind: fsmodel.Dir, Perm: 0755, Mtime: fsmodel.T0 + int64(i)})
	}
	t = append(t, fsmodel.Node{Path: "z", Kind: fsmodel.File, Perm: 0644, Mtime: fsmodel.T0 + int64(salt), Data: fsmodel.Content(salt, 40000)})
	t.Sort()
	return t
}

func main() {
	runs, _ := strconv.Atoi(os.Args[1])
	defer scratch.Cleanup()
	n := 0
	for i := 0; i < runs; i++ {
		runtime.GOMAXPROCS([]int{1, 2, 4, 16}[i%4])
		src := tree(3+i%6, 0)
		if i%5 >= 3 {
			src = wide(10+i%30, 0)
		}
		dst := scratch.Dir("race")
		if i%2 == 1 {
			fsmodel.Materialize(tree(2+i%4, 5), dst)
		}
		notes := &xfer.Notes{}
		// callbacks that keep plain, unsynchronised state, as callers' progress writers do: calling one of them
		// from two goroutines at once is a data race the library causes
		var rprog, sprog int
		opt := fsutil.ReceiveOpt{NotifyHashed: notes.Handle, ContentHasher: xfer.Hasher, ProgressCb: func(n int, _ bool) { rprog = n }}
		var s fsutil.FS = memfs.New(src)
		if i%3 == 2 {
			sd := scratch.Dir("racesrc")
			fsmodel.Materialize(src, sd)
			s, _ = fsutil.NewFS(sd)
		}
		res := xfer.Run(s, dst, opt, func(n int, _ bool) { sprog = n })
		_, _ = rprog, sprog
		if !res.OK() {
			fmt.Printf("transfer failed: %v %v\n", res.SendErr, res.RecvErr)
			os.Exit(3)
		}
		n++
		scratch.Remove(dst)
	}
	fmt.Printf("racepass: %d free-running transfers under the race detector, no race reported\n", n)
}
