// Command instrument writes instrumented copies of package fsutil's source files
// (scheduling points spliced in front of every synchronisation operation and
// file-system call, "sync" redirected to the vsync shim), a patched copy of two
// runtime files, and the overlay.json that hands them to the go command.
// The repository itself is never modified.
package main

import (
	"encoding/json"
	"flag"
	"fmt"
	"go/ast"
	"go/build"
	"go/parser"
	"go/token"
	"os"
	"path/filepath"
	"sort"
	"strings"
)

type ins struct {
	off  int
	end  int // >off: replace [off,end)
	text string
}

func main() {
	repo := flag.String("repo", "/repo", "fsutil working tree")
	goroot := flag.String("goroot", "", "GOROOT of the toolchain used for the build")
	harness := flag.String("harness", "", "harness dir (for rtoverlay)")
	out := flag.String("out", "", "output dir")
	flag.Parse()
	if *out == "" || *goroot == "" || *harness == "" {
		fmt.Fprintln(os.Stderr, "instrument: -out, -goroot, -harness required")
		os.Exit(2)
	}
	repl := map[string]string{}
	os.MkdirAll(filepath.Join(*out, "fsutil"), 0755)
	os.MkdirAll(filepath.Join(*out, "runtime"), 0755)

	ctx := build.Default
	ctx.GOOS, ctx.GOARCH = "linux", "amd64"
	ents, err := os.ReadDir(*repo)
	if err != nil {
		fatal(err)
	}
	total := 0
	for _, e := range ents {
		name := e.Name()
		if e.IsDir() || !strings.HasSuffix(name, ".go") || strings.HasSuffix(name, "_test.go") {
			continue
		}
		if ok, err := ctx.MatchFile(*repo, name); err != nil || !ok {
			continue
		}
		src, err := os.ReadFile(filepath.Join(*repo, name))
		if err != nil {
			fatal(err)
		}
		res, n, err := instrumentFile(name, src)
		if err != nil {
			fatal(fmt.Errorf("%s: %w", name, err))
		}
		if n == 0 && !strings.Contains(string(src), `"sync"`) {
			continue
		}
		dst := filepath.Join(*out, "fsutil", name)
		if err := os.WriteFile(dst, res, 0644); err != nil {
			fatal(err)
		}
		repl[filepath.Join(*repo, name)] = dst
		fmt.Printf("%-28s %d points\n", name, n)
		total += n
	}
	fmt.Printf("total %d points\n", total)

	// runtime: deterministic select order + goroutine ids
	sel, err := os.ReadFile(filepath.Join(*goroot, "src/runtime/select.go"))
	if err != nil {
		fatal(err)
	}
	const old = "j := cheaprandn(uint32(norder + 1))"
	if strings.Count(string(sel), old) != 1 {
		fatal(fmt.Errorf("runtime/select.go: expected exactly one %q", old))
	}
	sel2 := strings.Replace(string(sel), old, "j := verifSelectJ(uint32(norder + 1))", 1)
	must(os.WriteFile(filepath.Join(*out, "runtime/select.go"), []byte(sel2), 0644))
	rt, err := os.ReadFile(filepath.Join(*harness, "rtoverlay/verif_rt.go.txt"))
	if err != nil {
		fatal(err)
	}
	must(os.WriteFile(filepath.Join(*out, "runtime/verif_rt.go"), rt, 0644))
	repl[filepath.Join(*goroot, "src/runtime/select.go")] = filepath.Join(*out, "runtime/select.go")
	repl[filepath.Join(*goroot, "src/runtime/verif_rt.go")] = filepath.Join(*out, "runtime/verif_rt.go")

	// optional extra file of package fsutil exporting private pieces to the harness
	if exp, err := os.ReadFile(filepath.Join(*harness, "rtoverlay/verif_export.go.txt")); err == nil {
		must(os.WriteFile(filepath.Join(*out, "fsutil/verif_export.go"), exp, 0644))
		repl[filepath.Join(*repo, "verif_export.go")] = filepath.Join(*out, "fsutil/verif_export.go")
	}

	b, _ := json.MarshalIndent(map[string]any{"Replace": repl}, "", " ")
	must(os.WriteFile(filepath.Join(*out, "overlay.json"), b, 0644))
}

func fatal(err error) { fmt.Fprintln(os.Stderr, "instrument:", err); os.Exit(1) }
func must(err error) {
	if err != nil {
		fatal(err)
	}
}

var fsPkgs = map[string]bool{"os": true, "unix": true, "sysx": true, "syscall": true}

// fsop calls that do not touch the file system
var fsPure = map[string]bool{"FileMode": true, "IsNotExist": true, "IsPermission": true, "Getpid": true, "IsExist": true, "IsPathSeparator": true,
	"NsecToTimespec": true, "Mkdev": true, "Major": true, "Minor": true, "Getuid": true, "Getgid": true}

func instrumentFile(name string, src []byte) ([]byte, int, error) {
	fset := token.NewFileSet()
	f, err := parser.ParseFile(fset, name, src, parser.ParseComments)
	if err != nil {
		return nil, 0, err
	}
	off := func(p token.Pos) int { return fset.Position(p).Offset }
	line := func(p token.Pos) int { return fset.Position(p).Line }

	// channel-typed names (fields, params, vars, make(chan))
	chans := map[string]bool{}
	ast.Inspect(f, func(n ast.Node) bool {
		switch x := n.(type) {
		case *ast.Field:
			if _, ok := x.Type.(*ast.ChanType); ok {
				for _, id := range x.Names {
					chans[id.Name] = true
				}
			}
		case *ast.ValueSpec:
			if _, ok := x.Type.(*ast.ChanType); ok {
				for _, id := range x.Names {
					chans[id.Name] = true
				}
			}
			for i, v := range x.Values {
				if isMakeChan(v) && i < len(x.Names) {
					chans[x.Names[i].Name] = true
				}
			}
		case *ast.AssignStmt:
			for i, v := range x.Rhs {
				if isMakeChan(v) && i < len(x.Lhs) {
					if id := lastIdent(x.Lhs[i]); id != "" {
						chans[id] = true
					}
				}
			}
		}
		return true
	})

	var list []ins
	n := 0
	point := func(kind string, p token.Pos) string {
		n++
		return fmt.Sprintf("vrt.Point(%q); ", fmt.Sprintf("%s@%s:%d", kind, name, line(p)))
	}

	// direct operation of an expression tree (not descending into nested bodies)
	var exprOp func(e ast.Node) string
	exprOp = func(e ast.Node) string {
		kind := ""
		if e == nil {
			return ""
		}
		ast.Inspect(e, func(n ast.Node) bool {
			if kind != "" {
				return false
			}
			switch x := n.(type) {
			case *ast.FuncLit, *ast.BlockStmt:
				return false
			case *ast.UnaryExpr:
				if x.Op == token.ARROW {
					kind = "recv"
					return false
				}
			case *ast.CallExpr:
				if id, ok := x.Fun.(*ast.Ident); ok && id.Name == "close" {
					kind = "close"
					return false
				}
				if se, ok := x.Fun.(*ast.SelectorExpr); ok {
					if id, ok := se.X.(*ast.Ident); ok && fsPkgs[id.Name] && !fsPure[se.Sel.Name] {
						kind = "fsop"
						// keep looking for a stronger kind in arguments
					}
				}
			}
			return true
		})
		return kind
	}

	stmtKind := func(s ast.Stmt) string {
		switch x := s.(type) {
		case *ast.LabeledStmt:
			return "" // handled through its inner statement by the caller
		case *ast.SendStmt:
			return "send"
		case *ast.SelectStmt:
			nc, def := 0, false
			for _, c := range x.Body.List {
				if cc := c.(*ast.CommClause); cc.Comm == nil {
					def = true
				} else {
					nc++
				}
			}
			switch {
			case nc >= 2:
				return "select2"
			case def:
				return "poll"
			default:
				return "recv"
			}
		case *ast.ExprStmt:
			return exprOp(x.X)
		case *ast.AssignStmt:
			for _, r := range x.Rhs {
				if k := exprOp(r); k != "" {
					return k
				}
			}
		case *ast.ReturnStmt:
			for _, r := range x.Results {
				if k := exprOp(r); k != "" {
					return k
				}
			}
		case *ast.DeclStmt:
			return exprOp(x.Decl)
		case *ast.IfStmt:
			if k := exprOp(x.Init); k != "" {
				return k
			}
			return exprOp(x.Cond)
		case *ast.ForStmt:
			if k := exprOp(x.Init); k != "" {
				return k
			}
			return exprOp(x.Cond)
		case *ast.SwitchStmt:
			if k := exprOp(x.Init); k != "" {
				return k
			}
			return exprOp(x.Tag)
		case *ast.TypeSwitchStmt:
			return exprOp(x.Init)
		case *ast.RangeStmt:
			if chans[lastIdent(x.X)] {
				return "range"
			}
			return exprOp(x.X)
		}
		return ""
	}

	skipLits := map[*ast.FuncLit]bool{}
	ast.Inspect(f, func(n ast.Node) bool {
		if c, ok := n.(*ast.CallExpr); ok {
			if se, ok := c.Fun.(*ast.SelectorExpr); ok && se.Sel.Name == "Do" {
				for _, a := range c.Args {
					if fl, ok := a.(*ast.FuncLit); ok {
						skipLits[fl] = true
					}
				}
			}
		}
		return true
	})

	var doList func(stmts []ast.Stmt)
	var walk func(n ast.Node)
	doList = func(stmts []ast.Stmt) {
		for _, s := range stmts {
			inner := s
			for {
				if l, ok := inner.(*ast.LabeledStmt); ok {
					inner = l.Stmt
					continue
				}
				break
			}
			if d, ok := inner.(*ast.DeferStmt); ok {
				if id, ok := d.Call.Fun.(*ast.Ident); ok && id.Name == "close" {
					call := string(src[off(d.Call.Pos()):off(d.Call.End())])
					list = append(list, ins{off: off(d.Pos()), end: off(d.End()),
						text: "defer func() { " + point("close", d.Pos()) + call + " }()"})
					continue
				}
			}
			if k := stmtKind(inner); k != "" {
				list = append(list, ins{off: off(s.Pos()), text: point(k, inner.Pos())})
			}
			if r, ok := inner.(*ast.RangeStmt); ok && chans[lastIdent(r.X)] {
				list = append(list, ins{off: off(r.Body.Lbrace) + 1, text: " " + point("ranged", r.Body.Lbrace)})
			}
			walk(inner)
		}
	}
	walk = func(n ast.Node) {
		ast.Inspect(n, func(m ast.Node) bool {
			switch x := m.(type) {
			case *ast.FuncLit:
				if skipLits[x] {
					return false
				}
			case *ast.GoStmt:
				if fl, ok := x.Call.Fun.(*ast.FuncLit); ok {
					list = append(list, ins{off: off(fl.Body.Lbrace) + 1, text: " " + point("spawn", fl.Body.Lbrace)})
				}
			case *ast.CallExpr:
				if se, ok := x.Fun.(*ast.SelectorExpr); ok && se.Sel.Name == "Go" && len(x.Args) == 1 {
					if fl, ok := x.Args[0].(*ast.FuncLit); ok {
						list = append(list, ins{off: off(fl.Body.Lbrace) + 1, text: " " + point("spawn", fl.Body.Lbrace)})
					}
				}
			case *ast.BlockStmt:
				if m != n {
					doList(x.List)
					return false
				}
			case *ast.CaseClause:
				doList(x.Body)
				return false
			case *ast.CommClause:
				doList(x.Body)
				return false
			}
			return true
		})
	}
	for _, d := range f.Decls {
		if fd, ok := d.(*ast.FuncDecl); ok && fd.Body != nil {
			doList(fd.Body.List)
		}
	}

	// imports
	for _, im := range f.Imports {
		if im.Path.Value == `"sync"` {
			if im.Name == nil {
				list = append(list, ins{off: off(im.Path.Pos()), end: off(im.Path.End()), text: `sync "verif/vsync"`})
			} else {
				list = append(list, ins{off: off(im.Path.Pos()), end: off(im.Path.End()), text: `"verif/vsync"`})
			}
		}
	}
	if n > 0 {
		list = append(list, ins{off: off(f.Name.End()), text: `; import vrt "verif/vrt"`})
	}
	sort.SliceStable(list, func(i, j int) bool { return list[i].off > list[j].off })
	res := src
	for _, in := range list {
		end := in.end
		if end < in.off {
			end = in.off
		}
		if in.end == 0 {
			end = in.off
		}
		res = append(append(append([]byte{}, res[:in.off]...), in.text...), res[end:]...)
	}
	return res, n, nil
}

func isMakeChan(e ast.Expr) bool {
	c, ok := e.(*ast.CallExpr)
	if !ok || len(c.Args) == 0 {
		return false
	}
	if id, ok := c.Fun.(*ast.Ident); !ok || id.Name != "make" {
		return false
	}
	_, ok = c.Args[0].(*ast.ChanType)
	return ok
}

func lastIdent(e ast.Expr) string {
	switch x := e.(type) {
	case *ast.Ident:
		return x.Name
	case *ast.SelectorExpr:
		return x.Sel.Name
	}
	return ""
}
