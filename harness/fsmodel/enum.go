package fsmodel

import (
	"hash/fnv"
	"strings"
)

// EntryKind is one way a path can be populated in a shape enumeration.
type EntryKind struct {
	Name string
	Make func(path string) *Node // nil result = absent
}

const T0 = int64(1_500_000_000_000_000_000)

func hashPath(p string) int64 {
	h := fnv.New32a()
	h.Write([]byte(p))
	return int64(h.Sum32() % 1000)
}

// StdKinds: absent, dir, file f1 (5 bytes), file f2 (other size), symlink.
// salt separates the mtimes (and file bytes) of two enumerations.
func StdKinds(salt int) []EntryKind {
	mt := func(p string) int64 { return T0 + int64(salt)*1_000_000_007 + hashPath(p)*1000 + 1 }
	return []EntryKind{
		{"absent", func(string) *Node { return nil }},
		{"dir", func(p string) *Node { return &Node{Path: p, Kind: Dir, Perm: 0755, Mtime: mt(p)} }},
		{"f1", func(p string) *Node {
			return &Node{Path: p, Kind: File, Perm: 0644, Mtime: mt(p), Data: Content(salt*100+int(hashPath(p)), 5)}
		}},
		{"f2", func(p string) *Node {
			return &Node{Path: p, Kind: File, Perm: 0600, Mtime: mt(p) + 1, Data: Content(salt*100+int(hashPath(p))+1, 9)}
		}},
		{"sym", func(p string) *Node {
			return &Node{Path: p, Kind: Symlink, Perm: 0777, Mtime: mt(p), Link: "tgt" + p[len(p)-1:]}
		}},
	}
}

// Shapes enumerates every structurally valid assignment of kinds to the paths of
// the universe (a child requires its parent to be a directory), simplest first.
func Shapes(universe []string, kinds []EntryKind) []Tree {
	var out []Tree
	var rec func(i int, cur Tree)
	rec = func(i int, cur Tree) {
		if i == len(universe) {
			t := cur.Clone()
			t.Sort()
			out = append(out, t)
			return
		}
		p := universe[i]
		parentOK := true
		if k := strings.LastIndexByte(p, '/'); k >= 0 {
			pn := cur.Find(p[:k])
			parentOK = pn != nil && pn.Kind == Dir
		}
		for _, kd := range kinds {
			n := kd.Make(p)
			if n == nil {
				rec(i+1, cur)
				continue
			}
			if !parentOK {
				continue
			}
			rec(i+1, append(cur.Clone(), *n))
		}
	}
	rec(0, nil)
	return out
}

// Partitions enumerates all set partitions of n elements as group labels
// (label 0 = singleton, labels >0 = shared group).
func Partitions(n int) [][]int {
	var out [][]int
	var rec func(i int, cur []int, max int)
	rec = func(i int, cur []int, max int) {
		if i == n {
			// relabel: groups of size 1 -> 0
			cnt := map[int]int{}
			for _, g := range cur {
				cnt[g]++
			}
			lab := make([]int, n)
			next := 1
			seen := map[int]int{}
			for k, g := range cur {
				if cnt[g] < 2 {
					continue
				}
				if _, ok := seen[g]; !ok {
					seen[g] = next
					next++
				}
				lab[k] = seen[g]
			}
			out = append(out, lab)
			return
		}
		for g := 1; g <= max+1; g++ {
			m := max
			if g > max {
				m = g
			}
			rec(i+1, append(append([]int{}, cur...), g), m)
		}
	}
	rec(0, nil, 0)
	return out
}

// AttrVariants lists entries of every kind with every attribute class, all at
// path p.
func AttrVariants(p string) []Node {
	var out []Node
	mt := []int64{T0 + 111, T0 + 112, 0}
	for _, perm := range []uint32{0644, 0600, 0444, 0755, 04755, 02755, 01777} {
		out = append(out, Node{Path: p, Kind: File, Perm: perm, Mtime: mt[0], Data: Content(7, 5)})
	}
	for _, own := range [][2]uint32{{1000, 1000}, {0, 1000}} {
		out = append(out, Node{Path: p, Kind: File, Perm: 0644, UID: own[0], GID: own[1], Mtime: mt[0], Data: Content(7, 5)})
	}
	out = append(out, Node{Path: p, Kind: File, Perm: 0644, Mtime: mt[1], Data: Content(7, 5)})
	out = append(out, Node{Path: p, Kind: File, Perm: 0644, Mtime: mt[2], Data: Content(7, 5)})
	out = append(out, Node{Path: p, Kind: File, Perm: 0644, Mtime: mt[0], Data: Content(7, 5), Xattrs: map[string]string{"user.k": "v"}})
	out = append(out, Node{Path: p, Kind: File, Perm: 0644, Mtime: mt[0], Data: Content(7, 5), Xattrs: map[string]string{"trusted.k": "w"}})
	out = append(out, Node{Path: p, Kind: File, Perm: 0755, Mtime: mt[0], Data: Content(7, 5), Xattrs: map[string]string{"security.capability": CapNetBind}})
	for i, sz := range []int{0, 1, 32767, 32768, 32769, 65537} {
		out = append(out, Node{Path: p, Kind: File, Perm: 0644, Mtime: mt[0] + int64(10+i), Data: Content(20+i, sz)})
	}
	for _, perm := range []uint32{0755, 0700, 02755, 01777, 0555} {
		out = append(out, Node{Path: p, Kind: Dir, Perm: perm, Mtime: mt[0]})
	}
	out = append(out, Node{Path: p, Kind: Dir, Perm: 0755, UID: 1000, GID: 1000, Mtime: mt[1]})
	out = append(out, Node{Path: p, Kind: Dir, Perm: 0755, Mtime: mt[0], Xattrs: map[string]string{"user.d": "1"}})
	out = append(out, Node{Path: p, Kind: Symlink, Perm: 0777, Mtime: mt[0], Link: "target"})
	out = append(out, Node{Path: p, Kind: Symlink, Perm: 0777, Mtime: mt[0], Link: "/abs/target"})
	out = append(out, Node{Path: p, Kind: Symlink, Perm: 0777, Mtime: mt[1], Link: "../../up", UID: 1000, GID: 1000})
	// attributes in the trusted namespace are legal on links and special files too
	out = append(out, Node{Path: p, Kind: Symlink, Perm: 0777, Mtime: mt[0], Link: "target", Xattrs: map[string]string{"trusted.l": "1"}})
	out = append(out, Node{Path: p, Kind: Fifo, Perm: 0644, Mtime: mt[0], Xattrs: map[string]string{"trusted.f": "2"}})
	out = append(out, Node{Path: p, Kind: Char, Perm: 0666, Mtime: mt[0], Major: 1, Minor: 3, Xattrs: map[string]string{"trusted.c": "3"}})
	out = append(out, Node{Path: p, Kind: Fifo, Perm: 0644, Mtime: mt[0]})
	out = append(out, Node{Path: p, Kind: Fifo, Perm: 0600, Mtime: mt[1], UID: 1000})
	out = append(out, Node{Path: p, Kind: Char, Perm: 0666, Mtime: mt[0], Major: 1, Minor: 3})
	out = append(out, Node{Path: p, Kind: Char, Perm: 0666, Mtime: mt[0], Major: 1, Minor: 5})
	out = append(out, Node{Path: p, Kind: Block, Perm: 0660, Mtime: mt[0], Major: 7, Minor: 0})
	out = append(out, Node{Path: p, Kind: Socket, Perm: 0755, Mtime: mt[0]})
	// values outside the everyday range: a time before the epoch with a nanosecond part, ids above 2^31,
	// device numbers above 255, several attributes of which one is empty and one large
	out = append(out, Node{Path: p, Kind: File, Perm: 0644, Mtime: -86400*1e9*365 + 999999999, Data: Content(7, 5)})
	out = append(out, Node{Path: p, Kind: File, Perm: 0644, UID: 3000000000, GID: 4294967294, Mtime: mt[0], Data: Content(7, 5)})
	out = append(out, Node{Path: p, Kind: Dir, Perm: 0755, UID: 2147483648, GID: 65534, Mtime: mt[0]})
	out = append(out, Node{Path: p, Kind: Char, Perm: 0666, Mtime: mt[0], Major: 300, Minor: 70000})
	out = append(out, Node{Path: p, Kind: Block, Perm: 0660, Mtime: mt[0], Major: 4095, Minor: 256})
	out = append(out, Node{Path: p, Kind: File, Perm: 0644, Mtime: mt[0], Data: Content(7, 5), Xattrs: map[string]string{"user.a": "", "user.b": strings.Repeat("B", 3000), "user.c": "\x00\xff"}})
	return out
}

// CapNetBind is a valid security.capability value (revision 2, cap_net_bind_service permitted+effective).
const CapNetBind = "\x01\x00\x00\x02\x00\x04\x00\x00\x00\x00\x00\x00\x00\x00\x00\x00\x00\x00\x00\x00"
