// Package fsmodel is a plain value model of a file tree plus independent
// materialise / snapshot / diff routines. It shares no code with fsutil.
package fsmodel

import (
	"bytes"
	"crypto/sha256"
	"encoding/hex"
	"errors"
	"fmt"
	"os"
	"path/filepath"
	"sort"
	"strings"
	"syscall"

	"golang.org/x/sys/unix"
)

type Kind int

const (
	Dir Kind = iota
	File
	Symlink
	Fifo
	Char
	Block
	Socket
)

func (k Kind) String() string {
	return [...]string{"dir", "file", "symlink", "fifo", "char", "block", "socket"}[k]
}

type Node struct {
	Path   string            `json:"path"`
	Kind   Kind              `json:"kind"`
	Perm   uint32            `json:"perm"` // 12 bits: rwx + suid(04000) sgid(02000) sticky(01000)
	UID    uint32            `json:"uid"`
	GID    uint32            `json:"gid"`
	Mtime  int64             `json:"mtime"` // ns
	Data   []byte            `json:"data,omitempty"`
	Link   string            `json:"link,omitempty"`
	Major  uint32            `json:"major,omitempty"`
	Minor  uint32            `json:"minor,omitempty"`
	Xattrs map[string]string `json:"xattrs,omitempty"`
	HL     int               `json:"hl,omitempty"` // hard-link group (>0); members share an inode
	Ino    uint64            `json:"-"`
	Ctime  int64             `json:"-"`
	Nlink  uint64            `json:"-"`
}

func (n Node) String() string {
	s := fmt.Sprintf("%s:%s:%04o:%d:%d:@%d", n.Path, n.Kind, n.Perm, n.UID, n.GID, n.Mtime)
	switch n.Kind {
	case File:
		s += fmt.Sprintf(":%dB#%s", len(n.Data), Sum(n.Data))
	case Symlink:
		s += ":->" + n.Link
	case Char, Block:
		s += fmt.Sprintf(":%d,%d", n.Major, n.Minor)
	}
	if n.HL > 0 {
		s += fmt.Sprintf(":hl%d", n.HL)
	}
	if len(n.Xattrs) > 0 {
		keys := make([]string, 0, len(n.Xattrs))
		for k := range n.Xattrs {
			keys = append(keys, k)
		}
		sort.Strings(keys)
		for _, k := range keys {
			s += fmt.Sprintf(":%s=%s", k, n.Xattrs[k])
		}
	}
	return s
}

func Sum(b []byte) string {
	h := sha256.Sum256(b)
	return hex.EncodeToString(h[:4])
}

type Tree []Node

func (t Tree) String() string {
	var sb strings.Builder
	sb.WriteString("{")
	for i, n := range t {
		if i > 0 {
			sb.WriteString(" | ")
		}
		sb.WriteString(n.String())
	}
	sb.WriteString("}")
	return sb.String()
}

func (t Tree) Strings() []string {
	out := make([]string, len(t))
	for i, n := range t {
		out[i] = n.String()
	}
	return out
}

func (t Tree) Clone() Tree {
	out := make(Tree, len(t))
	copy(out, t)
	for i := range out {
		if out[i].Xattrs != nil {
			m := map[string]string{}
			for k, v := range out[i].Xattrs {
				m[k] = v
			}
			out[i].Xattrs = m
		}
	}
	return out
}

func (t Tree) Find(p string) *Node {
	for i := range t {
		if t[i].Path == p {
			return &t[i]
		}
	}
	return nil
}

func (t Tree) Paths() []string {
	out := make([]string, len(t))
	for i, n := range t {
		out[i] = n.Path
	}
	return out
}

// ComparePaths compares two slash-separated relative paths component by
// component, components bytewise; a proper prefix sorts first.
func ComparePaths(a, b string) int {
	as, bs := strings.Split(a, "/"), strings.Split(b, "/")
	for i := 0; i < len(as) && i < len(bs); i++ {
		if c := strings.Compare(as[i], bs[i]); c != 0 {
			return c
		}
	}
	return len(as) - len(bs)
}

func (t Tree) Sort() {
	sort.SliceStable(t, func(i, j int) bool { return ComparePaths(t[i].Path, t[j].Path) < 0 })
}

// Valid reports whether every entry's parent is a directory of the tree and
// paths are unique.
func (t Tree) Valid() bool {
	kinds := map[string]Kind{}
	for _, n := range t {
		if _, dup := kinds[n.Path]; dup {
			return false
		}
		kinds[n.Path] = n.Kind
	}
	for _, n := range t {
		if i := strings.LastIndexByte(n.Path, '/'); i >= 0 {
			if k, ok := kinds[n.Path[:i]]; !ok || k != Dir {
				return false
			}
		}
	}
	return true
}

// Under returns the subtree at or below p.
func (t Tree) Under(p string) Tree {
	var out Tree
	for _, n := range t {
		if n.Path == p || strings.HasPrefix(n.Path, p+"/") {
			out = append(out, n)
		}
	}
	return out
}

// Content returns deterministic bytes of the given size; different seeds give
// different bytes at every offset class.
func Content(seed, size int) []byte {
	b := make([]byte, size)
	x := uint32(seed)*2654435761 + 12345
	for i := range b {
		x = x*1664525 + 1013904223
		b[i] = byte(x >> 24)
	}
	return b
}

func modeBits(n Node) uint32 {
	m := n.Perm & 0777
	if n.Perm&04000 != 0 {
		m |= uint32(os.ModeSetuid)
	}
	if n.Perm&02000 != 0 {
		m |= uint32(os.ModeSetgid)
	}
	if n.Perm&01000 != 0 {
		m |= uint32(os.ModeSticky)
	}
	return m
}

// GoMode is the os.FileMode a Go lstat reports for the node (socket bit kept).
func GoMode(n Node) os.FileMode {
	m := os.FileMode(modeBits(n))
	switch n.Kind {
	case Dir:
		m |= os.ModeDir
	case Symlink:
		m |= os.ModeSymlink
	case Fifo:
		m |= os.ModeNamedPipe
	case Char:
		m |= os.ModeDevice | os.ModeCharDevice
	case Block:
		m |= os.ModeDevice
	case Socket:
		m |= os.ModeSocket
	}
	return m
}

// Materialize creates the tree below dir (which must exist). Entries are created
// parents first; metadata of directories is applied last, deepest first.
func Materialize(t Tree, dir string) error {
	t = t.Clone()
	t.Sort()
	first := map[int]string{}
	for _, n := range t {
		p := filepath.Join(dir, n.Path)
		if n.HL > 0 {
			if src, ok := first[n.HL]; ok {
				if err := os.Link(src, p); err != nil {
					return err
				}
				continue
			}
			first[n.HL] = p
		}
		switch n.Kind {
		case Dir:
			if err := os.Mkdir(p, 0700); err != nil {
				return err
			}
			continue
		case File:
			if err := os.WriteFile(p, n.Data, 0600); err != nil {
				return err
			}
		case Symlink:
			if err := os.Symlink(n.Link, p); err != nil {
				return err
			}
		case Fifo:
			if err := unix.Mknod(p, unix.S_IFIFO|0600, 0); err != nil {
				return err
			}
		case Char:
			if err := unix.Mknod(p, unix.S_IFCHR|0600, int(unix.Mkdev(n.Major, n.Minor))); err != nil {
				return err
			}
		case Block:
			if err := unix.Mknod(p, unix.S_IFBLK|0600, int(unix.Mkdev(n.Major, n.Minor))); err != nil {
				return err
			}
		case Socket:
			if err := unix.Mknod(p, unix.S_IFSOCK|0600, 0); err != nil {
				return err
			}
		}
		if err := applyMeta(p, n); err != nil {
			return err
		}
	}
	for i := len(t) - 1; i >= 0; i-- {
		if t[i].Kind == Dir {
			if err := applyMeta(filepath.Join(dir, t[i].Path), t[i]); err != nil {
				return err
			}
		}
	}
	return nil
}

func applyMeta(p string, n Node) error {
	if err := os.Lchown(p, int(n.UID), int(n.GID)); err != nil {
		return err
	}
	if n.Kind != Symlink {
		if err := unix.Chmod(p, n.Perm&07777); err != nil {
			return err
		}
	}
	// after chown: the kernel drops security.capability when the owner is set
	for k, v := range n.Xattrs {
		if err := unix.Lsetxattr(p, k, []byte(v), 0); err != nil {
			return fmt.Errorf("lsetxattr %s %s: %w", p, k, err)
		}
	}
	return Utime(p, n.Mtime)
}

func Utime(p string, ns int64) error {
	ts := []unix.Timespec{unix.NsecToTimespec(ns), unix.NsecToTimespec(ns)}
	return unix.UtimesNanoAt(unix.AT_FDCWD, p, ts, unix.AT_SYMLINK_NOFOLLOW)
}

// ErrRootNotDir: the directory to snapshot has been replaced by something else.
var ErrRootNotDir = errors.New("root is not a directory (any more)")

// Snapshot lists everything below dir with an independent lstat walk.
func Snapshot(dir string) (Tree, error) {
	var out Tree
	// never open what is not a directory (a fifo would block, a symlink would lead elsewhere)
	if fi, err := os.Lstat(dir); err != nil {
		return nil, err
	} else if !fi.IsDir() {
		return nil, &os.PathError{Op: "snapshot", Path: dir, Err: ErrRootNotDir}
	}
	var rec func(rel string) error
	rec = func(rel string) error {
		f, err := os.Open(filepath.Join(dir, rel))
		if err != nil {
			return err
		}
		names, err := f.Readdirnames(-1)
		f.Close()
		if err != nil {
			return err
		}
		sort.Strings(names)
		for _, name := range names {
			r := name
			if rel != "" {
				r = rel + "/" + name
			}
			n, err := LstatNode(filepath.Join(dir, r), r)
			if err != nil {
				return err
			}
			out = append(out, n)
			if n.Kind == Dir {
				if err := rec(r); err != nil {
					return err
				}
			}
		}
		return nil
	}
	if err := rec(""); err != nil {
		return nil, err
	}
	out.Sort()
	// hard-link groups by (dev, ino), numbered by first occurrence
	grp := map[uint64]int{}
	cnt := map[uint64]int{}
	for _, n := range out {
		if n.Kind != Dir {
			cnt[n.Ino]++
		}
	}
	next := 1
	for i := range out {
		n := &out[i]
		if n.Kind == Dir || cnt[n.Ino] < 2 {
			continue
		}
		g, ok := grp[n.Ino]
		if !ok {
			g = next
			next++
			grp[n.Ino] = g
		}
		n.HL = g
	}
	return out, nil
}

func LstatNode(full, rel string) (Node, error) {
	var st unix.Stat_t
	if err := unix.Lstat(full, &st); err != nil {
		return Node{}, fmt.Errorf("lstat %s: %w", full, err)
	}
	n := Node{Path: rel, Perm: st.Mode & 07777, UID: st.Uid, GID: st.Gid,
		Mtime: st.Mtim.Nano(), Ino: st.Ino, Ctime: st.Ctim.Nano(), Nlink: uint64(st.Nlink)}
	switch st.Mode & unix.S_IFMT {
	case unix.S_IFDIR:
		n.Kind = Dir
	case unix.S_IFREG:
		n.Kind = File
		b, err := os.ReadFile(full)
		if err != nil {
			// unreadable (e.g. mode 0 as non-root): keep empty
			if !os.IsPermission(err) {
				return n, err
			}
		}
		n.Data = b
	case unix.S_IFLNK:
		n.Kind = Symlink
		l, err := os.Readlink(full)
		if err != nil {
			return n, err
		}
		n.Link = l
	case unix.S_IFIFO:
		n.Kind = Fifo
	case unix.S_IFCHR:
		n.Kind = Char
		n.Major, n.Minor = unix.Major(st.Rdev), unix.Minor(st.Rdev)
	case unix.S_IFBLK:
		n.Kind = Block
		n.Major, n.Minor = unix.Major(st.Rdev), unix.Minor(st.Rdev)
	case unix.S_IFSOCK:
		n.Kind = Socket
	}
	xs, err := listxattr(full)
	if err != nil && err != syscall.ENOTSUP && err != syscall.EPERM {
		return n, err
	}
	for _, k := range xs {
		v, err := getxattr(full, k)
		if err != nil {
			continue
		}
		if n.Xattrs == nil {
			n.Xattrs = map[string]string{}
		}
		n.Xattrs[k] = string(v)
	}
	return n, nil
}

func listxattr(p string) ([]string, error) {
	sz, err := unix.Llistxattr(p, nil)
	if err != nil || sz == 0 {
		return nil, err
	}
	buf := make([]byte, sz+256)
	sz, err = unix.Llistxattr(p, buf)
	if err != nil {
		return nil, err
	}
	var out []string
	for _, s := range bytes.Split(buf[:sz], []byte{0}) {
		if len(s) > 0 {
			out = append(out, string(s))
		}
	}
	return out, nil
}

func getxattr(p, k string) ([]byte, error) {
	sz, err := unix.Lgetxattr(p, k, nil)
	if err != nil {
		return nil, err
	}
	buf := make([]byte, sz+16)
	sz, err = unix.Lgetxattr(p, k, buf)
	if err != nil {
		return nil, err
	}
	return buf[:sz], nil
}

// Mask selects what Diff ignores.
type Mask struct {
	DirMtime      func(path string) bool // true = ignore mtime of this directory
	NoXattrOf     func(n Node) bool      // true = ignore xattrs of this entry
	NoMtime       bool
	NoOwner       bool
	NoHardlinks   bool
	IgnoreSocketK bool // compare sockets as present (kind) only
}

// Diff returns human-readable differences between want and got.
func Diff(want, got Tree, m Mask) []string {
	var out []string
	i, j := 0, 0
	for i < len(want) || j < len(got) {
		var c int
		switch {
		case i >= len(want):
			c = 1
		case j >= len(got):
			c = -1
		default:
			c = ComparePaths(want[i].Path, got[j].Path)
		}
		switch {
		case c < 0:
			out = append(out, "missing "+want[i].String())
			i++
		case c > 0:
			out = append(out, "extra "+got[j].String())
			j++
		default:
			if d := diffNode(want[i], got[j], m); d != "" {
				out = append(out, d)
			}
			i++
			j++
		}
	}
	if !m.NoHardlinks {
		if d := diffGroups(want, got); d != "" {
			out = append(out, d)
		}
	}
	return out
}

func diffNode(w, g Node, m Mask) string {
	var d []string
	if w.Kind != g.Kind {
		return fmt.Sprintf("%s: kind want %s got %s", w.Path, w.Kind, g.Kind)
	}
	if w.Perm != g.Perm && w.Kind != Symlink {
		d = append(d, fmt.Sprintf("perm want %04o got %04o", w.Perm, g.Perm))
	}
	if !m.NoOwner && (w.UID != g.UID || w.GID != g.GID) {
		d = append(d, fmt.Sprintf("owner want %d:%d got %d:%d", w.UID, w.GID, g.UID, g.GID))
	}
	if !m.NoMtime && w.Mtime != g.Mtime {
		if !(w.Kind == Dir && m.DirMtime != nil && m.DirMtime(w.Path)) {
			d = append(d, fmt.Sprintf("mtime want %d got %d", w.Mtime, g.Mtime))
		}
	}
	switch w.Kind {
	case File:
		if !bytes.Equal(w.Data, g.Data) {
			d = append(d, fmt.Sprintf("bytes want %dB#%s got %dB#%s", len(w.Data), Sum(w.Data), len(g.Data), Sum(g.Data)))
		}
	case Symlink:
		if w.Link != g.Link {
			d = append(d, fmt.Sprintf("target want %q got %q", w.Link, g.Link))
		}
	case Char, Block:
		if w.Major != g.Major || w.Minor != g.Minor {
			d = append(d, fmt.Sprintf("dev want %d,%d got %d,%d", w.Major, w.Minor, g.Major, g.Minor))
		}
	}
	if m.NoXattrOf == nil || !m.NoXattrOf(w) {
		if !sameX(w.Xattrs, g.Xattrs) {
			d = append(d, fmt.Sprintf("xattrs want %v got %v", w.Xattrs, g.Xattrs))
		}
	}
	if len(d) == 0 {
		return ""
	}
	return w.Path + ": " + strings.Join(d, "; ")
}

func sameX(a, b map[string]string) bool {
	if len(a) != len(b) {
		return false
	}
	for k, v := range a {
		if w, ok := b[k]; !ok || w != v {
			return false
		}
	}
	return true
}

// Groups returns the hard-link partition as sorted "p1+p2" strings.
func Groups(t Tree) []string {
	m := map[int][]string{}
	for _, n := range t {
		// names of one symlink inode are not an identity any of the properties fixes: neither the wire format nor
		// the copier has a way to keep them (the link-name field of a symlink is its target)
		if n.HL > 0 && n.Kind != Symlink {
			m[n.HL] = append(m[n.HL], n.Path)
		}
	}
	var out []string
	for _, g := range m {
		if len(g) > 1 {
			sort.Strings(g)
			out = append(out, strings.Join(g, "+"))
		}
	}
	sort.Strings(out)
	return out
}

func diffGroups(w, g Tree) string {
	a, b := strings.Join(Groups(w), " "), strings.Join(Groups(g), " ")
	if a != b {
		return fmt.Sprintf("hard-link groups want [%s] got [%s]", a, b)
	}
	return ""
}

// SetXattr sets one extended attribute without following symlinks.
func SetXattr(p, k, v string) error { return unix.Lsetxattr(p, k, []byte(v), 0) }
