// Package netsim is the simulated stream between a sender and a receiver whose
// SendMsg/RecvMsg calls are gates of the controlled scheduler. Packets are
// marshalled with the real codec on send and unmarshalled on receive.
package netsim

import (
	"context"
	"errors"
	"fmt"
	"io"
	"sync"

	"github.com/tonistiigi/fsutil/types"
	"verif/vrt"
)

var ErrBroken = errors.New("netsim: stream broken")

type dirq struct {
	q      [][]byte
	closed bool // writer side finished (EOF after drain)
	enq    int  // packets ever queued / ever taken (rendezvous streams wait for their own packet to be taken)
	deq    int
}

// Link is the pair of directed queues plus fault state. All fields are touched
// either by the controller at quiescent states or by the single released thread.
type Link struct {
	mu   sync.Mutex
	Cap  int
	s2r  dirq
	r2s  dirq
	Torn bool // forced teardown: every pending and future call fails
	// TornByCancel: the teardown was the cancellation of the stream's own context: calls fail with context.Canceled
	TornByCancel bool

	Log []Pkt

	// fault injection: fail the k-th (0-based) call of the given kind
	FailAt map[string]int // key "S.send","S.recv","R.send","R.recv"
	count  map[string]int

	// overlap detection
	inCall   map[string]int
	Overlaps []string
	Ends     [2]*End

	// PostYield: a scheduling point after every successful SendMsg, before it returns to its caller
	PostYield bool
	// Rendezvous: a stream without any buffer (capacity 0): SendMsg returns only once the peer's RecvMsg has taken the
	// packet (or the stream is torn down)
	Rendezvous bool
	// OnSend, if set, observes every packet at the moment its SendMsg gate is
	// released (before it is queued).
	OnSend func(from string, p *types.Packet)
}

type Pkt struct {
	From string
	P    *types.Packet
}

func (p Pkt) String() string {
	switch p.P.Type {
	case types.PACKET_STAT:
		if p.P.Stat == nil {
			return p.From + " STAT <end>"
		}
		return fmt.Sprintf("%s STAT %s", p.From, p.P.Stat.Path)
	case types.PACKET_REQ:
		return fmt.Sprintf("%s REQ %d", p.From, p.P.ID)
	case types.PACKET_DATA:
		return fmt.Sprintf("%s DATA %d len=%d", p.From, p.P.ID, len(p.P.Data))
	case types.PACKET_FIN:
		return p.From + " FIN"
	case types.PACKET_ERR:
		return fmt.Sprintf("%s ERR %q", p.From, p.P.Data)
	}
	return p.From + " ?"
}

type End struct {
	l    *Link
	Name string // "S" or "R"
	ctx  context.Context
	out  *dirq
	in   *dirq
	// Broken: this end's calls fail from now on
	Broken bool
	// PeerGone: the peer's call has returned; sends to it fail
	PeerGone bool
}

func NewLink(capacity int) *Link {
	return &Link{Cap: capacity, FailAt: map[string]int{}, count: map[string]int{}, inCall: map[string]int{}}
}

func (l *Link) End(name string, ctx context.Context) *End {
	e := &End{l: l, Name: name, ctx: ctx}
	if name == "S" {
		e.out, e.in = &l.s2r, &l.r2s
		l.Ends[0] = e
	} else {
		e.out, e.in = &l.r2s, &l.s2r
		l.Ends[1] = e
	}
	return e
}

func (e *End) Context() context.Context { return e.ctx }

// Returned is called when the call that owns this end has returned: the peer
// reads EOF after draining what is queued, and the peer's sends fail.
func (e *End) Returned() {
	e.l.mu.Lock()
	e.out.closed = true
	for _, o := range e.l.Ends {
		if o != nil && o != e {
			o.PeerGone = true
		}
	}
	e.l.mu.Unlock()
}

// Kill models SIGKILL of the process that owns this end: its own calls fail from now
// on, the peer reads EOF after draining what is queued, and the peer's sends fail.
func (e *End) Kill() {
	e.l.mu.Lock()
	e.Broken = true
	e.out.closed = true
	for _, o := range e.l.Ends {
		if o != nil && o != e {
			o.PeerGone = true
		}
	}
	e.l.mu.Unlock()
}

func (e *End) Break() {
	e.l.mu.Lock()
	e.Broken = true
	e.l.mu.Unlock()
}

// brokenErr is what calls on a torn-down stream return: the transport's own error, or - when the stream was torn
// down by cancelling the stream's context (TornByCancel) - context.Canceled, which says nothing about the callers'
// contexts.
func (l *Link) brokenErr() error {
	if l.TornByCancel {
		return context.Canceled
	}
	return ErrBroken
}

func (l *Link) enter(key string) {
	l.mu.Lock()
	l.inCall[key]++
	if l.inCall[key] > 1 {
		l.Overlaps = append(l.Overlaps, key)
	}
	l.mu.Unlock()
}

func (l *Link) leave(key string) {
	l.mu.Lock()
	l.inCall[key]--
	l.mu.Unlock()
}

// fails reports whether this call is the one selected for fault injection.
func (l *Link) fails(key string) bool {
	k, ok := l.FailAt[key]
	c := l.count[key]
	l.count[key] = c + 1
	return ok && c == k
}

// desc names a packet in a scheduling point. It must be the same in every execution of a scenario: the text of an
// ERR packet quotes paths below a per-execution scratch directory, so only its length class is kept.
func desc(p *types.Packet) string {
	if p.Type == types.PACKET_ERR {
		return " ERR"
	}
	return Pkt{P: p}.String()
}

func (e *End) SendMsg(m interface{}) error {
	p, ok := m.(*types.Packet)
	if !ok {
		return fmt.Errorf("netsim: unexpected message type %T", m)
	}
	// the transport-facing codec entry points, as util.NewProtoStream uses them
	raw := make([]byte, p.Size())
	if n, err := p.MarshalTo(raw); err != nil {
		return err
	} else if n != len(raw) {
		return fmt.Errorf("netsim: MarshalTo wrote %d of Size()=%d bytes", n, len(raw))
	}
	key := e.Name + ".send"
	e.l.enter(key)
	defer e.l.leave(key)
	vrt.Gate(key+desc(p), func() bool {
		return e.l.Torn || e.Broken || e.PeerGone || len(e.out.q) < e.l.Cap
	})
	if e.l.OnSend != nil {
		e.l.OnSend(e.Name, p)
	}
	mySeq := 0
	err := func() error {
		e.l.mu.Lock()
		defer e.l.mu.Unlock()
		if e.l.fails(key) {
			return fmt.Errorf("netsim: injected %s failure", key)
		}
		if e.l.Torn || e.Broken {
			return e.l.brokenErr()
		}
		if e.PeerGone {
			return io.ErrClosedPipe
		}
		if e.out.closed {
			return io.ErrClosedPipe
		}
		e.out.q = append(e.out.q, raw)
		e.out.enq++
		mySeq = e.out.enq
		var cp types.Packet
		if err := cp.UnmarshalVT(raw); err == nil {
			e.l.Log = append(e.l.Log, Pkt{From: e.Name, P: &cp})
		}
		return nil
	}()
	if err == nil && e.l.Rendezvous {
		vrt.Gate(key+".taken"+desc(p), func() bool {
			return e.l.Torn || e.Broken || e.PeerGone || e.out.deq >= mySeq
		})
	}
	if err == nil && e.l.PostYield {
		// the call returns late (a synchronous transport, or the caller is descheduled on return): the packet is
		// already on its way when the caller gets to run again
		vrt.Point(key + ".done" + desc(p))
	}
	return err
}

func (e *End) RecvMsg(m interface{}) error {
	p, ok := m.(*types.Packet)
	if !ok {
		return fmt.Errorf("netsim: unexpected message type %T", m)
	}
	key := e.Name + ".recv"
	e.l.enter(key)
	defer e.l.leave(key)
	vrt.Gate(key, func() bool {
		_, armed := e.l.FailAt[key]
		return e.l.Torn || e.Broken || len(e.in.q) > 0 || e.in.closed || (armed && e.l.count[key] == e.l.FailAt[key])
	})
	e.l.mu.Lock()
	defer e.l.mu.Unlock()
	if e.l.fails(key) {
		return fmt.Errorf("netsim: injected %s failure", key)
	}
	if e.l.Torn || e.Broken {
		return e.l.brokenErr()
	}
	if len(e.in.q) == 0 {
		if e.in.closed {
			return io.EOF
		}
		return fmt.Errorf("netsim: recv released without data")
	}
	raw := e.in.q[0]
	e.in.q = e.in.q[1:]
	e.in.deq++
	err := p.Unmarshal(raw)
	// a transport reuses its receive buffer as soon as RecvMsg returns: a decoded packet that still points into it
	// reads garbage from now on
	for i := range raw {
		raw[i] = 0xaa
	}
	return err
}

// Pending returns the queue lengths (S->R, R->S).
func (l *Link) Pending() (int, int) { return len(l.s2r.q), len(l.r2s.q) }

func (l *Link) LogStrings() []string {
	out := make([]string, len(l.Log))
	for i, p := range l.Log {
		out[i] = p.String()
	}
	return out
}

// Counts returns how many calls of each kind ("S.send", ...) were made.
func (l *Link) Counts() map[string]int {
	out := map[string]int{}
	for k, v := range l.count {
		out[k] = v
	}
	return out
}
