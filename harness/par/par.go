// Package par runs index ranges on a fixed number of goroutines.
package par

import (
	"runtime"
	"sync"
	"sync/atomic"
)

func Workers() int { return runtime.NumCPU() }

// Do calls fn(i) for i in [0,n) on w goroutines (dynamic distribution).
func Do(n, w int, fn func(i int)) {
	if w < 1 {
		w = 1
	}
	var next atomic.Int64
	var wg sync.WaitGroup
	for k := 0; k < w; k++ {
		wg.Add(1)
		go func() {
			defer wg.Done()
			for {
				i := int(next.Add(1) - 1)
				if i >= n {
					return
				}
				fn(i)
			}
		}()
	}
	wg.Wait()
}
