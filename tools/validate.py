#!/opt/veriftools/pyvenv/bin/python
import json, jsonschema, sys, glob
m=json.load(open('/verif/MANIFEST.json')); s=json.load(open('/root/.vp/MANIFEST.schema.json')); jsonschema.validate(m,s); print("manifest valid:", len(m['checks']), "checks")
es=json.load(open('/root/.vp/EVIDENCE.schema.json'))
for f in sorted(glob.glob('/verif/evidence/*.json')):
    e=json.load(open(f)); jsonschema.validate(e,es); print("evidence valid:", f, e['tier'], 'viol', e.get('violations'))
