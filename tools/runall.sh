#!/bin/bash
# runs every registered check at the given tier; prints one line per check
tier="${1:-quick}"; shift
cd "$(dirname "$0")/.."
ids="$*"
[ -n "$ids" ] || ids=$(python3 -c "import json;print(' '.join(c['property_id'] for c in json.load(open('MANIFEST.json'))['checks']))")
for id in $ids; do
  s=$(date +%s)
  out=$(./run.sh check $id $tier 2>&1); rc=$?
  e=$(( $(date +%s) - s ))
  echo "$id rc=$rc ${e}s $(echo "$out" | grep -c '^VIOLATION') violations; $(echo "$out" | grep -c '^KNOWN-FINDING') known; $(echo "$out" | tail -1 | cut -c1-160)"
done
