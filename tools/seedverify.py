#!/usr/bin/env python3
"""Verifies seeded property-breaking changes and records them under /verif/seeded/<id>/.

For every directory given (containing patch.diff, demo_test.go, NOTES.md):
  1. scratch worktree of /repo HEAD (outside /repo and /verif), apply the patch (3-way if needed)
  2. repository's own suite must pass with the patch
  3. the demonstration must FAIL with the patch and PASS without it
  4. run the property's check(s) against the patched worktree (VERIF_REPO) and record the outcome
  5. remove the worktree
"""
import json, os, re, shutil, subprocess, sys, tempfile, time

ENV = dict(os.environ, GOFLAGS="-mod=mod", GOPROXY="off", GOSUMDB="off", GOTOOLCHAIN="local")

def sh(cmd, cwd=None, env=ENV, timeout=1800):
    p = subprocess.run(cmd, shell=True, cwd=cwd, env=env, stdout=subprocess.PIPE, stderr=subprocess.STDOUT, text=True, errors='replace', timeout=timeout)
    return p.returncode, p.stdout

def demo_dir(src):
    m = re.search(r'^package\s+(\w+)', src, re.M)
    pkg = m.group(1) if m else 'fsutil'
    return {'fsutil': '.', 'fsutil_test': '.', 'fs': 'copy', 'fs_test': 'copy', 'util': 'util', 'util_test': 'util', 'types': 'types', 'types_test': 'types'}.get(pkg, '.')

def test_names(src):
    return re.findall(r'^func (Test\w+)\(', src, re.M)

def verify(d, checks, tier='quick'):
    name = os.path.basename(d.rstrip('/'))
    prop = name.split('-')[0]
    out = {'id': name, 'property': prop}
    wt = tempfile.mkdtemp(prefix='seedwt.', dir='/tmp'); os.rmdir(wt)
    rc, o = sh(f'git -C /repo worktree add -q --detach {wt} HEAD')
    if rc: out['error'] = 'worktree: ' + o; return out
    try:
        patch = os.path.join(d, 'patch.diff')
        rc, o = sh(f'git apply {patch}', cwd=wt)
        out['rebased'] = False
        if rc:
            rc, o = sh(f'git apply --3way {patch}', cwd=wt)
            out['rebased'] = True
            if rc or 'conflict' in o.lower():
                out['error'] = 'patch does not apply: ' + o[-400:]; return out
            sh('git reset -q', cwd=wt)
        rc, diff = sh("git diff", cwd=wt)
        out['patch'] = diff
        runs = []
        for attempt in range(3):
            rc, o = sh('go build ./... && go test -vet=off -count=1 ./... 2>&1 | grep -v "no test files"', cwd=wt)
            ok = rc == 0 and 'FAIL' not in o
            runs.append(ok)
            if ok:
                break
        out['suite_with_patch'] = 'ok' if runs[-1] else 'FAIL: ' + o[-600:]
        if len(runs) > 1:
            out['suite_note'] = f"{len(runs)-1} run(s) failed first (the repository's TestSendError is flaky under load, also without the patch)"
        demo = open(os.path.join(d, 'demo_test.go')).read()
        dd = demo_dir(demo)
        names = test_names(demo)
        shutil.copy(os.path.join(d, 'demo_test.go'), os.path.join(wt, dd, 'verif_seed_demo_test.go'))
        run = f"go test -vet=off -count=1 -run '^({'|'.join(names)})$' ./{dd}/"
        rc1, o1 = sh(run, cwd=wt, timeout=600)
        out['demo_with_patch'] = 'FAIL (as required)' if rc1 != 0 else 'PASS (demo does not fail!)'
        out['demo_cmd'] = run
        sh(f'git apply -R -', cwd=wt, env=ENV) if False else None
        with open(os.path.join(wt, '.seed.diff'), 'w') as f: f.write(diff)
        rc, o = sh('git apply -R .seed.diff', cwd=wt)
        rc2, o2 = sh(run, cwd=wt, timeout=600)
        out['demo_without_patch'] = 'PASS (as required)' if rc2 == 0 else 'FAIL: ' + o2[-500:]
        os.remove(os.path.join(wt, dd, 'verif_seed_demo_test.go'))
        sh('git apply .seed.diff', cwd=wt); os.remove(os.path.join(wt, '.seed.diff'))
        out['checks'] = {}
        for c in checks:
            root = tempfile.mkdtemp(prefix='seedroot.', dir='/tmp')
            shutil.copy('/verif/known_findings.json', root)
            t0 = time.time()
            rc, o = sh(f'/verif/run.sh check {c} {tier}', env=dict(ENV, VERIF_REPO=wt, VERIF_ROOT=root), timeout=3600)
            keys = re.findall(r'^\s+key=(\S+) count=(\d+)', o, re.M)
            out['checks'][c] = {'exit': rc, 'violation_keys': [f'{k} x{n}' for k, n in keys], 'wall_s': round(time.time() - t0, 1)}
            shutil.rmtree(root, ignore_errors=True)
    finally:
        sh(f'git -C /repo worktree remove --force {wt}')
        shutil.rmtree(wt, ignore_errors=True)
    return out

if __name__ == '__main__':
    src = sys.argv[1]
    extra = sys.argv[2:]  # extra checks to run for every mutant
    dirs = sorted(os.path.join(src, x) for x in os.listdir(src) if re.match(r'C\d\d-[A-Z]$', x)) if os.path.isdir(src) and not os.path.exists(os.path.join(src, 'patch.diff')) else [src]
    results = []
    for d in dirs:
        name = os.path.basename(d.rstrip('/'))
        prop = name.split('-')[0]
        r = verify(d, [prop] + [c for c in extra if c != prop])
        results.append(r)
        dst = os.path.join('/verif/seeded', name)
        os.makedirs(dst, exist_ok=True)
        if 'patch' in r:
            open(os.path.join(dst, 'patch.diff'), 'w').write(r.pop('patch'))
        shutil.copy(os.path.join(d, 'demo_test.go'), os.path.join(dst, 'demo_test.go'))
        if os.path.exists(os.path.join(d, 'NOTES.md')):
            shutil.copy(os.path.join(d, 'NOTES.md'), os.path.join(dst, 'NOTES.md'))
        json.dump(r, open(os.path.join(dst, 'meta.json'), 'w'), indent=1)
        print(name, r.get('error') or (r.get('suite_with_patch'), r.get('demo_with_patch'), r.get('demo_without_patch'), {k: (v['exit'], v['violation_keys'][:2]) for k, v in r.get('checks', {}).items()}), flush=True)
