#!/usr/bin/env python3
"""Adds the descriptive fields to the meta.json of the tenth-round seeded changes (run after seedverify.py)."""
import json, os
NEEDS = {
 "C01-S": "source = composite whose sub-root name recurs as a top-level directory inside it, holding a hard-link group",
 "C01-T": "dirty destination file of the same size with a modification time on the second, source mtime in that second",
 "C02-S": "directory with a sibling named like it plus a byte below '/', the last entries inside the directory removed between syncs",
 "C02-T": "zero-length regular file whose identity changes (or a source that reports size 0 for a file with content)",
 "C05-S": "non-directory whose modification time is exactly the epoch, synced twice",
 "C05-T": "plain receive from a source that has a top-level .fsutil-metadata, synced twice",
 "C09-S": "tree ten directories deep; stream corrupted in the parent of the first depth-10 directory (validator's table reallocated)",
 "C09-T": "xattr on a symlink, fifo or device (trusted.* / security.*)",
 "C10-S": "follow list present but empty together with include patterns (empty result read as 'reached the root')",
 "C10-T": "root \".\" in a process whose $PWD reaches the working directory through a symlink",
 "C11-S": "view rooted at the root of the file system (NewFS(\"/\")) with a filter on top",
 "C11-T": "destination path with a symlinked ancestor (last component a real directory) and a stream that contains a hard link",
 "C14-S": "source argument with a trailing separator whose last component is a symlink to an outside directory",
 "C14-T": "a link to outside appearing at the path of the second entry of a directory the copy has just created",
 "C15-S": "empty regular file in the destination where the source has a symlink, a fifo or the second name of a linked file",
 "C15-T": "patterns that create parents on demand + a destination symlink to a directory at such a parent's path",
 "C16-S": "two sibling directories of which the first name is a string prefix of the second, first unselected, something below the second selected",
 "C16-T": "include patterns of two or more components without ** and a destination below the root",
 "C17-S": "entry whose modification time is before 1970",
 "C17-T": "directory handed to NewFS through a symlink",
 "C20-S": "Stat.Marshal of a stat whose name is not valid UTF-8",
 "C20-T": "long uninterrupted run of small frames (about 8000), or a few frames just below the pooled buffer size",
}
for name, needs in NEEDS.items():
    p = f"/verif/seeded/{name}/meta.json"
    if not os.path.exists(p):
        print("missing", name); continue
    m = json.load(open(p))
    m.update({"breaks_property": name.split('-')[0], "needs_to_manifest": needs, "round": 10,
      "what_was_run": ["worktree of /repo HEAD under /tmp, patch applied",
        "go build ./... && go test -vet=off -count=1 ./...  with the patch: must pass",
        m.get("demo_cmd", "") + "  with the patch: must fail; without it: must pass",
        "VERIF_REPO=<worktree> /verif/run.sh check <property> quick"],
      "origin": "written by an independent sub-agent that saw only the property text, one-line descriptions of the eighteen earlier changes and the functions they edit for that property, and its own worktree"})
    json.dump(m, open(p, "w"), indent=1)
    c = m.get("checks", {}).get(m["property"], {})
    print(name, m.get("suite_with_patch"), m.get("demo_with_patch"), m.get("demo_without_patch"), c.get("exit"), c.get("violation_keys"))
