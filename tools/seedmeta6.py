#!/usr/bin/env python3
"""Adds the descriptive fields to the meta.json of the sixth-round seeded changes (run after seedverify.py)."""
import json, os
NEEDS = {
 "C01-K": "dirty destination holding a hard-link pair with equal mtime (link entries report size 0): content of another size, or leftovers of an aborted run",
 "C01-L": "destination entry named .tmp.* that the source lacks (leftover of a failed run, or dropped from the source)",
 "C02-K": "metadata-only selector selecting a directory and an entry beneath it, synced twice (weakened fix 522d89c)",
 "C02-L": "a directory and name-prefixed neighbours (build, build.log, builds/) deleted from the source together",
 "C03-K": "destination with two consecutive directories: the first omitted, the second replaced by a link to an outside directory with same-named children",
 "C03-L": "destination regular file that is a second name of a file outside the destination, replaced by the peer (in-place rewrite)",
 "C04-K": "stream torn down by cancelling its own context (calls fail with context.Canceled) while the sender idles before FIN",
 "C04-L": "destination with more than ~129 entries not yet consumed by the differ when the differ stops",
 "C05-K": "old destination holds two names of one inode; the new source replaced one name editor-style (in-place rewrite of the shared inode)",
 "C05-L": "last 32 KiB chunk of a file all zeros (skipped as a hole, file not extended)",
 "C06-K": "entry announced as a regular file that cannot be opened (a unix socket)",
 "C06-L": "root-level entry named .fsutil-metadata in the sender's view",
 "C07-K": "transport that decodes every message out of one re-used read buffer (STAT strings alias it)",
 "C07-L": "prior destination whose file differs from the announced one in exactly one of size and mtime",
 "C08-K": "a fault while another goroutine of the same end is inside SendMsg (ERR sent without the lock)",
 "C08-L": "prior destination directory that the source lacks while the destination walker is still inside it",
 "C09-K": "entry whose first root-relative component begins with two dots (..data)",
 "C09-L": "composite with >=2 sub-roots whose consumer answers SkipDir for a sub-root that is not the last",
 "C10-K": "exclude list with a trailing-glob exception whose stem is an excluded directory ([a, !a/b/*])",
 "C10-L": "filter over a composite pruning a sub-root that is not the last (flag never reset)",
 "C11-K": "FollowPaths present but empty together with include patterns",
 "C11-L": "two plain-path exceptions in different sub-directories of an excluded directory",
 "C12-K": "second directory at a depth whose first child sorts not after the last child of the earlier one",
 "C12-L": "the path . as first element, or after a top-level name sorting below it",
 "C13-K": "block device with non-zero numbers",
 "C13-L": "symlink, fifo or device carrying a trusted.* xattr",
 "C14-K": "destination argument with an intermediate symlink to outside followed by a not-yet-existing sub-directory",
 "C14-L": "source symlink that itself carries an xattr and points to an existing outside file",
 "C15-K": "patterns leave out a nested source file; the destination holds an entry at that path",
 "C15-L": "top-level symlink (no follow) or fifo source copied into an existing directory",
 "C16-K": "include pattern of the shape X/*/** (port of the pre-f5a7925 pruning into the copier)",
 "C16-L": "pattern or exception spelled with a leading separator or leading ..",
 "C17-K": "composite with two sub-roots where one name is a string prefix of the other",
 "C17-L": "two directories sharing a base name under different parents",
 "C18-K": "follow-path component that is only a bracket class and matches symlinks",
 "C18-L": "wildcard in a middle component that matches a symlink",
 "C19-K": "empty unselected directory directly followed by a sibling, then a selected entry",
 "C19-L": "selected directory plus a later selected entry below it (weakened fix 522d89c)",
 "C20-K": "stream that ends inside the body of a packet larger than the pooled buffer, at a field boundary",
 "C20-L": "one Packet object sent, changed and sent again",
}
for name, needs in NEEDS.items():
    p = f"/verif/seeded/{name}/meta.json"
    if not os.path.exists(p):
        print("missing", name); continue
    m = json.load(open(p))
    m.update({"breaks_property": name.split('-')[0], "needs_to_manifest": needs, "round": 6,
      "what_was_run": ["worktree of /repo HEAD under /tmp, patch applied",
        "go build ./... && go test -vet=off -count=1 ./...  with the patch: must pass",
        m.get("demo_cmd", "") + "  with the patch: must fail; without it: must pass",
        "VERIF_REPO=<worktree> /verif/run.sh check <property> quick"],
      "origin": "written by an independent sub-agent that saw only the property text, one-line descriptions of the ten earlier changes for that property, and its own worktree"})
    json.dump(m, open(p, "w"), indent=1)
    c = m.get("checks", {}).get(m["property"], {})
    print(name, m.get("suite_with_patch"), m.get("demo_with_patch"), m.get("demo_without_patch"), c.get("exit"), c.get("violation_keys"))
