#!/usr/bin/env python3
"""Adds the descriptive fields to the meta.json of the eleventh-round seeded changes (run after seedverify.py)."""
import json, os
NEEDS = {
 "C03-U": "a STAT whose path is exactly '..' (the two refusals folded into one: filepath.Dir(\"..\") is \".\")",
 "C03-V": "destination holding a link to a sibling directory whose path has the destination's path as a string prefix (dest -> dest2), a selector or filter that leaves the link alone, and a hard link to something below it",
 "C04-U": "more than 132 outstanding requests on a slow stream, then stream teardown (queue hand-off no longer selects on the context)",
 "C04-V": "clean end of stream on the sender's receive side after the walk and before FIN (a killed receiver)",
 "C06-U": "a receiver that requests the same id twice",
 "C06-V": "a request for id n handled before the walker returns from the SendMsg that carries STAT n",
 "C07-U": "DATA for an id dispatched by the read loop while the writer goroutine is still inside SendMsg(REQ)",
 "C07-V": "regular file announced with size 0 (prior non-empty copy, or a sender that supplies bytes anyway)",
 "C08-U": "an error packet sent by the walker/differ while a worker is inside SendMsg",
 "C08-V": "same edit as C07-U: pipe registered after the REQ went out",
 "C12-U": "a stream containing the literal path '.'",
 "C12-V": "stepping back to a shallower level through a file or delete entry, then a path inside a directory already closed",
 "C13-U": "symbolic mode with X and a source directory without any execute bit",
 "C13-V": "regular file carrying security.capability (chown after the xattr copy strips it)",
 "C18-U": "kept ancestor, a sibling sorting between it and its children, and a resolved path two or more levels below it",
 "C18-V": "wildcard request matching an entry whose own name contains glob characters",
 "C19-U": "source containing an entry named .fsutil-metadata followed by a selected regular file",
 "C19-V": "a single stat that marshals to more than a 32KiB chunk after ordinary entries in a partly filled chunk",
}
for name, needs in NEEDS.items():
    p = f"/verif/seeded/{name}/meta.json"
    if not os.path.exists(p):
        print("missing", name); continue
    m = json.load(open(p))
    m.update({"breaks_property": name.split('-')[0], "needs_to_manifest": needs, "round": 11,
      "what_was_run": ["worktree of /repo HEAD under /tmp, patch applied",
        "go build ./... && go test -vet=off -count=1 ./...  with the patch: must pass",
        m.get("demo_cmd", "") + "  with the patch: must fail; without it: must pass",
        "VERIF_REPO=<worktree> /verif/run.sh check <property> quick"],
      "origin": "written by an independent sub-agent that saw only the property text (title, statement, quantifier) and its own worktree"})
    if name == "C03-V":
        m["missed_as_delivered"] = "C03 quick exited 0: every outside target of the prior destinations lived under /outside, none under a path that begins with the destination's path; the sandbox now has p1/p2/dest2 and the prior a-symlink-sibling"
    json.dump(m, open(p, "w"), indent=1)
    c = m.get("checks", {}).get(m["property"], {})
    print(name, c.get("exit"), c.get("violation_keys", [])[:2])
