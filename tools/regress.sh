#!/bin/bash
# usage: regress.sh [jobs] [id-glob]  - re-run every recorded seeded change against the quick check of its property
# (scratch worktrees under /tmp, removed after each run); prints "<id> rc=<exit>" - every line must say rc=1
jobs="${1:-3}"; glob="${2:-*}"
ls -d /verif/seeded/$glob/ | xargs -P "$jobs" -I{} bash -c '
  d={}; n=$(basename $d); p=${n%-*}
  # a change that is detected by the check of a neighbouring property says so in its meta.json
  q=$(python3 -c "import json,sys; print(json.load(open(sys.argv[1])).get(\"detected_by_neighbouring_check\",\"\"))" ${d}meta.json 2>/dev/null); [ -n "$q" ] && p=$q
  out=$(nice -n 5 /verif/tools/mutant.sh ${d}patch.diff $p quick 2>&1 | tail -3)
  rc=$(echo "$out" | grep -o "mutant exit=[0-9]*" | cut -d= -f2)
  echo "$n rc=$rc $(echo "$out" | grep -c "DOES NOT APPLY")"'
