#!/usr/bin/env python3
# sizes.py [evidence-dir]  - the table of DESIGN.md 4.1 from the evidence files of one sweep
import json, sys, glob, os

d = sys.argv[1] if len(sys.argv) > 1 else os.path.join(os.path.dirname(__file__), "..", "evidence")
print("| id | evaluations | distinct states | transitions / steps | exhaustive within bounds | wall (%s) |" % "tier")
print("|---|---|---|---|---|---|")
tot = 0.0
for f in sorted(glob.glob(os.path.join(d, "C*.json"))):
    e = json.load(open(f))
    c = e["coverage"]
    tot += e["wall_s"]
    print("| %s | %s | %s | %s | %s | %d s (%s) |" % (e["property_id"], format(c.get("evaluations", 0), ","), format(c.get("states", 0), ","),
          format(c.get("transitions", 0), ","), c.get("exhaustive"), round(e["wall_s"]), e["tier"]))
print("total wall %.0f s, violations %d" % (tot, sum(json.load(open(f))["violations"] for f in glob.glob(os.path.join(d, "C*.json")))))
