#!/bin/bash
# usage: mutant.sh <patch.diff> <Cnn> [tier] [--suite]
# Applies a patch to a scratch worktree of /repo (outside /repo and /verif), optionally runs the
# repository's own suite there, runs one check against it via VERIF_REPO, and removes the worktree.
set -u
patch="$1"; id="$2"; tier="${3:-quick}"; suite="${4:-}"
wt=$(mktemp -d /tmp/mutwt.XXXXXX); rmdir "$wt"
git -C /repo worktree add -q --detach "$wt" HEAD || exit 3
trap 'git -C /repo worktree remove --force "$wt" 2>/dev/null; rm -rf "$wt"' EXIT
if ! git -C "$wt" apply "$patch" 2>/dev/null; then
  # a later fix: commit touched the same lines: merge
  if ! git -C "$wt" apply --3way "$patch" 2>/dev/null || git -C "$wt" diff --name-only --diff-filter=U | grep -q .; then echo "PATCH DOES NOT APPLY"; exit 3; fi
  git -C "$wt" reset -q
fi
export GOFLAGS=-mod=mod GOPROXY=off GOSUMDB=off GOTOOLCHAIN=local
if [ "$suite" = "--suite" ]; then
  (cd "$wt" && go build ./... && go test -vet=off -count=1 ./... 2>&1 | grep -v "no test files" | tail -5) || echo "SUITE FAILED"
fi
mkdir -p /tmp/mutroot.$$; cp /verif/known_findings.json /tmp/mutroot.$$/ 2>/dev/null
VERIF_REPO="$wt" VERIF_ROOT=/tmp/mutroot.$$ /verif/run.sh check "$id" "$tier" 2>&1 | grep -v "^ok" | tail -12
rc=${PIPESTATUS[0]}
rm -rf /tmp/mutroot.$$
echo "mutant exit=$rc"
exit $rc
