#!/usr/bin/env python3
"""Adds the descriptive fields to the meta.json of the fifth-round seeded changes (run after seedverify.py)."""
import json, os
NEEDS = {
 "C01-I": "Lchown skipped when the requested ids equal the receiver's: set-gid directory of a foreign group (children inherit it) / stale foreign owner on a directory present on both sides",
 "C01-J": "ReceiveOpt.Differ=DiffNone with a dirty, non-merge destination holding entries the source lacks",
 "C02-I": "hard-link grouping changes between two syncs while size, mtime, mode and owner stay the same",
 "C02-J": "entry owned by the receiver's own ids inside a set-gid directory of a foreign group, synced twice",
 "C03-I": "STAT with a type bit the disk writer treats as neither dir, symlink, device nor fifo (socket/irregular/bare char) carrying an escaping link name",
 "C03-J": "DATA for the id of an announced entry that is never requested (directory, symlink, link)",
 "C04-I": "more than 132 REQs outstanding, workers exit with a read error, caller's context never cancelled",
 "C04-J": "aborted run leaves link source partial and a later name already linked to it; recovery transfer",
 "C05-I": "old destination has a symlink to a directory where the new source has a real directory with children",
 "C05-J": "Merge + NotifyHashed into a destination holding a directory whose mode differs",
 "C06-I": "request for id 0 after a request for a non-zero id over a marshalling stream",
 "C06-J": "the call fails in the request loop while a worker is still mid-file (progress after the final call)",
 "C07-I": "STAT sequence containing a hard link",
 "C07-J": "stream ends after the end-of-stats marker but before the FIN exchange",
 "C08-I": "user callback (NotifyHashed/Filter/ContentHasher) fails while the read loop waits in RecvMsg",
 "C08-J": "GOMAXPROCS=1 (zero send workers)",
 "C09-I": "hard-link group whose inode carries xattrs: later names",
 "C09-J": "composite sub-root named N whose tree has a top-level directory N holding the first name of a hard-link group",
 "C10-I": "wildcard-free pattern with a backslash escape in a non-final component and a directory name containing that character",
 "C10-J": "Map drops a pattern-kept entry whose held-back ancestors have no other surviving descendant",
 "C11-I": "one FilterOpt with include (or follow) and exclude patterns; Open of a path that is included and excluded",
 "C11-J": "filter on top of a SubDirFS with >=2 sub-roots pruning a sub-root that is not the last",
 "C12-I": "entry below a never-sent directory whose name extends the name of the directory open at that depth",
 "C12-J": "path component that is not valid UTF-8",
 "C13-I": "WithChown and a symlink resolving (at creation time) to an entry that already has the wanted owner",
 "C13-J": "Utime + wildcards with >=2 matches + dir-contents + destination to be created + directory match followed by a non-directory match",
 "C14-I": "source argument that still starts with .. after cleaning, existing destination directory, dir-contents off",
 "C14-J": "patterns create a parent on demand that is a symlink to an outside directory holding a same-named non-directory; always-replace off",
 "C15-I": "always-replace + patterns leaving out a nested source directory + destination non-directory at that path",
 "C15-J": "FollowLinks with a symlinked last source component whose target has another base name, existing destination directory",
 "C16-I": "patterns passed one per option with a repeated pattern and an exception in between",
 "C16-J": "on-demand ancestor whose xattrs differ from those of the selected descendant",
 "C17-I": "symlink carrying an xattr, or a later name of a hard-link group whose inode has xattrs",
 "C17-J": "block-device node with non-zero numbers",
 "C18-I": "top-level symlink whose relative target starts with ..",
 "C18-J": "two result paths P<c>... and P/... with <c> sorting below '/'",
 "C19-I": "selector (a FilterFunc) that modifies the stat it is handed",
 "C19-J": "unselected x, selected x/a, unselected x/m, then x/n with selected x/n/f",
 "C20-I": "a stream that fails inside a packet body, then two healthy streams whose receives overlap",
 "C20-J": "Stat with negative Size or ModTime (10-byte varints)",
}
for name, needs in NEEDS.items():
    p = f"/verif/seeded/{name}/meta.json"
    if not os.path.exists(p):
        print("missing", name); continue
    m = json.load(open(p))
    m.update({"breaks_property": name.split('-')[0], "needs_to_manifest": needs, "round": 5,
      "what_was_run": ["worktree of /repo HEAD under /tmp, patch applied",
        "go build ./... && go test -vet=off -count=1 ./...  with the patch: must pass",
        m.get("demo_cmd", "") + "  with the patch: must fail; without it: must pass",
        "VERIF_REPO=<worktree> /verif/run.sh check <property> quick"],
      "origin": "written by an independent sub-agent that saw only the property text, one-line descriptions of the eight earlier changes for that property, and its own worktree"})
    json.dump(m, open(p, "w"), indent=1)
    c = m.get("checks", {}).get(m["property"], {})
    print(name, m.get("suite_with_patch"), m.get("demo_with_patch"), m.get("demo_without_patch"), c.get("exit"), c.get("violation_keys"))
