#!/usr/bin/env python3
"""Adds the descriptive fields to the meta.json of the fourth-round seeded changes (run after seedverify.py)."""
import json, os
NEEDS = {
 "C01-G": "on-disk source with a symlink inode that has a second name (hard link to the symlink itself)",
 "C01-H": "destination already holds directory D; the source has a new non-empty directory below D",
 "C02-G": "receiver-side Filter that is not idempotent (uid += 1000), then a re-sync of the unchanged source",
 "C02-H": "ordinary transfer whose source has a top-level entry named .fsutil-metadata, synced twice",
 "C03-G": "destination holds a symlink at path a; peer sends a regular entry a whose link name is its own path",
 "C03-H": "destination holds symlink cache->outside; peer sends cache as a directory mimicking the symlink's size, mtime, owner and link name, then children",
 "C04-G": "Receive's context cancelled during the content phase while the stream keeps working",
 "C04-H": "a SendMsg on the user's stream fails and the same endpoint writes once more (ERR) afterwards",
 "C05-G": "MetadataOnly + NotifyHashed and two selected files sharing a non-top-level ancestor",
 "C05-H": "the sender streams fewer bytes than its STAT announced (file shrank or vanished between listing and reading)",
 "C06-G": "more than 132 requests outstanding while the receiver is slow to take DATA",
 "C06-H": "source reader that returns its last bytes together with io.EOF",
 "C07-G": "STAT size larger than the DATA bytes sent for the id",
 "C07-H": "needed regular file whose STAT says size 0",
 "C08-G": "transport that reuses its receive buffer after RecvMsg returns (DATA decoded zero-copy)",
 "C08-H": "more than 128+259 STATs ahead of the final DATA of the first 128 files (writer limit blocks the differ)",
 "C09-G": "Info() asked twice on the first name of a hard-link group (unfiltered NewFS walk)",
 "C09-H": "symlink inode with two names under the walked root",
 "C10-G": "FollowPaths together with an include list containing a negation written after the pattern it overlaps",
 "C10-H": "wildcard-free positive exclude patterns plus a '!' exception with a wildcard in a non-final component",
 "C11-G": "include pattern selecting a directory through ** with files several levels below it (Open vs Walk)",
 "C11-H": "FollowPaths + include patterns containing a '!' exception (merged list sorted)",
 "C12-G": "top-level directory whose first byte sorts before '.' (-a, +x), then an entry below it or a later top-level entry",
 "C12-H": "ChangeKindModify carrying a directory, followed by an entry below it",
 "C13-G": "regular file with file capabilities and a second name inside the copied tree",
 "C13-H": "AllowWildcards with a pattern of three or more components and a match below a directory whose own name does not match the first component",
 "C14-G": "regular source file whose destination counterpart is a dangling symlink into an existing outside directory",
 "C14-H": "two wildcard matches merged into one destination directory: the first plants a link to an outside file, the second brings a regular file at the same path",
 "C15-G": "destination ending in a separator that does not exist yet",
 "C15-H": "destination ending in a separator that exists as a non-directory",
 "C16-G": "unselected directory on the way to a selected file, an exclude below it and a later '!' exception naming an ancestor",
 "C16-H": "include pattern with a backslash escape in a non-final component and no unescaped metacharacter",
 "C17-G": "view built with SubDirFS whose mounted tree contains a hard-link group",
 "C17-H": "symlink inode with two names (hard link to the symlink itself)",
 "C18-G": "wildcard follow-path matching a dot-named symlink",
 "C18-H": "FollowPaths + wildcard-free include patterns with an exception; followed target nested under an unmatched top-level directory",
 "C19-G": "nested selection under an unselected ancestor, a further directory STAT after the replay, consumer slower than the receive loop",
 "C19-H": "source with zero recordable entries (empty tree, or only the listing name); with Merge a stale listing survives",
 "C20-G": "DATA field announced with a 9-byte length varint just below 2^63",
 "C20-H": "generic and hand-optimised codec on different sides and a Stat with non-zero device numbers",
}
for name, needs in NEEDS.items():
    p = f"/verif/seeded/{name}/meta.json"
    if not os.path.exists(p):
        print("missing", name); continue
    m = json.load(open(p))
    m.update({"breaks_property": name.split('-')[0], "needs_to_manifest": needs, "round": 4,
      "what_was_run": ["worktree of /repo HEAD under /tmp, patch applied",
        "go build ./... && go test -vet=off -count=1 ./...  with the patch: must pass",
        m.get("demo_cmd", "") + "  with the patch: must fail; without it: must pass",
        "VERIF_REPO=<worktree> /verif/run.sh check <property> quick"],
      "origin": "written by an independent sub-agent that saw only the property text, one-line descriptions of the six earlier changes for that property, and its own worktree"})
    json.dump(m, open(p, "w"), indent=1)
    c = m.get("checks", {}).get(m["property"], {})
    print(name, m.get("suite_with_patch"), m.get("demo_with_patch"), m.get("demo_without_patch"), c.get("exit"), c.get("violation_keys"))
