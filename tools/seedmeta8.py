#!/usr/bin/env python3
"""Adds the descriptive fields to the meta.json of the eighth-round seeded changes (run after seedverify.py)."""
import json, os
NEEDS = {
 "C01-O": "destination entry equal to the source in everything but a set-uid/set-gid/sticky bit",
 "C01-P": "on-disk source with a non-empty file whose name (or a parent's) is not valid UTF-8",
 "C02-O": "xattr-only change between syncs (xattrs compared as if they were identity), or a destination whose new entries inherit xattrs",
 "C02-P": "device node with a minor number of 256 or more, synced twice",
 "C03-O": "merge + metadata-only selector selecting a directory and an entry below it + a link to outside at the directory's path",
 "C03-P": "destination path that does not resolve (missing, or a link whose target is gone)",
 "C04-O": "abort while the receiver sits in its final content wait (helper goroutine of DiskWriter.Wait never read)",
 "C04-P": "two files in flight, a callback error on one, the end marker of the other arriving afterwards",
 "C05-O": "three syncs: child of an existing directory edited, then nothing edited (directory mtime compared)",
 "C05-P": "receiver Filter that edits the xattr map in place + change callback with a hasher that covers xattrs",
 "C06-O": "file size = 32704 (mod 32768): a chunk of exactly the split size is followed by an empty DATA",
 "C06-P": "named pipe in the view and a request for its id",
 "C07-O": "first receive of a freshly started process into a destination holding .tmp.000000001-style leftovers next to an entry that is replaced",
 "C07-P": "top-level entry whose name begins with two dots (..data)",
 "C08-O": "two files requested at once (receiver end without its send lock)",
 "C08-P": "a content file followed later by directories the receiver creates (map read by writers, written by the differ): data race",
 "C09-O": "composite whose sub-root names are a name and that name plus a byte below '/' (app, app-data)",
 "C09-P": "device node with a minor number of 256 or more",
 "C10-O": "Map answering SkipDir for a file that has later siblings, over the on-disk walker",
 "C10-P": "hard-linked file whose first name is dropped by patterns while its directory is walked (not pruned)",
 "C11-O": "inode with three or more visible names",
 "C11-P": "three sub-roots handed to SubDirFS in a rotated order",
 "C12-O": "dot-free path ending in a separator (a/), or the empty path",
 "C12-P": "the bare path .. as first element",
 "C13-O": "sub-directory copied to a destination name that does not exist yet",
 "C13-P": "Utime option + a symlink among the copied entries",
 "C14-O": "three wildcard matches merged: hard-link names in the first and last, a link to outside in between, equal modification times",
 "C14-P": "a link to an outside directory appearing at a level of the destination argument while its parents are being created",
 "C15-O": "nested destination entry that is a dangling symlink (or a link to a directory) where the source has a file",
 "C15-P": "wildcard source of three or more components whose first wildcard component is selective (svc-*/config/*.yaml)",
 "C16-O": "include list made only of exceptions ([!*.md])",
 "C16-P": "destination holding a link to a directory at the path of an unselected ancestor of a selected entry",
 "C17-O": "top-level name beginning with two dots with a non-empty file at or below it",
 "C17-P": "include pattern with ** that selects a directory at the root or two or more levels down (Open vs Walk)",
 "C18-O": "follow path with a wildcard in a non-final component that matches ordinary directories",
 "C18-P": "follow path covered by an include pattern, with a link on it that leads outside every include pattern",
 "C19-O": "re-used destination holding stale entries named .tmp.*",
 "C19-P": "destination holding a hard-link group of which the source has split one member (file rewritten in place)",
 "C20-O": "Stat with two or more xattrs through the non-strict encoder",
 "C20-P": "frames with unknown fields read into one packet object that is reset before each read",
}
for name, needs in NEEDS.items():
    p = f"/verif/seeded/{name}/meta.json"
    if not os.path.exists(p):
        print("missing", name); continue
    m = json.load(open(p))
    m.update({"breaks_property": name.split('-')[0], "needs_to_manifest": needs, "round": 8,
      "what_was_run": ["worktree of /repo HEAD under /tmp, patch applied",
        "go build ./... && go test -vet=off -count=1 ./...  with the patch: must pass",
        m.get("demo_cmd", "") + "  with the patch: must fail; without it: must pass",
        "VERIF_REPO=<worktree> /verif/run.sh check <property> quick"],
      "origin": "written by an independent sub-agent that saw only the property text, one-line descriptions of the fourteen earlier changes and the functions they edit for that property, and its own worktree"})
    json.dump(m, open(p, "w"), indent=1)
    c = m.get("checks", {}).get(m["property"], {})
    print(name, m.get("suite_with_patch"), m.get("demo_with_patch"), m.get("demo_without_patch"), c.get("exit"), c.get("violation_keys"))
