#!/usr/bin/env python3
"""Adds the descriptive fields to the meta.json of the third-round seeded changes (run after seedverify.py)."""
import json, os
NEEDS = {
 "C01-E": "interleaving: worker 2 reads into the shared copy buffer between worker 1's Read and the encoding of worker 1's chunk",
 "C01-F": "dirty destination holding T, source with a later hard link L to T, and HandleChange(L) running before T's async data arrived",
 "C02-E": "hard-link group whose first member is dropped after stat (Map exclude / stacked filters) and the tree synchronised twice",
 "C02-F": "ReceiveOpt.Differ=DiffNone, destination from an earlier transfer, and an entry deleted from the source in between",
 "C03-E": "valid directory chain of nesting depth exactly 10 (20, 40): validator stack reallocates and forgets the last name of the parent level",
 "C03-F": "destination already holds a symlink chain: first hop inside dest, second hop outside; stream sends that path as a directory plus a child",
 "C04-E": "receiver goes away cleanly (EOF) after the sender's walk and all DATA are done but before FIN",
 "C04-F": "source Read returning (0, err) in the middle or at the start of a requested file",
 "C05-E": "stream failure while a multi-chunk file is half received: pipes closed on loop exit complete the aborted file and it is notified",
 "C05-F": "destination directory contains a file literally named .tmp.<n> where n is the ordinal of a replaced entry",
 "C06-E": "interleaving of two send workers sharing one copy buffer while a chunk waits for the stream lock",
 "C06-F": "read error after k>=0 bytes of a requested file: terminator still emitted from a defer",
 "C07-E": "sender that reads no REQ while announcing (sequential) over a stream with little buffering, >=2 needed files",
 "C07-F": "last DATA chunk(s) of an id >=4096 bytes and all zero (content x chunk size)",
 "C08-E": "REQ for id N handled by the sender's receive loop before the walker registered N (walker descheduled after SendMsg(STAT N))",
 "C08-F": "progress callback invoked outside the lock: two of {walker, 4 workers} report at overlapping times",
 "C09-E": "two walks of the SAME FS value overlapping in time on a tree with a hard-link group (inode table hoisted into the value)",
 "C09-F": "a consumer (FilterOpt.Map, nested SubDirFS) rewrites the sub-root stat it is handed, then the composite is walked again",
 "C10-E": "a filtered FS walked once, then two further walks of the same value overlapping (directory stack kept on the value)",
 "C10-F": "include list of shape [P, !P/q, P/q/.../r]: covering literal prefix, negated sub-directory, deeper positive pattern",
 "C11-E": "view wrapped once with the exported WithHardlinkReset and that value used for a second walk/transfer",
 "C11-F": "REQ overtakes the sender's id registration (same window as C08-E), with a filtered view",
 "C12-E": "a/.. or a/. after a and an earlier child of a sorting below '.'",
 "C12-F": "top-level directory whose name merely begins with '..' (..data) followed by an entry below it",
 "C13-E": "AllowWildcards with >=2 matches and a hard-link group whose members are reached through different matches",
 "C13-F": "tolerant XAttrErrorHandler, one LSetxattr failure for name K, and later entries carrying a storable value under the same K",
 "C14-E": "source directory whose destination counterpart is a relative/2-hop symlink leaving the root, always-replace off",
 "C14-F": "wildcard src whose matched-in directory is a symlink to outside the source root, follow-links off",
 "C15-E": "always-replace and a source symlink/fifo/device whose destination path already holds an entry of the same kind",
 "C15-F": "dir-contents + always-replace + top-level source directory whose destination path is an existing non-directory",
 "C16-E": "two not-selected directory chains with selected descendants in one walk (pending-parents counter goes negative)",
 "C16-F": "hard-linked pair whose first name (walk order) is filtered out and a later name is selected",
 "C17-E": "two WriteTar calls running concurrently (package-level copy buffer)",
 "C17-F": "hard-link group whose first name was stat'ed below but dropped by Map from the exported view",
 "C18-E": "on-disk FS (NewFS) and a resolution step below a non-directory (ENOTDIR instead of ENOENT)",
 "C18-F": "more than 40 symlinks followed in one FollowLinks call summed over requests / wildcard matches",
 "C19-E": "metadata-only + hard link whose STAT is read after the content of its link source was requested (interleaving)",
 "C19-F": "a metadata-only receive that fails after buffering records, then a healthy one in the same process (pooled buffer)",
 "C20-E": "one proto stream used full duplex: SendMsg while RecvMsg waits for the rest of a fragmented packet body",
 "C20-F": "Stat with an empty-valued xattr encoded through the non-strict encoder path (MarshalVT/MarshalTo)",
}
for name, needs in NEEDS.items():
    p = f"/verif/seeded/{name}/meta.json"
    if not os.path.exists(p):
        print("missing", name); continue
    m = json.load(open(p))
    m.update({"breaks_property": name.split('-')[0], "needs_to_manifest": needs, "round": 3,
      "what_was_run": ["worktree of /repo HEAD under /tmp, patch applied",
        "go build ./... && go test -vet=off -count=1 ./...  with the patch: must pass",
        m.get("demo_cmd", "") + "  with the patch: must fail; without it: must pass",
        "VERIF_REPO=<worktree> /verif/run.sh check <property> quick"],
      "origin": "written by an independent sub-agent that saw only the property text, one-line descriptions of the earlier changes for that property, and its own worktree"})
    json.dump(m, open(p, "w"), indent=1)
    c = m.get("checks", {}).get(m["property"], {})
    print(name, m.get("suite_with_patch"), m.get("demo_with_patch"), m.get("demo_without_patch"), c.get("exit"), c.get("violation_keys"))
