#!/usr/bin/env python3
"""Regenerates MANIFEST.json from tools/checks.json (one entry per claimed property)."""
import json, os, sys
here = os.path.dirname(os.path.dirname(os.path.abspath(__file__)))
spec = json.load(open(os.path.join(here, 'tools', 'checks.json')))
props = [json.loads(l)['id'] for l in open(os.path.join(here, 'properties.jsonl'))]
checks = []
for pid in props:
    c = spec['checks'].get(pid)
    if not c:
        continue
    checks.append({
        "property_id": pid,
        "quick_cmd": "./run.sh check %s quick" % pid,
        "thorough_cmd": "./run.sh check %s thorough" % pid,
        "evidence_file": "/verif/evidence/%s.json" % pid,
        "replay_cmd_template": "./run.sh replay {path}",
        "engine": c["engine"],
        "level_claimed": {"category": "model_checking", "text": c["text"], "design_ref": c.get("design_ref", "DESIGN.md section 4, " + pid)},
        "level_note": c["note"],
        "technique": c["technique"],
    })
na = [{"property_id": p, "reason": spec['not_applicable'].get(p, "check not built yet in this round; planned, see DESIGN.md section 4")} for p in props if p not in spec['checks']]
m = {
    "version": 1,
    "setup_cmd": "./run.sh setup",
    "hooks": spec["hooks"],
    "engines": spec["engines"],
    "checks": checks,
    "notes": spec["notes"],
    "not_applicable": na,
}
json.dump(m, open(os.path.join(here, 'MANIFEST.json'), 'w'), indent=1)
print("checks:", len(checks), "not_applicable:", len(na))
