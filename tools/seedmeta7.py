#!/usr/bin/env python3
"""Adds the descriptive fields to the meta.json of the seventh-round seeded changes (run after seedverify.py)."""
import json, os
NEEDS = {
 "C01-M": "block or character device with a minor number of 256 or more",
 "C01-N": "dirty destination holding a hard-link pair of which the source changed or split one member (file rewritten in place)",
 "C02-M": "hard-linked group rewritten between syncs, the link entry handled before the first member's DATA arrived (rename deferred)",
 "C02-N": "destination handed to Receive as a symlink to the directory, synced twice",
 "C03-M": "STAT with the empty path as first entry (symlink or directory)",
 "C03-N": "destination directory replaced by a link to outside, followed by a sibling named like it plus a byte below '/' (a.b, a-)",
 "C04-M": "transfer over util.NewProtoStream whose transport fails every call with a transient/timeout error after teardown (expired deadline)",
 "C04-N": "run killed between creating a .tmp.N entry and renaming it; later fault-free recovery",
 "C05-M": "device node with a minor number above 255 (created with other numbers than reported)",
 "C05-N": "non-empty directory replaced by a symlink, fifo or device between syncs",
 "C06-M": "entry name or link target that is not valid UTF-8",
 "C06-N": "FIN handled by the sender while the walker's last SendMsg has not returned yet",
 "C07-M": "sender's FIN answer handled by the read loop before the statement after SendMsg(FIN) ran (send returns late)",
 "C07-N": "base name of 241 bytes or more at a path the destination already holds (temporary name too long)",
 "C08-M": "more than 512 entries and a content request arriving after 512 later entries were registered",
 "C08-N": "129 or more content requests with one worker stuck on its file (handle ring reused)",
 "C09-M": "xattr with an empty value",
 "C09-N": "second name of a file created while the walk is under way, in a directory not yet read",
 "C10-M": "prefix-only include list with a pattern not in shortest form (./a/b, a//b, a/../b)",
 "C10-N": "FilterOpt value changed or re-used by the caller after the view was built (Map read at walk time)",
 "C11-M": "FilterOpt re-used: include list with spare capacity + follow paths + nested patterns (caller's slice rewritten)",
 "C11-N": "hard-link group whose first name a filter hides (size 0 sticks to the re-rooted file)",
 "C12-M": "one-component absolute path (/a)",
 "C12-N": "name containing a backslash compared with a byte below it or with a separator",
 "C13-M": "regular file whose base name is 252 to 255 bytes long",
 "C13-N": "destination directory that is set-group-ID with a foreign group, source entries owned by the caller",
 "C14-M": "a link to an outside file appearing at the target path while on-demand parents are being created (Chown callback)",
 "C14-N": "Utime option + a copied symlink whose target exists outside the destination root",
 "C15-M": "source root (or the literal prefix before the first wildcard) whose own name contains [ or a backslash",
 "C15-N": "destination file with the same size and mtime as the source file but other bytes",
 "C16-M": "included directory, below it a directory removed by an exception and named by an exclude, below that a re-included entry",
 "C16-N": "include list that is non-empty but all blank ([\"\"], [\" \"])",
 "C17-M": "view whose Open returns readers that deliver short reads before EOF",
 "C17-N": "xattr with an empty value",
 "C18-M": "wildcard follow path + a directory entry whose own name contains *, ? or [",
 "C18-N": "FS whose Walk returns the not-exist error for a missing target (not NewFS) + a missing request or dangling link",
 "C19-M": "second metadata-only receive (merge) after the source lost its last entries (new listing is a prefix of the old)",
 "C19-N": "walk leaves two or more unselected directories in one step and lands on a selected entry",
 "C20-M": "reader answering one Read with a transient error after part of a frame was delivered",
 "C20-N": "xattr map entry with key or value left off the wire (as other encoders write defaults) after another entry",
}
for name, needs in NEEDS.items():
    p = f"/verif/seeded/{name}/meta.json"
    if not os.path.exists(p):
        print("missing", name); continue
    m = json.load(open(p))
    m.update({"breaks_property": name.split('-')[0], "needs_to_manifest": needs, "round": 7,
      "what_was_run": ["worktree of /repo HEAD under /tmp, patch applied",
        "go build ./... && go test -vet=off -count=1 ./...  with the patch: must pass",
        m.get("demo_cmd", "") + "  with the patch: must fail; without it: must pass",
        "VERIF_REPO=<worktree> /verif/run.sh check <property> quick"],
      "origin": "written by an independent sub-agent that saw only the property text, one-line descriptions of the twelve earlier changes for that property, and its own worktree"})
    json.dump(m, open(p, "w"), indent=1)
    c = m.get("checks", {}).get(m["property"], {})
    print(name, m.get("suite_with_patch"), m.get("demo_with_patch"), m.get("demo_without_patch"), c.get("exit"), c.get("violation_keys"))
