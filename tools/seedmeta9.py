#!/usr/bin/env python3
"""Adds the descriptive fields to the meta.json of the ninth-round seeded changes (run after seedverify.py)."""
import json, os
NEEDS = {
 "C01-Q": "source whose stat reports size 0 for a file that has content (synthetic FS, procfs, a file written after it was listed)",
 "C01-R": "on-disk source whose root path ends in a symlink to the directory",
 "C02-Q": "non-directory with a modification time before 1970 that has a sub-second part, synced twice",
 "C02-R": "hard-link group with content, synced twice (later names announced with size 0)",
 "C03-Q": "Differ = DiffNone + a destination directory with children that the stream replaces by a link to outside",
 "C03-R": "content for the id of an EMPTY file sent again after its request was served and the receiver sent FIN",
 "C05-Q": "source that streams more bytes than its stat announced (file appended to; size-0 stat)",
 "C05-R": "xattr removed from a source directory between syncs, then a sync with no edit",
 "C06-Q": "view = composite whose sub-root is a filter that drops (by Map) the first name of a hard-linked file",
 "C06-R": "regular file with a set-uid, set-gid or sticky bit, requested",
 "C07-Q": "two needed files whose requests overlap in time (receiver end without its send lock)",
 "C07-R": "fifo or device with two names (a special file announced with a link name)",
 "C08-Q": "more changed files than RLIMIT_NOFILE allows while the sender lags behind the differ",
 "C08-R": "read fault in a multi-chunk file at the moment it is the only outstanding request",
 "C09-Q": "context cancelled while the filtered walk is inside the lstat of an entry",
 "C09-R": "directory walked as \".\" (relative root) with a top-level name that begins with a dot",
 "C10-Q": "on-disk root whose last component is a symlink to the directory",
 "C10-R": "composite with sub-roots handed over out of name order",
 "C11-Q": "composite whose sub-root is a filtered view (Open handed a rooted path)",
 "C11-R": "destination from an earlier transfer in which the hard-link group was linked to another first name (filter changed since)",
 "C12-Q": "character device entry (two type bits in the Go mode)",
 "C12-R": "path of 256 bytes or more made of short components",
 "C13-Q": "source and destination on different file systems",
 "C13-R": "two copies from one source root in one process with a symlink on the copied path re-pointed in between",
 "C14-Q": "destination file that is a second name of a file outside the destination root, overwritten by a single-link source file",
 "C14-R": "destination holding a symlink to outside under the temporary name the copier derives from a copied file's name",
 "C15-Q": "wildcard source with matches whose names begin with a dot",
 "C15-R": "destination root handed over as a symlink to the directory, destination argument /",
 "C16-Q": "two copies in one process whose pattern lists are permutations of each other and contain an exception",
 "C16-R": "destination holding a hard-linked pair of which the filtered copy selects one name",
 "C17-Q": "include pattern selecting something two levels down + a Map that rewrites metadata (late-reported parents)",
 "C17-R": "file that vanishes (Open reports not-exist) between the walk's stat and the Open",
 "C18-Q": "wildcard follow path whose directory part begins with a dot-named component",
 "C18-R": "symlink with two names, both emitted by one walk of the on-disk tree",
 "C19-Q": "selected file announced with size 0 that has content",
 "C19-R": "re-used destination; file edited in place at the same length, old and new mtime in the same second, one of them on the second",
 "C20-Q": "a second stream (or other reader) continuing on the same underlying reader",
 "C20-R": "exported MarshalTo handed a scratch buffer longer than Size()",
}
for name, needs in NEEDS.items():
    p = f"/verif/seeded/{name}/meta.json"
    if not os.path.exists(p):
        print("missing", name); continue
    m = json.load(open(p))
    m.update({"breaks_property": name.split('-')[0], "needs_to_manifest": needs, "round": 9,
      "what_was_run": ["worktree of /repo HEAD under /tmp, patch applied",
        "go build ./... && go test -vet=off -count=1 ./...  with the patch: must pass",
        m.get("demo_cmd", "") + "  with the patch: must fail; without it: must pass",
        "VERIF_REPO=<worktree> /verif/run.sh check <property> quick"],
      "origin": "written by an independent sub-agent that saw only the property text, one-line descriptions of the sixteen earlier changes and the functions they edit for that property, and its own worktree"})
    json.dump(m, open(p, "w"), indent=1)
    c = m.get("checks", {}).get(m["property"], {})
    print(name, m.get("suite_with_patch"), m.get("demo_with_patch"), m.get("demo_without_patch"), c.get("exit"), c.get("violation_keys"))
