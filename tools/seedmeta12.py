#!/usr/bin/env python3
"""Adds the descriptive fields to the meta.json of the twelfth-round seeded changes (run after seedverify.py)."""
import json, os
NEEDS = {
 "C01-U": "destination directory replaced by a non-directory, with stale siblings whose names begin with the directory's name",
 "C01-V": "destination non-directory where the source has a directory with children (directory created under a temporary name, mtime recorded under that name)",
 "C02-U": "same-size rewrite whose new mtime falls into the same second as the synced one",
 "C02-V": "setuid/setgid added to a regular file, everything else unchanged",
 "C05-U": "two removed destination directories adjacent in walk order, the second non-empty",
 "C05-V": "symlink, fifo or device whose only edit is its mtime",
 "C09-U": "NewFS(\"/\"): relative path computed by trimming root+\"/\"",
 "C09-V": "xattr with an empty value",
 "C10-U": "prefix-named sibling (foo.txt) after a directory kept on the filter's parent stack",
 "C10-V": "excluded directory with a wildcard exception followed by a literal one; re-included entry two levels down",
 "C11-U": "hard-linked fifo/device whose first name is hidden after its stat was taken",
 "C11-V": "included/excluded directory with a later-sorting prefix-named sibling",
 "C14-U": "wildcard copy, two matches onto a not-yet-existing destination path, the first a link to outside",
 "C14-V": "dangling destination symlink at a nested path where the source has a regular file",
 "C15-U": "destination root that is a symlink, directory source copied onto the root itself with CopyDirContents",
 "C15-V": "always-replace, source directory vs dangling destination symlink",
 "C16-U": "populated destination holding a file at the path of a filtered-out source file",
 "C16-V": "include and exclude lists together, exclude negation below an excluded directory that no include pattern matches",
 "C17-U": "two xattr-bearing entries in one export, the later lacking a key of the earlier",
 "C17-V": "entry with setuid, setgid or sticky bit",
 "C20-U": "receive buffer recycled after decoding (decoded packet aliases it)",
 "C20-V": "bare control packet with Type outside 1..127",
}
NEIGH = {"C05-V": "C02", "C09-U": "C11", "C15-U": "C13"}
for name, needs in NEEDS.items():
    p = f"/verif/seeded/{name}/meta.json"
    if not os.path.exists(p):
        print("missing", name); continue
    m = json.load(open(p))
    m.update({"breaks_property": name.split('-')[0], "needs_to_manifest": needs, "round": 12,
      "what_was_run": ["worktree of /repo HEAD under /tmp, patch applied",
        "go build ./... && go test -vet=off -count=1 ./...  with the patch: must pass",
        m.get("demo_cmd", "") + "  with the patch: must fail; without it: must pass",
        "VERIF_REPO=<worktree> /verif/run.sh check <property> quick (and the neighbouring checks listed under checks)"],
      "origin": "written by an independent sub-agent that saw only the property text (title, statement, quantifier) and its own worktree"})
    if name in NEIGH:
        m["detected_by_neighbouring_check"] = NEIGH[name]
        m["own_check"] = "exit 0: the edit is in code whose behaviour " + NEIGH[name] + " decides; not strengthened in the time left (stated in DESIGN section 6, round 12)"
    if name == "C10-V":
        m["missed_as_delivered"] = "C10 and C11 quick exited 0: no exclude list had a middle-component wildcard exception followed by a literal one; C10 now enumerates every ordered pair of 9 exceptions after 3 excluded bases"
    json.dump(m, open(p, "w"), indent=1)
    print(name, {k: v.get("exit") for k, v in m.get("checks", {}).items()})
